#!/bin/sh
# selftest.sh <mutant.diff> <CHECK_ID> [tier]  — applies a deliberate property-breaking patch to a scratch copy of
# the repository under /var/tmp (never /repo, never /verif), runs the check with VERIF_REPO pointing at the copy,
# expects exit 1 with a VIOLATION line, removes the copy.  Exit 0 = mutant caught.
# selftest.sh --all  runs every mutants/<cNN>_*.diff against its check (quick tier).
cd "$(dirname "$0")"
one() {
  diff=$1; pid=$2; tier=${3:-quick}
  T=$(mktemp -d /var/tmp/verif-mut-XXXXXX)
  rsync -a --exclude .git --exclude logs --exclude __pycache__ "${VERIF_BASE_REPO:-/repo}"/ "$T"/
  if ! (cd "$T" && patch -p1 -s --no-backup-if-mismatch < "$OLDPWD/$diff"); then echo "MUTANT-APPLY-FAILED $diff"; rm -rf "$T"; return 3; fi
  out=$(VERIF_REPO="$T" VERIF_NO_EVIDENCE=1 ./check "$pid" --tier "$tier" 2>&1); rc=$?
  rm -rf "$T"
  if [ $rc -eq 1 ] && echo "$out" | grep -q "^VIOLATION property=$pid"; then
    echo "CAUGHT   $pid $diff :: $(echo "$out" | grep -A1 '^VIOLATION' | sed -n 2p | cut -c1-140)"; return 0
  fi
  echo "MISSED   $pid $diff (rc=$rc) :: $(echo "$out" | tail -1 | cut -c1-160)"; return 1
}
if [ "$1" = "--all" ]; then
  fails=0
  for d in mutants/c[0-9][0-9]_*.diff; do
    [ -f "$d" ] || continue
    pid=$(basename "$d" | cut -c1-3 | tr c C)
    case "$d" in *repair_candidate*) continue;; esac
    one "$d" "$pid" quick || fails=$((fails+1))
  done
  echo "selftest: $fails mutant(s) not caught"; [ $fails -eq 0 ]; exit $?
fi
one "$@"
