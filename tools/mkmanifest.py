#!/venv/bin/python
"""Regenerates /verif/MANIFEST.json from the table below (single place to keep it current)."""
import json
import os

HERE = os.path.dirname(os.path.dirname(os.path.abspath(__file__)))

# id -> (category, technique, level text, level note, design ref)
CHECKS = {
    "C01": ("exploration", "runtime monitoring: differential oracle (independent reference interpreter) + icontract postcondition + leaf flight-recorder",
            "Thousands of generated pipelines (all node kinds, every parameter placement, every failure kind at every index) are executed through the public API and compared with an independent reference interpreter of the documented semantics; an icontract postcondition on the real resolve_runtime_value checks precedence on every call. Held = no disagreement on the executions observed.",
            "Trusts vlib/refmodel.py as the statement of the documented semantics; component library is finite (repo examples + vlib.components).", "DESIGN.md §4 C01"),
    "C03": ("exploration", "runtime monitoring: differential oracle (independent sweep expansion model) over leaf flight-recorder, output collection and published context",
            "Thousands of generated sweep-centred pipelines (source/operation/probe x 1..3 variables x range/sequence/from_context x modes x broadcast x expressions x parameter placements) run through the public API; the leaf flight-recorder gives the kwargs the wrapped element really received at every step, compared step by step with an independent expansion model, together with the output collection / probe list and every <var>_values key. Held = no disagreement on the executions observed.",
            "Trusts vlib/refmodel.py (own linspace/logspace, sorted-name Cartesian order, broadcast cycling). Two-number plain-list variable specs are not generated (doc/code disagree; property silent).", "DESIGN.md §4 C03"),
    "C02": ("exploration", "runtime monitoring: inspection verdict vs. observed run outcome; same-run sys.monitoring node probe (context before/after every node) vs. reported per-node facts",
            "Configurations aimed at the key-flow/type-flow analysis (use-before-create, create-and-require in one node, delete-then-require, type change across context-only and pass-through nodes, sweep-published keys, shadowed defaults) plus generated pipelines are inspected+validated and then really run with exactly the reported required keys and with random supersets; a same-run sys.monitoring probe snapshots the context at every node entry/exit. Accepted-but-fails-on-flow, unreported created/suppressed keys, wrong parameter origins and differing unknown-parameter names are violations. Held = none on the executions observed.",
            "Cause of a run-time failure is classified by the reference model (tied to the real semantics by C01), never by message parsing. Deleting an absent key is a documented don't-care. Components that lie about their output type are excluded.", "DESIGN.md §4 C02"),
    "C06": ("fault_enumeration", "runtime monitoring: offline trace checker (lifecycle automaton + registry-dispatched JSON-schema validation + cross-field checks) over traces of fault-injected runs; /proc/self/fd observer; sys.monitoring failpoints",
            "Every generated base pipeline is run traced with a fault of every kind {processor exception, unresolvable parameter, type gate, undeclared write, construction error x2, KeyboardInterrupt-class abort} inserted at every position, rotating detail levels and file/directory output (full cross in thorough); thorough adds source-free failpoints (an exception injected at every line event inside node-processing code). The emitted JSONL is read the moment the call returns/raises and checked by an automaton, schema validation, ID/edge/status cross-checks, exception identity and an open-descriptor scan. Held = no malformed trace among the faulted runs observed.",
            "Which node fails is taken from the reference model (C01). Faults inside the orchestrator's own emission code or the trace driver are outside the property's failure kinds.", "DESIGN.md §4 C06"),
    "C12": ("exploration", "runtime monitoring: metamorphic/differential oracle over the real normalize_expression_sig_v1 (signature buckets vs exact evaluation, operand permutations, single-point mutants)",
            "Every expression up to the tier's size bound (exhaustive over the stated alphabet, plus seeded larger samples) is passed to the real signature function; expressions sharing a signature are evaluated against each other in exact arithmetic (Fractions; polynomial fragment decided by normal form), every +/* operand permutation and re-association must keep the signature, every semantically different single-point mutant must change it, and the signature exposed in real sweep-class metadata / inspection payload must equal the direct one. Held = no counterexample among the expressions observed.",
            "Exhaustive only up to the stated size and alphabet; equality outside the polynomial fragment rests on 8 exact assignments. Non-numeric constants are not generated (outside the property's numeric scope).", "DESIGN.md §4 C12"),
    "C07": ("exploration", "runtime monitoring: SER fields vs an independent account of the same run (same-run sys.monitoring node probe, reference model, harness clock) under 4 host time zones",
            "Generated succeeding and failing pipelines run traced at rotating detail levels under TZ in {UTC,+09:00,-08:00,+05:45}; a same-run sys.monitoring probe records context/data at every node entry/exit and the class that ran. Each SER is compared field by field: created/updated keys vs the real context diff, processor.ref vs the class that ran, every resolved parameter's value and channel, the four built-in checks vs the observed condition, digest chaining and content-functionality, non-negative durations, and every timestamp parsed as UTC must fall inside the harness's own time.time() bracket of the run and be non-decreasing. Held = no untrue SER field among the records observed.",
            "Which parameters a node resolves / from which channel comes from the reference model (C01). Digest injectivity is informational only.", "DESIGN.md §4 C07"),
    "C08": ("exploration", "runtime monitoring: differential oracle (arithmetic-first reference expansion) via API/YAML/CLI dry-run + icontract postcondition; promptness decided by step/draw/memory monitors (sys.monitoring, itertools proxy, tracemalloc)",
            "Generated run-space specs (0..4 blocks, all mode combinations, sorted-order trap keys, empty lists, csv/json/yaml/ndjson sources with select/rename, every rejection kind, max_runs around the total) are expanded by the real expand_run_space (also through the YAML parser and `semantiva run --run-space-dry-run`) and compared, order-sensitively, with an independent reference expansion; an icontract postcondition re-checks every returned (runs, meta). For over-cap specs with products 10^6..10^12 a monitor counts executed lines/instructions, tuples drawn from itertools.product and peak memory and stops the real code when a linear budget is exceeded. Held = no disagreement and no over-budget rejection on the executions observed.",
            "Trusts vlib/runspace_model.py (written from docs/source/run_space.rst). Documented ambiguities are don't-cares listed in the evidence assumptions. Promptness budget constants are generous (prompt rejections use < 25 %).", "DESIGN.md §4 C08"),
    "C11": ("exploration", "runtime monitoring: independent AST acceptance predicate vs the real compile over a position-complete enumeration of expression trees; bytecode postcondition; audit-hook / sys.monitoring CALL / canary monitors during evaluation",
            "Every expression kind of the running interpreter's grammar with every depth<=2 subtree in every child position (T1 u T2 exhaustive, T3 sampled in quick and exhaustive in thorough) plus a sandbox-escape corpus embedded at every argument/keyword/operand position is passed to the real ExpressionEvaluator.compile: a returned compile for a predicate-false expression, a non-ExpressionError rejection, forbidden opcodes/names in the compiled code, or an audit event / non-whitelisted call / builtins read while evaluating an accepted expression is a violation. Held = none on the expressions observed; exhaustive only w.r.t. the stated tree space.",
            "The acceptance predicate in vlib/exprspace.py states the documented whitelist. `open`/`print` are not used as canary names (side effects on the harness).", "DESIGN.md §4 C11"),
    "C14": ("exploration", "runtime monitoring: deterministic token-passing scheduler over real threads (sys.monitoring LINE/INSTRUCTION yield points, lock shim) with bounded-preemption DFS / PCT / random schedules; exactly-once + order history checker",
            "The real in-memory transport is driven by real threads under a deterministic scheduler that owns every context switch at line (and, in thorough, instruction) granularity of in_memory.py; scenarios of 2-5 threads over existing/fresh/shared channels and exact/wildcard patterns are explored by bounded-preemption DFS (exhaustive to the stated bound), PCT and random schedules, plus a free-running stress. Unambiguous histories (publisher, channel, seq) are checked for conservation, per-publisher order, pattern match and thread exceptions. Held = no violating history among the interleavings observed.",
            "Exhaustive only up to the stated preemption bound and granularity; watchdog activations (0 observed) would make a run inconclusive.", "DESIGN.md §4 C14"),
    "C10": ("exploration", "runtime monitoring: metamorphic oracle — outcome with trace=None vs JsonlTraceDriver(detail=*), and normalised JSONL of repeated runs (fresh / reused Pipeline, histories in between), with hostile hook-bearing values",
            "Generated succeeding and failing pipelines whose data/context carry hostile values (summary hooks __repr__/__len__/to_json/to_bytes/__eq__ that count, mutate or raise) are run untraced and traced at rotating detail levels: returned data/context or the raised exception (type, message) must be identical. The same configuration is then run twice as fresh Pipelines with a history of unrelated runs in between, and twice on one reused Pipeline: the JSONL streams must be identical after removing run id, timestamps, durations and sequence numbers. Held = no difference on the executions observed.",
            "Volatile fields are exactly those the property names. Histories never load new modules (registry.fingerprint legitimately tracks the registry).", "DESIGN.md §4 C10"),
    "C13": ("fault_enumeration", "runtime monitoring: offline checker over real traces — every prefix (crash at any line) vs a set-based reference verdict; permutations / k-way interleavings / subsets for order independence; finalise-twice",
            "Real traces of faulted single runs (all failure kinds) and of run-space launches (failing run at every index; file and directory output) are fed to the real TraceAggregator: every prefix in global emission order must yield the documented verdict (complete iff both edges, else partial naming the missing edge, missing nodes = canonical nodes without SER, no orphans, launch roll-up = counts of its runs' verdicts), and random permutations, reversed/sorted orders, k-way interleavings of per-run files and random subsets must yield identical verdicts; each aggregator is finalised twice. Held = no deviation on the ingestions observed.",
            "Reference verdict function in checks/c13.py (from docs/source/trace_aggregator_v1.rst). For arbitrary subsets only order-independence is checked.", "DESIGN.md §4 C13"),
    "C09": ("exploration", "runtime monitoring: end-to-end through the real CLI; offline checker over the launch's JSONL (bracket, foreign keys, plan order, counts) + differential comparison of every run with a standalone run; ID stability under rewrites/mutations/file changes",
            "Generated (pipeline, run_space) launches with a failing run at every index, file/directory trace output, explicit / idempotency-key / generated launch ids and attempts 1..3 are executed by `semantiva run` (in-process, plus subprocess samples); the trace must show one run_space_start/_end bracket with truthful planned/completed counts, every pipeline_start carrying launch id, attempt, 0-based index and its plan context in plan order, no run after a failed one, and exit code 0 iff all completed. Every run's normalised SER stream (detail=all, so digests carry the result) and sink files must equal those of a standalone run given that run's context. The spec id printed by `semantiva inspect` must equal the one in the trace, stay fixed under key-order/style rewrites and change under plan mutations; idempotency-key launch ids must repeat; the inputs id must change exactly when a source file's content changes. Held = no deviation on the launches observed.",
            "The plan comes from an own expansion of context-only blocks (real expansion is C08's business). Volatile + foreign-key fields only are removed before the standalone comparison.", "DESIGN.md §4 C09"),
    "C17": ("exploration", "runtime monitoring: side-effect observers around the real CLI (directory snapshot, leaf flight-recorder, audit hook on open/mkdir, strace sample) + exit-code oracle",
            "Generated `semantiva run` invocations — configurations invalid in each documented way, missing required context keys (decided by an order-sensitive reference key-flow analysis, with an early sink placed before the node that needs the key), malformed / over-cap run spaces, missing files, usage errors, and --validate / --dry-run / --run-space-dry-run — are executed in a confined working directory: no leaf may run, no sink or trace file may appear, and the exit code must be the documented one; executing invocations must start exactly the planned runs up to the first failing one and exit 0 iff all completed. Held = no deviation on the invocations observed.",
            "Missing run-space source file accepts exit 2 or 3 (documentation supports both readings); a missing key together with --dry-run accepts 0 or 3.", "DESIGN.md §4 C17"),
    "C16": ("exploration", "runtime monitoring: invariant at a hook — sys.monitoring PY_RETURN probe on the node factory validates every node born anywhere (repository's own contract catalogue + independent mirror relation)",
            "A sys.monitoring probe on _pipeline_node_factory (and the two factory constructors it never calls) queues every node constructed anywhere in the workload; after the constructing call returns, the repository's own validate_component runs on the generated node class, the generated processor class and the wrapped classes (no error-level diagnostic allowed), and the node's declared input/output types and created keys are compared with values computed independently from the component table and the wrapping. Workload: a 612-configuration enumeration (every component kind x every wrapping factory x nested combinations x parameter placements) plus generated pipelines run through Pipeline.process, inspection and `semantiva inspect`. Held = no error diagnostic and no mirror deviation on the nodes observed.",
            "Expected types/keys come from vlib/nodespace.py + vlib/refmodel.COMPONENTS. A _ContextDataProcessorNode's inner processor keys are a don't-care (it runs without a context observer).", "DESIGN.md §4 C16"),
    "C04": ("exploration", "runtime monitoring: metamorphic equality of the identity tuple across cosmetic rewrites, processes, hash seeds, working directories, time zones, histories and the three paths (inspection payload, Pipeline construction, trace pipeline_start / `semantiva inspect` stdout)",
            "Generated configurations (with sweeps, from_context variables, nested parameters, duplicate nodes, run_space blocks) are rewritten by 24 self-checked meaning-preserving rewriters (key order at every depth, YAML block/flow style, quoting, anchors, equivalent scalar spellings, +/* operand permutation and re-association, sweep-variable reordering); identities from build_inspection_payload, Pipeline construction, traced pipeline_start of run 1 and run 2 of one object, and `semantiva inspect` stdout must be equal across rewrites, in-process repeats, histories of 1..20 unrelated pipelines, and fresh subprocesses (PYTHONHASHSEED 0/1/4242/random, second cwd, shifted TZ). Held = no differing identity on the executions observed.",
            "Every rewritten YAML is self-checked (yaml.safe_load equality modulo key order) before use. context_key-only differences are an observation, not part of the property.", "DESIGN.md §4 C04"),
    "C05": ("exploration", "runtime monitoring: metamorphic inequality of identities across single-point semantic mutations (all operators at all positions) + UUID uniqueness",
            "For every generated configuration every applicable mutation operator is applied at every applicable position (processor, parameter value at depth 0/1/2, node delete/duplicate/swap, and inside a sweep: wrapped processor, non-equivalent expression established by evaluation, variable bound/steps/scale/endpoint/sequence element/from_context key, mode, broadcast); semantic ID and config ID must both change and the affected node's UUID or node semantic ID must change; node UUIDs within a pipeline must be unique, textually identical duplicates included. Held = no surviving mutation on the pairs observed.",
            "No second collection type exists in the library, so the sweep-collection operator is not generated (stated in the evidence).", "DESIGN.md §4 C05"),
    "C18": ("exploration", "runtime monitoring: growth monitor over long histories — registry sizes and gc-tracked object counts sampled after runs 50/150/450 in fresh subprocesses, with reachability attribution of new objects to known roots",
            "Generated pipelines (covering shorthands, IO adapters, sweeps, slicers, probes, context processors) are run repeatedly in the four ways of repeating a run (one reused Pipeline, fresh Pipelines, a run-space launch through the in-process CLI, a queue worker fed N jobs), each in a fresh subprocess; after gc.collect() at runs 50/150/450 the sizes of 13 process-wide registries must be equal and the object-count slope below 0.5 objects/run. New objects are attributed by gc.get_referents reachability to {classes registered since (by creating factory), queued transport messages, transport channel table}; whatever is reachable from none of these must obey the bound on its own, which keeps the check sharp while the three baseline findings (F17-F19) are open. Held = no unlisted growth on the histories observed.",
            "Counts, never time. Growth of untracked objects is visible only through registry sizes. Seven baseline mechanisms are listed as open known findings.", "DESIGN.md §4 C18"),
}

NOT_BUILT_REASON = "check not implemented yet in this round (work in progress; see DESIGN.md §4 for the planned monitor)"

ALL = [f"C{i:02d}" for i in range(1, 19)]


def main():
    checks = []
    for pid in ALL:
        if pid not in CHECKS:
            continue
        cat, tech, text, note, ref = CHECKS[pid]
        checks.append({
            "property_id": pid,
            "quick_cmd": f"./check {pid} --tier quick",
            "thorough_cmd": f"./check {pid} --tier thorough",
            "evidence_file": f"/verif/evidence/{pid}.json",
            "replay_cmd_template": f"./check {pid} --replay {{path}}",
            "engine": "vlib",
            "level_claimed": {"category": cat, "text": text, "design_ref": ref},
            "level_note": note,
            "technique": tech,
        })
    manifest = {
        "version": 1,
        "setup_cmd": "./setup.sh",
        "hooks": {
            "guard": "SEMANTIVA_VERIF",
            "enable": "no in-repository hooks: all instrumentation (sys.monitoring probes, audit hooks, icontract wrappers, harness extension vlib.components) is attached from /verif at run time; checks import /repo's working tree directly (PYTHONPATH=$VERIF_REPO, default /repo)",
            "baseline_off_cmd": "cd /repo && /venv/bin/python -m pytest -ra -q -p no:cacheprovider --timeout=900 --continue-on-collection-errors",
            "source_commits": [],
            "add_only": True,
        },
        "engines": [
            {"name": "vlib", "path": "/verif/vlib", "serves_properties": [c["property_id"] for c in checks],
             "kind_free_text": "runtime monitoring harness: seeded workload generators, independent reference model, offline trace checkers, deterministic thread scheduler, sys.monitoring / audit-hook / icontract monitors"},
        ],
        "checks": checks,
        "notes": "Runtime monitoring only: every verdict has the form 'held on the executions the monitors observed'. exit 0 held / 1 VIOLATION / 2 inconclusive. Known findings: /verif/known_findings.json (mechanism keys).",
        "not_applicable": [{"property_id": p, "reason": NOT_BUILT_REASON} for p in ALL if p not in CHECKS],
    }
    with open(os.path.join(HERE, "MANIFEST.json"), "w", encoding="utf-8") as fh:
        json.dump(manifest, fh, indent=1)
    print("MANIFEST.json:", len(checks), "checks,", len(manifest["not_applicable"]), "not_applicable")


if __name__ == "__main__":
    main()
