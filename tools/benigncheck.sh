#!/bin/sh
# tools/benigncheck.sh <patch.diff> [check ids...]
# False-alarm test: applies a BEHAVIOUR-PRESERVING patch to a scratch copy of the repository under /var/tmp
# (never /repo, never /verif), confirms the repository suite still passes there, runs the named quick checks
# (default: all 18) with VERIF_REPO pointing at the copy and expects exit 0 from every one.  Removes the copy.
# Output: one line per check "QUIET|ALARM|INCONCLUSIVE <ID> ..." ; exit 0 iff all quiet.
cd "$(dirname "$0")/.." || exit 9
diff=$1; shift
IDS=${*:-C01 C02 C03 C04 C05 C06 C07 C08 C09 C10 C11 C12 C13 C14 C15 C16 C17 C18}
T=$(mktemp -d /var/tmp/verif-benign-XXXXXX)
trap 'rm -rf "$T"' EXIT
rsync -a --exclude .git --exclude logs --exclude __pycache__ "${VERIF_BASE_REPO:-/repo}"/ "$T"/
if ! (cd "$T" && patch -p1 -s --no-backup-if-mismatch < "$OLDPWD/$diff"); then echo "APPLY-FAILED $diff"; exit 3; fi
if [ -z "${BENIGN_SKIP_SUITE:-}" ]; then
  SUITE=$(cd "$T" && PYTHONPATH="$T" timeout 900 /venv/bin/python -m pytest -q -p no:cacheprovider -x --deselect tests/test_export_ontology.py::test_export_framework_ontology_script 2>&1 | tail -1)
  case "$SUITE" in *"503 passed"*) ;; *) echo "SUITE-NOT-BASELINE $diff :: $SUITE"; exit 4;; esac
fi
fails=0
OUT=$(mktemp -d /var/tmp/verif-benign-out-XXXXXX)
run_one() {
  pid=$1
  VERIF_REPO="$T" VERIF_NO_EVIDENCE=1 VERIF_MAX_PARALLEL=${BENIGN_PAR:-4} VERIF_SEED=${VERIF_SEED:-1} ./check "$pid" --tier quick > "$OUT/$pid.log" 2>&1
  echo $? > "$OUT/$pid.rc"
}
n=0
for pid in $IDS; do
  run_one "$pid" &
  n=$((n+1))
  if [ $((n % ${BENIGN_JOBS:-3})) -eq 0 ]; then wait; fi
done
wait
for pid in $IDS; do
  rc=$(cat "$OUT/$pid.rc" 2>/dev/null || echo 99)
  case "$rc" in
    0) echo "QUIET $pid $diff";;
    2) echo "INCONCLUSIVE $pid $diff :: $(tail -1 "$OUT/$pid.log" | cut -c1-200)"; fails=$((fails+1));;
    *) echo "ALARM $pid $diff (rc=$rc) :: $(grep -A1 '^VIOLATION' "$OUT/$pid.log" | head -2 | tr '\n' ' ' | cut -c1-300) $(tail -1 "$OUT/$pid.log" | cut -c1-160)"; fails=$((fails+1));;
  esac
done
rm -rf "$OUT"
[ $fails -eq 0 ]
