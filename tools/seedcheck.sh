#!/bin/sh
# tools/seedcheck.sh <agent_worktree> <i> <PID> [check ids...]
# Confirms a seeded change independently in a fresh scratch worktree of /repo (outside /repo and /verif):
#   patch applies; demo exits 1 with it and 0 without; repository suite still passes with it.
# Then stores it as /verif/seeded/<PID>-<i>/ and runs the named checks (default: <PID>) against it via selftest.sh.
set -u
SRC=$1; I=$2; PID=$3; shift 3
CHECKS=${*:-$PID}
cd /verif
D=/verif/seeded/$PID-${DEST_I:-$I}
W=$(mktemp -d /var/tmp/seedwt-XXXXXX); rmdir "$W"
git -C /repo worktree add -q "$W" HEAD || exit 9
trap 'git -C /repo worktree remove --force "$W" >/dev/null 2>&1; git -C /repo worktree prune' EXIT
mkdir -p "$W/_seed"; cp "$SRC/_seed/demo$I.py" "$W/_seed/"; 
( cd "$W" && PYTHONPATH="$W" timeout 300 /venv/bin/python _seed/demo$I.py >/tmp/seed_without.txt 2>&1 ); RC0=$?
if ! git -C "$W" apply "$SRC/_seed/patch$I.diff"; then echo "SEED $PID-$I: patch does not apply"; exit 2; fi
( cd "$W" && PYTHONPATH="$W" timeout 300 /venv/bin/python _seed/demo$I.py >/tmp/seed_with.txt 2>&1 ); RC1=$?
SUITE=$( cd "$W" && PYTHONPATH="$W" timeout 900 /venv/bin/python -m pytest -q -p no:cacheprovider --deselect tests/test_export_ontology.py::test_export_framework_ontology_script 2>&1 | tail -1 )
echo "SEED $PID-$I: demo without=$RC0 with=$RC1 suite: $SUITE"
case "$SUITE" in *"503 passed"*) ;; *) echo "  suite does not match baseline -> not kept"; exit 3;; esac
if [ "$RC0" != 0 ] || [ "$RC1" = 0 ]; then echo "  demo does not discriminate -> not kept"; exit 4; fi
mkdir -p "$D"; cp "$SRC/_seed/patch$I.diff" "$D/patch.diff"; cp "$SRC/_seed/demo$I.py" "$D/demo.py"
/venv/bin/python - "$SRC/_seed/meta$I.json" "$D/meta.json" "$PID" "$RC0" "$RC1" "$SUITE" <<'PY'
import json, sys
src, dst, pid, rc0, rc1, suite = sys.argv[1:7]
try: m = json.load(open(src))
except Exception: m = {}
m.update({"property": pid, "confirmed": {"demo_exit_without_change": int(rc0), "demo_exit_with_change": int(rc1), "suite_with_change": suite,
          "how": "fresh git worktree of /repo HEAD under /var/tmp; git apply patch.diff; PYTHONPATH=<worktree> /venv/bin/python _seed/demo.py; pytest -q -p no:cacheprovider"}})
json.dump(m, open(dst, "w"), indent=1)
PY
for c in $CHECKS; do ./selftest.sh "seeded/$PID-${DEST_I:-$I}/patch.diff" "$c" | cut -c1-230; done
