#!/venv/bin/python
"""tools/mkmutant.py <out.diff> <repo-relative-file> <<< JSON [[old, new], ...]  — builds a unified diff (p1) from
string replacements against /repo's current file; each `old` must occur exactly once."""
import difflib, json, sys
out, rel = sys.argv[1], sys.argv[2]
pairs = json.load(sys.stdin)
src = open(f"/repo/{rel}", encoding="utf-8").read()
new = src
for old, rep in pairs:
    assert new.count(old) == 1, (rel, old, new.count(old))
    new = new.replace(old, rep)
d = difflib.unified_diff(src.splitlines(True), new.splitlines(True), f"a/{rel}", f"b/{rel}")
open(out, "w", encoding="utf-8").write("".join(d))
print("wrote", out)
