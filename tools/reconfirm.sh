#!/bin/sh
# tools/reconfirm.sh <seeded/ID dir>: re-confirms a kept seed against the CURRENT /repo HEAD in a fresh scratch worktree:
# demo exits 0 without the patch and 1 with it, the repository suite still passes with it.  Removes the worktree.
D=$1
W=$(mktemp -d /var/tmp/reconf-XXXXXX); rmdir "$W"
git -C /repo worktree add -q --detach "$W" HEAD || exit 9
trap 'git -C /repo worktree remove --force "$W" >/dev/null 2>&1; git -C /repo worktree prune' EXIT
mkdir -p "$W/_seed"; cp "$D/demo.py" "$W/_seed/demo.py"
( cd "$W" && PYTHONPATH="$W" timeout 300 /venv/bin/python _seed/demo.py >/dev/null 2>&1 ); RC0=$?
git -C "$W" apply "$(realpath "$D/patch.diff")" || { echo "RECONFIRM $D: patch does not apply"; exit 2; }
( cd "$W" && PYTHONPATH="$W" timeout 300 /venv/bin/python _seed/demo.py >/dev/null 2>&1 ); RC1=$?
SUITE=$( cd "$W" && PYTHONPATH="$W" timeout 900 /venv/bin/python -m pytest -q -p no:cacheprovider --deselect tests/test_export_ontology.py::test_export_framework_ontology_script 2>&1 | tail -1 )
echo "RECONFIRM $D: demo without=$RC0 with=$RC1 suite: $SUITE"
