#!/bin/sh
# Run the repository's own suite (baseline command, guard off) on the current /repo tree in a scratch copy,
# because the suite writes logs/ and output*.txt into its cwd.  Prints the summary line; exit code of pytest.
set -e
SRC=${VERIF_REPO:-/repo}
T=$(mktemp -d /var/tmp/verif-suite-XXXXXX)
trap 'rm -rf "$T"' EXIT
rsync -a --exclude .git --exclude logs --exclude '*.pyc' --exclude __pycache__ "$SRC"/ "$T"/
cd "$T"
env -u SEMANTIVA_VERIF PYTHONPATH="$T" /venv/bin/python -m pytest -q -p no:cacheprovider --timeout=900 "$@" 2>&1 | tail -6
