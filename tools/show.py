#!/venv/bin/python
"""tools/show.py <PID> [key-substring] [n] — print replay witnesses grouped by mechanism key."""
import json, glob, collections, sys
pid = sys.argv[1]; sub = sys.argv[2] if len(sys.argv) > 2 else ""; n = int(sys.argv[3]) if len(sys.argv) > 3 else 2
by = collections.defaultdict(list)
for f in sorted(glob.glob(f'/verif/replays/{pid}-*.json')):
    b = json.load(open(f)); by[b['key']].append((f, b))
for k, v in by.items():
    if sub not in k: continue
    print("=====", k, len(v))
    for f, b in v[:n]:
        w = b['witness']
        print(' file:', f); print(' what:', b['what'])
        for kk, vv in w.items():
            s = json.dumps(vv)
            print(f'  {kk}:', s[:1500])
