#!/usr/bin/env python3
"""tools/seedprompt.py <PID> <worktree> [n] -> prompt text for a fresh seeding sub-agent.

The agent sees: the property record (verbatim), one-line summaries of the seeded changes already kept for that
property (so it picks another mechanism), and the rules.  It sees nothing else from /verif.
"""
import glob
import json
import os
import sys

HERE = os.path.dirname(os.path.dirname(os.path.abspath(__file__)))


def main() -> None:
    pid, wt = sys.argv[1], sys.argv[2]
    n = int(sys.argv[3]) if len(sys.argv) > 3 else 2
    prop = None
    for line in open(os.path.join(HERE, "properties.jsonl"), encoding="utf-8"):
        rec = json.loads(line)
        if rec["id"] == pid:
            prop = rec
    assert prop, pid
    prev = []
    for d in sorted(glob.glob(os.path.join(HERE, "seeded", f"{pid}-*"))):
        try:
            m = json.load(open(os.path.join(d, "meta.json")))
        except Exception:
            continue
        prev.append(f"- {m.get('summary', '')[:420]}  [needs: {m.get('needs_to_manifest', '')[:300]}]")
    prop_txt = json.dumps({k: prop[k] for k in ("id", "title", "statement", "quantifier", "why_tests_cant", "anchors") if k in prop}, indent=1)
    print(f"""You are helping to evaluate a verification effort for the Python project semantiva (a framework that compiles YAML pipeline
configs into typed node graphs with context-key flow analysis, parametric sweeps, deterministic semantic IDs and JSONL execution traces).
You work ONLY inside the scratch git worktree {wt} (a worktree of the repository at its current HEAD). Do not read or
touch /verif or /repo; never commit anything; NEVER use `git stash` (the stash is shared with other worktrees) - undo with `git checkout -- semantiva` only. Interpreter: /venv/bin/python (run things as `cd {wt} && PYTHONPATH={wt} /venv/bin/python ...`).
The repository's own test suite: `cd {wt} && PYTHONPATH={wt} /venv/bin/python -m pytest -q -p no:cacheprovider --deselect tests/test_export_ontology.py::test_export_framework_ontology_script`
(expected on the unchanged tree: 503 passed). There is no network.

Here is one semantic property that semantiva is supposed to satisfy:

{prop_txt}

Your task: write {n} DIFFERENT, realistic changes to the semantiva source (files under {wt}/semantiva/ only) each of which BREAKS this
property while the code still imports/compiles and the existing test suite still passes unchanged (503 passed, no test edited).
Each change should look like something a maintainer could plausibly commit (an optimisation, a refactor, a cache, a "simplification",
a fail-fast move, a DRY clean-up, a robustness tweak), NOT an obvious sabotage, and it must need something SPECIFIC to manifest:
a particular interleaving, a crash or fault at a particular point, a multi-step sequence of operations, an unusual input or
combination of options, or two cooperating sites that each look fine alone. Changes that ordinary use would expose at once are not wanted.
The {n} changes must use different mechanisms from each other and from these earlier ones (already collected, do not repeat them or close variants;
prefer other files / other parts of the behaviour the property covers):

{chr(10).join(prev) if prev else '(none yet)'}

For each change i = 1..{n} produce, under {wt}/_seed/ :
  - patch<i>.diff : `git diff` of ONLY that change against the unchanged tree (unified diff that `git apply` accepts on a clean worktree;
                    only files under semantiva/). Produce it with `git diff > _seed/patch<i>.diff`, then `git checkout -- semantiva` before the next change.
  - demo<i>.py    : a small standalone program (run as `cd <worktree> && PYTHONPATH=<worktree> /venv/bin/python _seed/demo<i>.py`)
                    that exits 0 on the unchanged tree and exits 1 (printing what went wrong) when the change is applied.
                    It must demonstrate a violation of the PROPERTY AS STATED (observable behaviour), not merely detect the edit.
                    It must not depend on files outside the worktree other than the standard library / installed packages, must clean up
                    temp files, and should finish within a minute.
  - meta<i>.json  : {{"summary": what the change does and where (2-3 sentences), "needs_to_manifest": exactly what is needed for it to show
                    (1-3 sentences), "files_touched": [...], "tests_run": the command you ran and its last line, "demo": "demo<i>.py"}}

Before you finish, for each change verify yourself, on a clean tree state: (a) the patch applies with `git apply`; (b) with it applied the
full test suite still reports 503 passed; (c) demo exits 1 with it and 0 without it. Leave the worktree with the source tree clean
(`git checkout -- semantiva`; `git status` shows only _seed/ untracked). If after honest effort you can only produce fewer than {n} valid
changes, deliver the ones that are valid. Final answer: for each change, a 3-line description (what, why it passes the tests, what it needs to manifest)
and the verification results (a), (b), (c).""")


if __name__ == "__main__":
    main()
