"""C17 — the CLI never executes a configuration its pre-flight checks reject.

Side effects are observed three ways: directory snapshot of the confined working directory before/after, the leaf
flight-recorder plus an audit hook on open()/os.mkdir with write intent (in-process runs), and `strace -f -e
trace=file` for a sample of subprocess runs (thorough).  "Required key not supplied" is decided by
vlib.refmodel.key_flow (order-sensitive), never by the tool under test.
"""
from __future__ import annotations

import copy
import os
import random
import shutil
import sys
import tempfile

from vlib import boot

LEVEL = "exploration"
RULE = ("generated CLI invocations: configurations valid and invalid in each documented way (unknown processor, unknown "
        "parameter, probe without key, type mismatch, deleted key, use-before-create, malformed / over-cap run space, missing "
        "source file, missing YAML, usage error) x flags {--validate, --dry-run, --run-space-dry-run, --context, --set, "
        "--run-space-max-runs} x supplied/missing context keys; pipelines put a sink BEFORE the node needing the missing "
        "key; distinct = hash of (class, nodes, run_space, argv); non-trivial = a rejecting or dry class, or >= 2 planned runs")
SHARDS = {"quick": 8, "thorough": 16}
SHARD_TIMEOUT = {"quick": 900, "thorough": 3000}
N_CASES = {"quick": 80, "thorough": 300}   # per shard

_AUDIT = {"on": False, "root": "", "events": []}
_HOOKED = False


def _audit(event, args):
    if not _AUDIT["on"]:
        return
    try:
        if event == "open":
            path, mode = args[0], args[1]
            if isinstance(path, str) and isinstance(mode, str) and any(c in mode for c in "wax+") and os.path.abspath(path).startswith(_AUDIT["root"]):
                _AUDIT["events"].append(("open", os.path.relpath(os.path.abspath(path), _AUDIT["root"]), mode))
        elif event == "os.mkdir":
            path = args[0]
            if isinstance(path, str) and os.path.abspath(path).startswith(_AUDIT["root"]):
                _AUDIT["events"].append(("mkdir", os.path.relpath(os.path.abspath(path), _AUDIT["root"])))
    except Exception:
        pass


def base_pipeline(g):
    """Source first (the CLI always starts from NoData); an early sink is the witness that nodes ran."""
    nodes = [{"processor": "VSrc"},                                   # value: required from context
             {"processor": "VFileSink", "parameters": {"path": "early_sink.txt"}},
             {"processor": g.rng.choice(["VMul", "VAffine"])},        # factor / a: required from context
             {"processor": "VValueProbe", "context_key": "seen"},
             {"processor": "VNullSink"}]
    if g.chance(0.4):
        nodes.insert(3, {"processor": "VBoom"})                       # fuse from context (default 1.0 => fails unless supplied 0.0)
    if g.chance(0.35):
        # a node that requires the very key it (re)writes: the key must still come from the initial context
        nodes.insert(2, {"processor": "template:\"{tplk}_x\":tplk"})
    return nodes


def make_case(g, rng):
    from vlib import cli, refmodel as rm

    cls = rng.choice(["invalid_unknown_processor", "invalid_unknown_param", "invalid_probe_without_key", "invalid_type_mismatch",
                      "invalid_deleted_key", "invalid_use_before_create", "malformed_run_space", "over_cap", "over_cap_cli_override",
                      "missing_source_file", "missing_yaml", "usage_error", "missing_required_key", "missing_required_key",
                      "dry_validate", "dry_dry_run", "dry_run_space", "execute_ok", "execute_ok", "execute_fail", "execute_fail",
                      "invalid_plus_validate", "missing_key_plus_dry_run", "missing_self_written_key",
                      "missing_key_of_second_same_named_processor", "dry_run_space_without_blocks", "dry_run_space_without_blocks",
                      "invalid_sweep_expression", "invalid_sweep_expression", "malformed_run_space",
                      "null_cell_for_required_key", "null_cell_for_required_key", "override_file_null_run_space"])
    nodes = base_pipeline(g)
    if cls == "missing_key_of_second_same_named_processor":
        # two generated processors that get the SAME class name (both write `label`) but need different keys; the key only
        # the second one needs is not supplied
        nodes.insert(2, {"processor": "template:\"{stem}_raw\":label"})
        nodes.insert(4, {"processor": "template:\"{outdir}/{stem}_scaled\":label"})
    if cls in ("missing_self_written_key", "null_cell_for_required_key") and not any("tplk" in n["processor"] for n in nodes):
        nodes.insert(2, {"processor": "template:\"{tplk}_x\":tplk"})
    has_boom = any(n["processor"] == "VBoom" for n in nodes)
    need = rm.key_flow(nodes)["required"]           # e.g. ["factor"|"a", "value"] (+ nothing for fuse: it has a default)
    n_runs = rng.randint(1, 4) if cls != "null_cell_for_required_key" else rng.randint(2, 4)
    vals = lambda: [round(rng.choice([1.0, 2.0, 3.0]) + 0.25 * i, 2) for i in range(n_runs)]  # noqa: E731
    ctx_lists = {k: (vals() if k != "tplk" else [f"s{i}" for i in range(n_runs)]) for k in need}
    fuse = [0.0] * n_runs
    first_fail = None
    if has_boom:
        ctx_lists["fuse"] = fuse
    run_space = {"combine": "combinatorial", "max_runs": 50, "blocks": [{"mode": "by_position", "context": ctx_lists}]}
    argv_extra: list = []
    expect = {"rc": 0, "executes": True}
    files: dict = {}
    yaml_name = "case.yaml"
    if cls == "invalid_sweep_expression":
        # a sweep expression that is valid Python but outside the safe grammar / over an undeclared variable: a configuration
        # error that pre-flight must report (nothing executes; --validate and --dry-run must not say "valid" either)
        bad = rng.choice(["2.0 * tt", "t.real + 1.0", "len(str(t)) * 1.0", "[t, 2.0][0]", "(lambda: t)()"])
        nodes.insert(3, {"processor": "VMulDefault", "derive": {"parameter_sweep": {"parameters": {"factor": bad}, "variables": {"t": [1.0, 2.0]},
                                                                                     "collection": "FloatDataCollection"}}})
        nodes.insert(4, {"processor": "VCollSum"})
        argv_extra += rng.choice([[], [], ["--validate"], ["--dry-run"]])
        expect = {"rc": 3, "executes": False}
    elif cls == "null_cell_for_required_key":
        # the run space gives a REQUIRED key the value null for one run (a YAML null, an empty cell): either null is a value
        # and every run completes (exit 0), or the key counts as not supplied and NOTHING runs (exit 3) - never a launch
        # that starts and dies at the run with the null
        k_null = rng.randrange(1, n_runs) if g.chance(0.7) else 0
        ctx_lists["tplk"] = [None if i == k_null else f"s{i}" for i in range(n_runs)]
        expect = {"rc": (0, 3), "executes": "all_or_nothing"}
    elif cls == "override_file_null_run_space":
        # --run-space-file names a file whose run_space: entry is null (every line under it commented out): an invalid
        # override - nothing may run (the pipeline itself needs no run-space key)
        nodes = [{"processor": "VSrc", "parameters": {"value": 2.0}}, {"processor": "VFileSink", "parameters": {"path": "early_sink.txt"}},
                 {"processor": "VMul", "parameters": {"factor": 3.0}}, {"processor": "VNullSink"}]
        run_space = None
        files["rs_null.yaml"] = rng.choice(["run_space:\n  # combine: combinatorial\n  # blocks: []\n", "run_space: null\n", "run_space: ~\n"])
        argv_extra += ["--run-space-file", "rs_null.yaml"]
        expect = {"rc": 3, "executes": False}
    elif cls == "invalid_unknown_processor":
        nodes[2] = {"processor": "NoSuchProcessorAnywhere"}
        expect = {"rc": 3, "executes": False}
    elif cls == "invalid_unknown_param":
        nodes[4] = {"processor": "VNullSink", "parameters": {"bogus": 1.0}}
        expect = {"rc": 3, "executes": False}
    elif cls == "invalid_probe_without_key":
        nodes[3 if not has_boom else 4] = {"processor": "VValueProbe"}
        expect = {"rc": 3, "executes": False}
    elif cls == "invalid_type_mismatch":
        nodes.insert(2, {"processor": rng.choice(["VCollSum", "slice:VMulDefault:FloatDataCollection"])})
        if g.chance(0.5):
            nodes.insert(2, {"processor": "VCtxScale", "parameters": {"base": 1.0}})
        expect = {"rc": 3, "executes": False}
    elif cls == "invalid_deleted_key":
        k = [x for x in need if x != "value"][0]
        nodes.insert(2, {"processor": f"delete:{k}"})
        expect = {"rc": 3, "executes": False}
    elif cls == "invalid_use_before_create":
        # the key is produced only AFTER the node that needs it and is not supplied: must be reported missing
        k = [x for x in need if x != "value"][0]
        nodes.append({"processor": "VValueProbe", "context_key": k})
        del ctx_lists[k]
        expect = {"rc": 3, "executes": False}
    elif cls == "malformed_run_space":
        kind = rng.choice(["bad_mode", "unequal_lengths", "dup_keys", "blocks_not_list", "dup_across_via_source",
                           "dup_in_block_via_source", "source_select_missing_column", "source_rename_collision"])
        k0 = sorted(ctx_lists)[0]
        if kind.startswith(("dup_", "source_")) and kind != "dup_keys":
            # the offending key / column comes out of an external source file (csv, or json rows)
            fmt = rng.choice(["csv", "json"])
            fname = f"extra.{fmt}"
            col2 = "extra_col"
            rows = [{k0 if kind.startswith("dup_") else "plain_col": 1.0 + i, col2: 10.0 + i} for i in range(n_runs)]
            if fmt == "csv":
                cols = list(rows[0])
                files[fname] = ",".join(cols) + "\n" + "".join(",".join(str(r[c]) for c in cols) + "\n" for r in rows)
            else:
                import json as _json

                files[fname] = _json.dumps(rows)
            src = {"format": fmt, "path": fname}
            if kind == "dup_across_via_source":
                if g.chance(0.5):      # the duplicate appears only after a rename
                    rows2 = [{"orig_name": r[k0], col2: r[col2]} for r in rows]
                    cols = list(rows2[0])
                    files[fname] = (",".join(cols) + "\n" + "".join(",".join(str(r[c]) for c in cols) + "\n" for r in rows2)) if fmt == "csv" else __import__("json").dumps(rows2)
                    src["rename"] = {"orig_name": k0}
                run_space["blocks"].append({"mode": "by_position", "source": src})
            elif kind == "dup_in_block_via_source":
                run_space["blocks"][0]["source"] = src
            elif kind == "source_select_missing_column":
                src["select"] = ["plain_col", "no_such_column"]
                run_space["blocks"].append({"mode": "by_position", "source": src})
            else:
                src["rename"] = {"plain_col": col2}
                run_space["blocks"].append({"mode": "by_position", "source": src})
        if kind == "bad_mode":
            run_space["blocks"][0]["mode"] = "zipper"
        elif kind == "unequal_lengths":
            k0 = sorted(ctx_lists)[0]
            ctx_lists[k0] = ctx_lists[k0] + [9.0]
        elif kind == "dup_keys":
            run_space["blocks"].append({"mode": "by_position", "context": {sorted(ctx_lists)[0]: [1.0] * n_runs}})
        elif kind == "blocks_not_list":
            run_space["blocks"] = {"mode": "by_position"}
        expect = {"rc": 3, "executes": False}
    elif cls in ("over_cap", "over_cap_cli_override"):
        if g.chance(0.5):
            # self-contained pipeline (no key needed from the context): only the cap stands between it and execution
            nodes = [{"processor": "VSrc", "parameters": {"value": 2.0}},
                     {"processor": "VFileSink", "parameters": {"path": "early_sink.txt"}},
                     {"processor": "VMul", "parameters": {"factor": 3.0}}, {"processor": "VNullSink"}]
            run_space["blocks"][0]["context"] = {"unused_key": [float(i) for i in range(max(2, n_runs))]}
            n_runs = max(2, n_runs)
        if cls == "over_cap":
            run_space["max_runs"] = max(0, n_runs - 1)
        else:
            argv_extra += ["--run-space-max-runs", str(max(0, n_runs - 1))]
        expect = {"rc": 3, "executes": False}
    elif cls == "missing_source_file":
        run_space["blocks"].append({"mode": "by_position", "source": {"format": "csv", "path": "no_such_file.csv"}})
        # a missing file referenced by the configuration: documented as file error (2) or configuration error (3)
        expect = {"rc": (2, 3), "executes": False}
    elif cls == "missing_yaml":
        yaml_name = None
        expect = {"rc": 2, "executes": False}
    elif cls == "usage_error":
        argv_extra += [rng.choice(["--no-such-flag", "--run-space-max-runs=abc"])]
        expect = {"rc": 1, "executes": False}
    elif cls == "dry_run_space_without_blocks":
        # a run-space dry run on a configuration whose effective run space has NO blocks: still nothing may execute
        nodes = [{"processor": "VSrc", "parameters": {"value": 2.0}}, {"processor": "VFileSink", "parameters": {"path": "early_sink.txt"}},
                 {"processor": "VMul", "parameters": {"factor": 3.0}}, {"processor": "VNullSink"}]
        how = rng.choice(["no_run_space_flag", "empty_blocks_yaml_flag", "empty_blocks_cli_flag"])
        if how == "no_run_space_flag":
            run_space = None
            argv_extra += ["--run-space-dry-run"]
        elif how == "empty_blocks_yaml_flag":
            run_space = {"combine": "combinatorial", "max_runs": 10, "dry_run": True, "blocks": []}
        else:
            run_space = {"combine": "combinatorial", "max_runs": 10, "blocks": []}
            argv_extra += ["--run-space-dry-run"]
        expect = {"rc": 0, "executes": False}
    elif cls == "missing_key_of_second_same_named_processor":
        ctx_lists["stem"] = [f"s{i}" for i in range(n_runs)]
        ctx_lists.pop("outdir", None)
        expect = {"rc": 3, "executes": False}
    elif cls in ("missing_required_key", "missing_key_plus_dry_run", "missing_self_written_key"):
        k = rng.choice(sorted(need)) if cls != "missing_self_written_key" else "tplk"
        del ctx_lists[k]
        expect = {"rc": 3, "executes": False}
        if cls == "missing_key_plus_dry_run":
            # --dry-run never executes either; which of the two messages wins is not specified: accept rc 0 or 3
            argv_extra += ["--dry-run"]
            expect = {"rc": (0, 3), "executes": False}
    elif cls == "dry_validate":
        argv_extra += ["--validate"]
        expect = {"rc": 0, "executes": False}
    elif cls == "dry_dry_run":
        argv_extra += ["--dry-run"]
        expect = {"rc": 0, "executes": False}
    elif cls == "dry_run_space":
        argv_extra += ["--run-space-dry-run"]
        expect = {"rc": 0, "executes": False}
    elif cls == "invalid_plus_validate":
        nodes[4] = {"processor": "VNullSink", "parameters": {"bogus": 1.0}}
        argv_extra += ["--validate"]
        expect = {"rc": 3, "executes": False}
    elif cls == "execute_fail":
        if not has_boom:
            nodes.insert(3, {"processor": "VBoom"})
            has_boom = True
        first_fail = rng.randrange(n_runs)
        fuse = [0.0] * n_runs
        fuse[first_fail] = 1.0
        ctx_lists["fuse"] = fuse
        expect = {"rc": 4, "executes": True}
    # supply one required key through --context instead of the run space (exercises --context k=v)
    if cls.startswith(("execute", "dry")) and g.chance(0.4):
        k = sorted(need)[0]
        if k in ctx_lists and len(set(ctx_lists[k])) >= 1:
            v = ctx_lists.pop(k)[0]
            ctx_lists_fixed = v
            argv_extra += ["--context", f"{k}={v}"]
    if cls.startswith("execute") and g.chance(0.3):
        argv_extra += ["--set", "trace.options.detail=hash"]
    if cls == "execute_ok" and g.chance(0.25):
        # positive control for the source-file classes: a VALID second block fed from a file (new keys only)
        files["extra_ok.csv"] = "spare_a,spare_b\n" + "".join(f"{1.0 + i},{2.0 + i}\n" for i in range(n_runs))
        run_space["combine"] = "by_position"
        run_space["blocks"].append({"mode": "by_position", "source": {"format": "csv", "path": "extra_ok.csv"}})
    plan = cli.expand_plan(run_space) if isinstance(run_space, dict) and isinstance(run_space.get("blocks"), list) and run_space.get("blocks") \
        and cls not in ("malformed_run_space", "missing_source_file") and not files else None
    # where the effective run space is declared: top level, nested under pipeline:, top level + a nested decoy
    # (top level wins), or a --run-space-file + a nested decoy (the file wins)
    placement = rng.choice(["top", "top", "nested", "top_plus_nested_decoy", "file_plus_nested_decoy"])
    if cls in ("dry_run_space", "over_cap_cli_override", "over_cap") and g.chance(0.5):
        placement = "nested"       # the CLI flags must reach a run space declared under pipeline: (fix 6f7d973)
    if run_space is None:
        placement = "top"          # no run space anywhere (a decoy or an override file would be one)
    return {"placement": placement, "class": cls, "nodes": nodes, "run_space": run_space, "argv_extra": argv_extra, "expect": expect, "yaml": yaml_name,
            "plan_len": len(plan) if plan is not None else (n_runs if files and cls == "execute_ok" else None), "first_fail": first_fail, "has_boom": has_boom,
            "files": files}


def run_case(run, case, scratch, subprocess_=False, strace=False):
    from vlib import cli
    from vlib.components import REC

    wd = tempfile.mkdtemp(prefix="cli-", dir=scratch)
    tdir = os.path.join(wd, "trace_out")
    ypath = os.path.join(wd, case["yaml"] or "absent.yaml")
    extra_argv: list = []
    if case["yaml"]:
        placement = case.get("placement", "top")
        trace_cfg = {"driver": "jsonl", "output_path": os.path.join(tdir, "t.ser.jsonl") if len(case["nodes"]) % 2 else tdir,
                     "options": {"detail": "hash"}}
        decoy = {"combine": "combinatorial", "max_runs": 50,
                 "blocks": [{"mode": "by_position", "context": {"decoy_key": [1.0]}}]}
        if placement == "nested":
            cli.write_yaml(ypath, case["nodes"], None, trace_cfg, nested_run_space=case["run_space"])
        elif placement == "top_plus_nested_decoy":
            cli.write_yaml(ypath, case["nodes"], case["run_space"], trace_cfg, nested_run_space=decoy)
        elif placement == "file_plus_nested_decoy":
            import yaml as _yaml

            cli.write_yaml(ypath, case["nodes"], None, trace_cfg, nested_run_space=decoy)
            rsf = os.path.join(wd, "rs_override.yaml")
            with open(rsf, "w", encoding="utf-8") as fh:
                _yaml.safe_dump({"run_space": case["run_space"]}, fh, sort_keys=False)
            extra_argv = ["--run-space-file", rsf]
        else:
            cli.write_yaml(ypath, case["nodes"], case["run_space"], trace_cfg)
    for fname, content in (case.get("files") or {}).items():
        with open(os.path.join(wd, fname), "w", encoding="utf-8") as fh:
            fh.write(content)
    before = cli.snapshot(wd)
    argv = ["run", ypath, "-q"] + extra_argv + case["argv_extra"]
    REC.clear()
    _AUDIT.update(on=not subprocess_, root=os.path.abspath(wd) + os.sep, events=[])
    strace_out = os.path.join(scratch, f"strace-{os.path.basename(wd)}.txt") if strace else None
    try:
        if subprocess_:
            res = cli.run_cli_subprocess(argv, cwd=wd, strace_out=strace_out)
        else:
            try:
                res = cli.run_cli(argv, cwd=wd)
            except BaseException as exc:  # an uncaught exception would be a traceback + exit 1 on the command line
                res = cli.CliResult(f"uncaught:{type(exc).__name__}", "", repr(exc))
    finally:
        _AUDIT["on"] = False
    after = cli.snapshot(wd)
    leaves = [] if subprocess_ else REC.snapshot()
    new_files = sorted(set(after) - set(before))
    changed = sorted(k for k in before if after.get(k) != before[k])
    run.count("invocations")
    run.count("invocations_subprocess" if subprocess_ else "invocations_inprocess")
    run.count(f"class_{case['class']}")
    exp = case["expect"]
    if exp["executes"] == "all_or_nothing":
        exp = dict(exp, executes=(res.rc != 3))
    witness = {"class": case["class"], "nodes": case["nodes"], "run_space": case["run_space"], "argv": argv[2:], "rc": res.rc,
               "stderr": res.err[-400:], "stdout": res.out[-200:], "new_files": new_files, "leaves": [l[0] for l in leaves][:12]}
    ok_rcs = exp["rc"] if isinstance(exp["rc"], tuple) else (exp["rc"],)
    if res.rc not in ok_rcs:
        run.violation(f"exit_code_wrong:{case['class']}", f"exit code {res.rc!r}, documented {ok_rcs} for {case['class']}", witness)
    if not exp["executes"]:
        ran = bool(leaves) or any(f.endswith(".txt") for f in new_files)
        traced = any("trace_out" in f or f.endswith(".jsonl") for f in new_files)
        if ran:
            run.violation(f"node_executed_although_rejected:{case['class']}", f"nodes ran ({[l[0] for l in leaves][:6]}, files {new_files}) although the invocation must not execute", witness)
        if traced:
            run.violation(f"trace_written_although_rejected:{case['class']}", f"trace output created ({new_files}) although the invocation must not execute", witness)
        wrote = [e for e in _AUDIT["events"] if not e[1].endswith(".yaml")]
        run.count(f"placement_{case.get('placement', 'top')}")
        if wrote and not (ran or traced):
            run.violation(f"file_written_although_rejected:{case['class']}", f"files opened for writing: {wrote}", witness)
        if strace_out and os.path.exists(strace_out):
            created = [ln for ln in open(strace_out, errors="replace") if os.path.abspath(wd) in ln and ("O_CREAT" in ln or "mkdir(" in ln) and "= -1" not in ln]
            run.count("strace_runs")
            if created:
                run.violation(f"file_created_although_rejected_strace:{case['class']}", f"strace shows creations: {created[:3]}", witness)
    else:
        started = sum(1 for l in leaves if l[0] == "VSrc") if not subprocess_ else None
        plan_len, ff = case["plan_len"], case["first_fail"]
        want_started = plan_len if ff is None else ff + 1
        if started is not None and plan_len is not None and started != want_started:
            run.violation(f"runs_started_wrong:{case['class']}", f"{started} runs started, expected {want_started} ({plan_len} planned, first failing {ff})", witness)
        if ff is None and res.rc == 0 and not subprocess_:
            done = sum(1 for l in leaves if l[0] == "VNullSink")
            if plan_len is not None and done != plan_len:
                run.violation("exit_zero_but_not_all_runs_completed", f"exit 0 but only {done} of {plan_len} runs reached the last node", witness)
    shutil.rmtree(wd, ignore_errors=True)
    if strace_out and os.path.exists(strace_out):
        os.unlink(strace_out)


def run(run):
    global _HOOKED
    boot.boot()
    from vlib import cli, gen
    from vlib.verdict import canon_hash

    if not _HOOKED:
        sys.addaudithook(_audit)
        _HOOKED = True
    seed = run.seed * 1000 + run.shard[0]
    rng = random.Random(seed)
    scratch = tempfile.mkdtemp(prefix="verif-c17-")
    g = gen.Gen(seed, scratch)
    have_strace = shutil.which("strace") is not None
    try:
        for i in range(N_CASES[run.tier]):
            case = make_case(g, rng)
            sub = cli.has_module_entry() and ((run.tier == "quick" and i == 0 and run.shard[0] < 4) or (run.tier == "thorough" and i % 10 == 0))
            strace = sub and have_strace and run.tier == "thorough" and i % 20 == 0
            run_case(run, case, scratch, subprocess_=sub, strace=strace)
            nontrivial = (not case["expect"]["executes"]) or (case["plan_len"] or 0) >= 2
            run.case(canon_hash([case["class"], case["nodes"], case["run_space"], case["argv_extra"]]), nontrivial,
                     sample={k: case[k] for k in ("class", "nodes", "run_space", "argv_extra", "expect")} if run.evaluations < 3 else None)
    finally:
        _AUDIT["on"] = False
        shutil.rmtree(scratch, ignore_errors=True)
    run.floor("invocations", 20)
    run.assumptions += ["required keys decided by vlib.refmodel.key_flow (order-sensitive)",
                        "when a required key is missing AND --dry-run is given, either exit 0 or exit 3 is accepted (not specified which check wins); nothing may execute either way"]


def replay(run, witness):
    global _HOOKED
    boot.boot()
    if not _HOOKED:
        sys.addaudithook(_audit)
        _HOOKED = True
    scratch = tempfile.mkdtemp(prefix="verif-c17-")
    try:
        cls = witness["class"]
        exp = {"rc": 0, "executes": True}
        case = {"class": cls, "nodes": witness["nodes"], "run_space": witness["run_space"], "argv_extra": [a for a in witness["argv"] if a != "-q"],
                "expect": witness.get("expect", exp), "yaml": None if cls == "missing_yaml" else "case.yaml", "plan_len": None, "first_fail": None}
        run.note_inconclusive("C17 replay re-runs the invocation; expectations are recomputed only by a full run with the same VERIF_SEED")
        run_case(run, case, scratch)
        run.case(witness["nodes"], True, sample=witness["argv"])
        run.case("replay-second-slot", True)
    finally:
        shutil.rmtree(scratch, ignore_errors=True)
