"""C11 — sweep expressions are confined to the safe grammar and to their own variables.

Observed at: ``ExpressionEvaluator().compile(expr, names)`` returning / raising (called directly for the enumerated
space; for the corpus also through ``ParametricSweepFactory.create(parametric_expressions=...)`` with an
``icontract.ensure`` recording postcondition on the real ``compile``), the code object captured by the returned
closure, and the evaluation of every accepted expression on sample assignments.

Oracle stages, first failing stage decides the mechanism key of a violation:
 (a) acceptance: compile returned  =>  vlib.exprspace.offences(own parse, names) == []; compile may only raise
     ExpressionError; nothing is imported / executed / opened while compiling;
 (b) structure: code object in the closure cells has co_names <= variables | whitelisted functions, no attribute /
     import / closure / function-making / subscript / store opcodes, no nested code objects;
 (c) dynamics, per sample assignment: audit hook (import, open, exec other than the expression's own code object,
     compile, os.*, subprocess.*, ...), sys.monitoring CALL events of the expression's code object (callee must be
     one of the eight whitelisted functions), recording ``__builtins__`` mapping placed in the evaluator's function
     environment (any builtins read = a name resolved outside variables | environment), canary variable recording
     attribute reads.
Side effects observed for an expression that already failed (a) are attached to that witness as confirmation and are
not reported under a second key.

Mechanism keys (deterministic classifier over the witness, see vlib.exprspace.mechanism_key / wrong_exception_key):
  call_keyword_value_not_validated        every element outside the whitelist sits inside a call keyword value
                                          (k=<v> or **<v>); also when such an expression gets as far as Python's
                                          compiler and its SyntaxError escapes unwrapped
  disallowed_node_<Kind>_accepted         first offence outside keyword values is a node kind / operator / context
  undeclared_name_accepted                ... is a Name that is not a declared variable
  non_whitelisted_call_accepted           ... is a callee that is not a bare whitelisted function name
  name_context_<Ctx>_accepted             ... is a Store/Del context
  unparseable_source_accepted             compile returned for a source Python's parser refuses
  compile_stage_syntax_error_not_wrapped  parses, all elements whitelisted, the compiler's SyntaxError escapes raw
  wrong_exception_type_<Name>             any other non-ExpressionError escaping compile
  compile_time_side_effect_<event>        audit event while compiling (before any evaluation)
  closure_code_<problem>                  stage (b) on an expression that passed (a)
  evaluation_side_effect_<effect>         stage (c) on an expression that passed (a) and (b)
"""
from __future__ import annotations

import ast
import builtins
import gc
import hashlib
import opcode
import random
import signal
import sys
import types
import warnings
from collections import Counter

from vlib import boot
from vlib import exprspace as xs

LEVEL = "exploration"
RULE = ("position-complete enumeration of Python expression trees from ast.expr.__subclasses__() of the running "
        "interpreter: T1 = 11 leaves (declared / undeclared / dunder / whitelisted-function / other-builtin names, "
        "int float str bytes None Ellipsis); T2 = every expr kind x every shape (all operator classes, 0..2 list "
        "elements, 1..2 comparators, 0..1 named and 0..1 ** keyword) x all leaf combinations in its slots (kinds "
        "outside the whitelist with >3 slots: each slot x every leaf + every leaf in all slots); T3 = every child "
        "position (65 on 3.12: every slot of every kind, incl. starred / ** / keyword / comprehension / slice / f-string "
        "positions) x every T2 tree; corpus = escape idioms x whitelisted shells at every argument / keyword / "
        "operand / comparator / test / body / orelse / callee / starred position, plus unparseable junk. Each tree is "
        "unparsed to source and given to the real compile. distinct = sha256 of the source; non-trivial = the real "
        "compile accepted it (all three oracle stages ran) or it is a T1/T2/corpus expression rejected below a "
        "whitelisted root node (validator had to descend)")
SHARDS = {"quick": 1, "thorough": 16}
SHARD_TIMEOUT = {"thorough": 2400}
T3_QUICK_TARGET = 75_000
NAMES = ("x", "y")
EVAL_TIMEOUT_S = 5

# --------------------------------------------------------------------------- monitors (process-wide, gated)
_A = {"phase": None, "code": None, "seen": Counter(), "bad": [], "own_exec": 0, "calls": [], "installed": False,
      "tool": None}
_BAD_EXACT = {"import", "open", "exec", "compile", "builtins.input", "builtins.breakpoint", "marshal.loads",
              "pickle.find_class", "code.__new__", "function.__new__", "object.__getattr__", "object.__setattr__",
              "sys._getframe", "ctypes.dlopen", "socket.connect", "glob.glob", "pty.spawn"}
_BAD_PREFIX = ("os.", "subprocess.", "shutil.", "socket.", "ctypes.", "tempfile.", "urllib.", "webbrowser.", "winreg.")


def _audit(event, args):
    ph = _A["phase"]
    if ph is None:
        return
    try:
        if ph == "eval" and event == "exec" and args and (_A["code"] is None or args[0] is _A["code"]):
            _A["own_exec"] += 1
            return
        if ph == "compile" and event == "compile":
            return
        if ph == "compile" and event == "open" and isinstance(args[0], str) and args[0][:1] == "<" \
                and args[0][-1:] == ">":
            # CPython building a SyntaxError looks for the source line of the pseudo file "<expr>"; not the code
            # under test opening anything
            _A["seen"]["open(pseudo file for SyntaxError text)"] += 1
            return
        _A["seen"][event] += 1
        if event in _BAD_EXACT or event.startswith(_BAD_PREFIX):
            _A["bad"].append(event)
    except Exception:  # pragma: no cover - a hook must never raise
        pass


def _on_call(code, offset, callee, arg0):
    if _A["phase"] == "eval" and code is _A["code"]:
        _A["calls"].append(callee)


def _profile(frame, event, arg):  # fallback when sys.monitoring is unavailable
    if event == "c_call" and _A["phase"] == "eval" and frame.f_code is _A["code"]:
        _A["calls"].append(arg)


def _install_monitors():
    if _A["installed"]:
        return
    sys.addaudithook(_audit)  # cannot be removed: installed once, gated by _A["phase"]
    mon = getattr(sys, "monitoring", None)
    if mon is not None:
        for tid in (4, 3, 5, 2, 1, 0):
            if mon.get_tool(tid) is None:
                mon.use_tool_id(tid, "verif-c11")
                mon.register_callback(tid, mon.events.CALL, _on_call)
                _A["tool"] = tid
                break
    _A["installed"] = True


class _RecordingBuiltins(dict):
    """Stands in for ``__builtins__`` of the evaluator's function environment; LOAD_NAME falls through to
    ``__getitem__`` of a non-exact dict, so every name resolved outside variables | environment is recorded."""

    def __init__(self, d):
        super().__init__(d)
        self.reads = []

    def __getitem__(self, k):
        self.reads.append(k)
        return super().__getitem__(k)


class Canary:
    """Variable value recording every attribute read made on it (operators use type slots, not this)."""
    reads: list = []

    def __getattribute__(self, name):
        if name != "keys":  # the interpreter's own ``**value`` mapping protocol probes .keys; not an Attribute node
            Canary.reads.append(name)
        return object.__getattribute__(self, name)

    def __repr__(self):
        return "<canary>"


class _EvalTimeout(Exception):
    pass


def _alarm(signum, frame):
    raise _EvalTimeout()


_FORBIDDEN_OPS = {opcode.opmap[n]: n for n in (
    "LOAD_ATTR", "LOAD_METHOD", "LOAD_SUPER_ATTR", "IMPORT_NAME", "IMPORT_FROM", "LOAD_DEREF", "LOAD_CLOSURE",
    "LOAD_CLASSDEREF", "LOAD_FROM_DICT_OR_DEREF", "LOAD_FROM_DICT_OR_GLOBALS", "MAKE_FUNCTION", "MAKE_CELL",
    "COPY_FREE_VARS", "STORE_NAME", "STORE_GLOBAL", "STORE_ATTR", "STORE_SUBSCR", "STORE_DEREF", "STORE_FAST",
    "DELETE_NAME", "DELETE_GLOBAL", "DELETE_ATTR", "DELETE_SUBSCR", "BINARY_SUBSCR", "BINARY_SLICE", "STORE_SLICE",
    "LOAD_BUILD_CLASS", "GET_AWAITABLE", "YIELD_VALUE", "SETUP_ANNOTATIONS", "LOAD_LOCALS") if n in opcode.opmap}


def closure_code(fn):
    """The compiled expression's code object, wherever the returned callable keeps it: a closure cell, a default
    value, a keyword default, a partial's arguments or an attribute (found structurally, not by name)."""
    codes = []
    cands = []
    for cell in getattr(fn, "__closure__", None) or ():
        try:
            cands.append(cell.cell_contents)
        except ValueError:
            continue
    cands += list(getattr(fn, "__defaults__", None) or ())
    cands += list((getattr(fn, "__kwdefaults__", None) or {}).values())
    cands += list(getattr(fn, "args", None) or ()) + list((getattr(fn, "keywords", None) or {}).values())   # functools.partial
    try:
        cands += list(vars(fn).values())
    except TypeError:
        pass
    for v in cands:
        if isinstance(v, types.CodeType) and not any(v is c for c in codes):
            codes.append(v)
    return codes[0] if len(codes) == 1 else None


def structure_problems(code, names) -> list[str]:
    probs = []
    allowed = set(names) | xs.FUNCS
    if not set(code.co_names) <= allowed:
        probs.append("foreign_name")
    raw = code.co_code
    seen = {raw[i] for i in range(0, len(raw), 2)}
    for op in sorted(seen & set(_FORBIDDEN_OPS)):
        probs.append("opcode_" + _FORBIDDEN_OPS[op])
    if any(isinstance(c, types.CodeType) for c in code.co_consts):
        probs.append("nested_code_object")
    if code.co_freevars or code.co_cellvars:
        probs.append("free_or_cell_variables")
    return probs


# --------------------------------------------------------------------------- the per-expression examination
class Examiner:
    def __init__(self, run):
        self.run = run
        boot.boot()
        from semantiva.utils import safe_eval

        self.safe_eval = safe_eval
        self.ExpressionError = safe_eval.ExpressionError
        self.ev = safe_eval.ExpressionEvaluator()
        self.rb = _RecordingBuiltins(builtins.__dict__)
        self.ev.env["__builtins__"] = self.rb
        self.wl_ids = {id(self.ev.env[f]) for f in xs.FUNCS if f in self.ev.env}
        _install_monitors()
        rng = random.Random(run.seed * 1000 + run.shard[0])
        self.assignments = [
            {"x": rng.randint(1, 5), "y": rng.randint(1, 4)},
            {"x": -round(rng.uniform(0.5, 3.5), 2), "y": rng.choice([0, 0.0, 2])},
            {"x": "<canary>", "y": rng.randint(1, 3)},
            {"x": rng.choice(["s", (1, 2), None, True]), "y": rng.choice([1.5, 2, "t"])},
        ]
        self.names = frozenset(NAMES)
        self.by_class = {c: Counter() for c in ("T1", "T2", "T3", "corpus", "history")}
        self.accepted_sources: list = []
        self.over_samples = {}
        self.audit_seen = Counter()
        self.eval_outcomes = Counter()
        self.kinds_seen = set()
        self.timeouts = {}
        try:
            self.old_alarm = signal.signal(signal.SIGVTALRM, _alarm)
        except ValueError:  # pragma: no cover - not the main thread
            self.old_alarm = None

    def violate(self, key, what, witness):
        # per-key accounting and the per-key witness cap live in vlib.verdict.Run.violation
        self.run.violation(key, what, witness)

    def close(self):
        _A["phase"] = None
        if self.old_alarm is not None:
            signal.setitimer(signal.ITIMER_VIRTUAL, 0)
            signal.signal(signal.SIGVTALRM, self.old_alarm)

    # ---- one evaluation under all dynamic monitors
    def _evaluate(self, fn, code, assignment):
        kw = {k: (Canary() if v == "<canary>" else v) for k, v in assignment.items()}
        sys.modules.pop("colorsys", None)
        mon, tool = getattr(sys, "monitoring", None), _A["tool"]
        if code is not None and tool is not None:
            mon.set_local_events(tool, code, mon.events.CALL)
        elif code is not None:
            sys.setprofile(_profile)
        del self.rb.reads[:]
        del Canary.reads[:]
        _A.update(code=code, bad=[], own_exec=0, calls=[], seen=Counter())
        outcome = "returned"
        self.last_value = None
        try:
            try:
                if self.old_alarm is not None:
                    signal.setitimer(signal.ITIMER_VIRTUAL, EVAL_TIMEOUT_S)  # CPU seconds: immune to machine load
                _A["phase"] = "eval"
                self.last_value = ("val", fn(**kw))
            finally:
                _A["phase"] = None
                if self.old_alarm is not None:
                    signal.setitimer(signal.ITIMER_VIRTUAL, 0)
        except _EvalTimeout:
            outcome = "timeout"
        except KeyboardInterrupt:
            raise
        except BaseException as exc:  # evaluation errors are not violations
            outcome = "raised_" + type(exc).__name__
            self.last_value = ("exc", type(exc).__name__)
        finally:
            if code is not None and tool is not None:
                mon.set_local_events(tool, code, 0)
            elif code is not None:
                sys.setprofile(None)
        effects = []
        for ev in _A["bad"]:
            effects.append("audit_" + ev.replace(".", "_"))
        if code is not None and _A["own_exec"] > 1:
            effects.append("audit_exec_repeated")
        for c in _A["calls"]:
            if id(c) not in self.wl_ids:
                effects.append("call_of_non_whitelisted_callable")
        if self.rb.reads:
            effects.append("builtins_read")
        if Canary.reads:
            effects.append("attribute_read")
        self.audit_seen.update(_A["seen"])
        self.audit_seen["exec(own code object)"] += _A["own_exec"]
        detail = {"builtins_reads": list(self.rb.reads[:5]), "attribute_reads": list(Canary.reads[:5]),
                  "audit": list(_A["bad"][:5]), "calls": [getattr(c, "__name__", repr(c)) for c in _A["calls"][:5]]}
        return outcome, sorted(set(effects)), detail

    # ---- value oracle: an accepted expression denotes a function of its variables over the documented functions
    _OWN_FUNCS = {"abs": abs, "min": min, "max": max, "round": round, "float": float, "int": int, "str": str, "bool": bool}

    def own_value(self, expr, assignment):
        """Python's own value of ``expr`` with the declared variables as the innermost scope (a declared variable named
        like a documented function IS the variable) and only the documented functions outside it."""
        if any(v == "<canary>" for v in assignment.values()):
            return None
        try:
            return ("val", eval(compile(expr, "<own-eval>", "eval"), {"__builtins__": {}, **self._OWN_FUNCS}, dict(assignment)))
        except RecursionError:
            return None
        except BaseException as exc:
            return ("exc", type(exc).__name__)

    @staticmethod
    def same_value(a, b) -> bool:
        if a is None or b is None:
            return True
        if a[0] != b[0]:
            return False
        if a[0] == "exc":
            return a[1] == b[1]
        x, y = a[1], b[1]
        if type(x) is not type(y):
            return False
        try:
            return bool(x == y) or (x != x and y != y)
        except Exception:
            return True

    # ---- the real compile under the compile-time audit window
    def _compile(self, expr):
        _A.update(code=None, bad=[], own_exec=0, calls=[], seen=Counter())
        try:
            _A["phase"] = "compile"
            try:
                fn = self.ev.compile(expr, set(self.names))
            finally:
                _A["phase"] = None
            return "returned", fn, list(_A["bad"])
        except self.ExpressionError as exc:
            return "rejected", exc, list(_A["bad"])
        except KeyboardInterrupt:
            raise
        except BaseException as exc:
            return "wrong_exception", exc, list(_A["bad"])

    def examine(self, expr: str, cls: str, meta=None, via="direct") -> dict:
        run = self.run
        cnt = self.by_class[cls]
        cnt["expressions"] += 1
        witness = {"expr": expr, "names": sorted(self.names), "class": cls, "meta": meta,
                   "assignments": self.assignments}
        # own parse (independent of the code under test)
        tree, parser_rejected = None, False
        try:
            tree = ast.parse(expr, mode="eval")
        except SyntaxError:
            parser_rejected = True
            cnt["rejected_by_python_parser"] += 1
        except (ValueError, RecursionError, MemoryError) as exc:  # pragma: no cover - not in the stated space
            cnt["own_parse_other_error_" + type(exc).__name__] += 1
            run.case("unparsable", False)
            return {"status": "skipped"}
        offs = xs.offences(tree, self.names) if tree is not None else None
        root = type(tree.body).__name__ if tree is not None else None

        status, val, cbad = self._compile(expr)
        run.count("compile_calls")
        res = {"status": status, "offences": offs}
        if cbad and status != "wrong_exception":
            # confirm by re-execution (a finalizer running inside the window must not become an alarm)
            gc.collect()
            _, _, cbad2 = self._compile(expr)
            if cbad2:
                self.violate("compile_time_side_effect_" + cbad2[0].replace(".", "_"),
                              f"compile({expr!r}) raised audit events {cbad2[:3]} before any evaluation",
                              dict(witness, observed={"audit": cbad2[:5]}))
        if status == "wrong_exception":
            cnt["wrong_exception"] += 1
            key, why = wrong_exception_key(offs, val)
            self.violate(key, f"compile({expr!r}): {why}{type(val).__name__} ({str(val)[:80]}) escaped instead of "
                               f"ExpressionError",
                          dict(witness, offences=offs[:4] if offs else offs,
                               observed={"exception": type(val).__name__, "message": str(val)[:200],
                                         "audit_during_compile": cbad[:5]}))
            run.case(_h(expr), False)
            return res
        if status == "rejected":
            cnt["rejected"] += 1
            run.count("rejected_with_ExpressionError")
            if offs == []:
                cnt["over_rejections"] += 1
                if len(self.over_samples) < 8:
                    self.over_samples[expr] = str(val)[:100]
            nontrivial = cls != "T3" and root in xs.WHITELISTED_ROOTS and bool(offs)
            run.case(_h(expr) if nontrivial else "-", nontrivial)
            return res

        # ---------------- compile returned
        cnt["accepted"] += 1
        run.count("accepted_by_compile")
        fn = val
        self.kinds_seen.add(root)
        key = None
        if parser_rejected:
            key = "unparseable_source_accepted"
            what = f"compile({expr!r}) returned although Python's parser refuses the source in eval mode"
        elif offs:
            key = xs.mechanism_key(offs)
            o = ([q for q in offs if not q["in_kw"]] or offs)[0]
            what = (f"compile({expr!r}, {sorted(self.names)}) returned although {o['what']} {o['name']!r} at {o['path']} "
                    f"is outside the documented whitelist")
        else:
            run.count("accepted_predicate_true")
            if cls != "history" and len(self.accepted_sources) < 6000:
                self.accepted_sources.append(expr)
        # (b) structure
        code = closure_code(fn) if callable(fn) else None
        sprobs = []
        if code is None:
            run.count("closure_code_not_found")
        else:
            run.count("closures_inspected")
            sprobs = structure_problems(code, self.names)
        # (c) dynamics
        effects, outcomes, details = [], [], []
        if callable(fn):
            for a in self.assignments:
                outcome, eff, detail = self._evaluate(fn, code, a)
                run.count("evaluations_monitored")
                self.eval_outcomes[outcome] += 1
                if eff and key is None:
                    gc.collect()  # confirm by re-execution before reporting
                    outcome, eff, detail = self._evaluate(fn, code, a)
                    run.count("evaluations_monitored")
                if key is None and outcome != "timeout" and not eff:
                    mine = self.own_value(expr, a)
                    run.count("evaluation_values_compared" if mine is not None else "evaluation_values_not_compared")
                    if not self.same_value(self.last_value, mine):
                        self.violate("evaluation_value_differs_from_expression_over_its_variables",
                                      f"accepted {expr!r} evaluated on {a} gives {self.last_value!r}; the expression over its declared "
                                      f"variables and the documented functions denotes {mine!r}",
                                      dict(witness, via=via, assignment=repr(a), observed=repr(self.last_value), expected=repr(mine)))
                outcomes.append(outcome)
                if outcome == "timeout" and len(self.timeouts) < 5:
                    self.timeouts[expr] = repr(a)
                if eff:
                    effects.append(eff)
                    details.append(detail)
        observed = {"structure": sprobs, "evaluation_outcomes": outcomes, "side_effects": effects[:2],
                    "details": details[:2]}
        if key is not None:
            if sprobs or effects:
                run.count("wrongly_accepted_confirmed_by_structure_or_side_effect")
            self.violate(key, what + (f"; evaluation side effects {effects[0]}" if effects else ""),
                          dict(witness, via=via, offences=offs[:4] if offs else None, observed=observed))
        elif sprobs:
            self.violate("closure_code_" + sprobs[0],
                          f"closure code of accepted {expr!r} has {sprobs} (co_names={list(code.co_names)})",
                          dict(witness, via=via, observed=observed))
        elif effects:
            self.violate("evaluation_side_effect_" + effects[0][0],
                          f"evaluating accepted {expr!r} on {self.assignments} had side effects {effects[0]} {details[0]}",
                          dict(witness, via=via, observed=observed))
        res.update(key=key, structure=sprobs, effects=effects, outcomes=outcomes)
        sample = None
        if cnt["accepted"] <= 2 and cls in ("T2", "T3", "corpus"):
            sample = {"class": cls, "expr": expr, "accepted": True, "predicate": not offs, "evaluation": outcomes}
        run.case(_h(expr), True, sample=sample)
        return res


def concurrent_compiles(run, ex) -> None:
    """ONE evaluator object used by two threads at once (a shared default evaluator, a web worker pool): thread A keeps
    compiling an expression that declares ``q``; thread B compiles, with only ``x`` declared, expressions that read ``q``
    - every one of B's compiles must be refused, whatever A is doing.  Real threads under a 1 us switch interval; the
    oracle is exact (the predicate on B's own names), the interleavings are whatever the run produced (counted)."""
    import threading

    ev = ex.safe_eval.ExpressionEvaluator()
    stop = threading.Event()
    accepted = []
    counts = {"a": 0, "b": 0}

    def thread_a():
        while not stop.is_set():
            try:
                ev.compile("max(x, q) + q * 2", {"x", "q"})
            except Exception:
                pass
            counts["a"] += 1

    def thread_b():
        srcs = ["(x, str(q))", "x + q", "max(x, key=q)", "x if q else x"]
        k = 0
        while not stop.is_set() and counts["b"] < 6000:
            src = srcs[k % len(srcs)]
            k += 1
            try:
                ev.compile(src, {"x"})
                accepted.append(src)
            except ex.ExpressionError:
                pass
            except Exception:
                pass
            counts["b"] += 1
        stop.set()

    old = sys.getswitchinterval()
    sys.setswitchinterval(1e-6)
    try:
        ta, tb = threading.Thread(target=thread_a, daemon=True), threading.Thread(target=thread_b, daemon=True)
        ta.start(), tb.start()
        tb.join(timeout=60)
        stop.set()
        ta.join(timeout=10)
    finally:
        sys.setswitchinterval(old)
    run.count("concurrent_compiles_thread_a", counts["a"])
    run.count("concurrent_compiles_thread_b", counts["b"])
    if accepted:
        ex.violate("undeclared_name_accepted_under_concurrent_compile",
                   f"an evaluator shared by two threads accepted {accepted[0]!r} with only 'x' declared while another thread was compiling an "
                   f"expression that declares 'q' ({len(accepted)} of {counts['b']} compiles)",
                   {"expr": accepted[0], "names": ["x"], "class": "concurrent", "meta": {"other_thread_declares": ["x", "q"]}, "assignments": []})


def wrong_exception_key(offs, exc):
    """Mechanism key for "compile raised something that is not ExpressionError" (offs None = own parser refused)."""
    if isinstance(exc, SyntaxError) and offs and all(o["in_kw"] for o in offs):
        # the validator let a keyword value through that only Python's compiler then refused: same mechanism as
        # an accepted keyword value, seen through the compile stage
        return xs.mechanism_key(offs), (f"the validator did not refuse {offs[0]['what']} {offs[0]['name']!r} at "
                                        f"{offs[0]['path']}; Python's compiler did, and its ")
    if isinstance(exc, SyntaxError) and offs == []:
        # parses, every element whitelisted, but Python's compiler refuses the tree (e.g. repeated keyword)
        return "compile_stage_syntax_error_not_wrapped", "parsed and passed the validator; the compiler's "
    return "wrong_exception_type_" + type(exc).__name__, ""


def _h(s: str) -> str:
    return hashlib.sha256(s.encode("utf-8", "surrogatepass")).hexdigest()[:16]


# --------------------------------------------------------------------------- factory path (corpus only)
def _factory_slice(run, ex: Examiner, items):
    """The same corpus through ParametricSweepFactory.create(parametric_expressions=...), with an icontract
    postcondition (records, returns True) on the real ExpressionEvaluator.compile."""
    import icontract
    from semantiva.data_processors.parametric_sweep_factory import ParametricSweepFactory, SequenceSpec
    from vlib.components import VScaledProbe

    cls = ex.safe_eval.ExpressionEvaluator
    orig = cls.__dict__["compile"]
    seen = {"returned": 0, "violations": 0}

    def returned_implies_whitelisted(expr, allowed_names, result):
        seen["returned"] += 1
        try:
            offs = xs.offences(ast.parse(expr, mode="eval"), allowed_names)
        except SyntaxError:
            offs = [{"what": "node", "name": "<unparseable>", "path": "", "in_kw": False}]
        if offs:
            seen["violations"] += 1
            o = ([q for q in offs if not q["in_kw"]] or offs)[0]
            ex.violate(xs.mechanism_key(offs),
                          f"(via ParametricSweepFactory.create) compile({expr!r}) returned although {o['what']} "
                          f"{o['name']!r} at {o['path']} is outside the documented whitelist",
                          {"expr": expr, "names": sorted(allowed_names), "class": "corpus", "via": "factory",
                           "assignments": ex.assignments, "offences": offs[:4]})
        return True

    cls.compile = icontract.ensure(returned_implies_whitelisted)(orig)
    try:
        for shell, idiom, src in items:
            if src is None:
                continue
            try:
                tree = ast.parse(src, mode="eval")
                offs = xs.offences(tree, NAMES)
            except SyntaxError:
                offs = None
            before = seen["returned"]
            outcome, err = "created", None
            try:
                ParametricSweepFactory.create(
                    element=VScaledProbe, element_kind="DataProbe", collection_output=None,
                    vars={"x": SequenceSpec([1, 2]), "y": SequenceSpec([3, 4])},
                    parametric_expressions={"scale": src}, name="VerifC11Sweep")
            except ValueError as exc:
                outcome, err = ("rejected" if isinstance(exc.__cause__, ex.ExpressionError) else "ValueError"), exc
            except KeyboardInterrupt:
                raise
            except BaseException as exc:
                outcome, err = type(exc).__name__, exc
            run.count("factory_creates")
            run.count("factory_outcome_" + ("created" if outcome == "created" else
                                            "rejected" if outcome == "rejected" else "other"))
            compile_returned = seen["returned"] > before
            if outcome not in ("created", "rejected") and not compile_returned:
                key, why = wrong_exception_key(offs, err)
                ex.violate(key,
                              f"ParametricSweepFactory.create(parametric_expressions={{'scale': {src!r}}}): {why}"
                              f"{outcome} ({str(err)[:80]}) escaped instead of the wrapped expression error",
                              {"expr": src, "names": list(NAMES), "class": "corpus", "via": "factory",
                               "assignments": ex.assignments})
            if offs and outcome == "created" and not compile_returned:  # pragma: no cover - contract did not see it
                ex.violate(xs.mechanism_key(offs), f"factory accepted {src!r}",
                              {"expr": src, "names": list(NAMES), "class": "corpus", "via": "factory",
                               "assignments": ex.assignments})
    finally:
        cls.compile = orig
    run.count("contract_evaluations_compile_returned", seen["returned"])


# --------------------------------------------------------------------------- driver
def _unparse(tree):
    try:
        return ast.unparse(tree)
    except KeyboardInterrupt:
        raise
    except BaseException:
        return None


def run(run):
    ex = Examiner(run)
    i_sh, n_sh = run.shard
    rng = random.Random(run.seed * 1000 + i_sh)
    warnings.simplefilter("ignore", SyntaxWarning)
    complete = True
    try:
        idx = 0
        # ---- T1
        for label, leaf in xs.leaves():
            if idx % n_sh == i_sh:
                ex.examine(ast.unparse(leaf), "T1", {"leaf": label})
            idx += 1
        # ---- T2 (all of it, both tiers); dedup of identical sources inside one process
        seen_src = set()
        n_t2 = 0
        for kind, tree in xs.t2_trees():
            n_t2 += 1
            mine = idx % n_sh == i_sh
            idx += 1
            if not mine:
                continue
            src = _unparse(tree)
            if src is None:
                ex.by_class["T2"]["unparse_failed"] += 1
                continue
            if src in seen_src:
                ex.by_class["T2"]["duplicate_source"] += 1
                continue
            seen_src.add(src)
            ex.examine(src, "T2", {"kind": kind})
        seen_src.clear()
        # ---- T3: templates x T2; quick = seeded 1-in-stride slice, thorough = all, sharded by index modulo n
        templates = xs.t3_templates()
        n_t3 = len(templates) * n_t2
        if run.tier == "quick":
            stride = max(1, n_t3 // T3_QUICK_TARGET)
            offset = rng.randrange(stride)
        else:
            stride, offset = 1, 0
        nt = len(templates)
        for j, (kind, tree) in enumerate(xs.t2_trees()):
            base = j * nt
            for o in range(nt):
                g = base + o
                if g % stride != offset or (g // stride) % n_sh != i_sh:
                    continue
                label, embed = templates[o]
                src = _unparse(embed(tree))
                if src is None:
                    ex.by_class["T3"]["unparse_failed"] += 1
                    continue
                ex.examine(src, "T3", {"position": label, "inner_kind": kind})
        # ---- corpus (all of it, both tiers)
        items = list(xs.corpus())
        mine_items = [it for k, it in enumerate(items) if k % n_sh == i_sh]
        for shell, idiom, src in mine_items:
            if src is None:
                ex.by_class["corpus"]["unparse_failed"] += 1
                continue
            ex.examine(src, "corpus", {"shell": shell, "idiom": idiom})
        _factory_slice(run, ex, mine_items)
        # ---- history: acceptance must not depend on what was compiled before — the same source is compiled again
        # with a SMALLER variable set (a name that was declared then is undeclared now), and builtin-shadowing
        # variable names are declared once and dropped afterwards
        saved = ex.names
        pool = ex.accepted_sources[: (700 if run.tier == "quick" else 6000)]
        for names in (frozenset({"x"}), frozenset({"y"}), frozenset()):
            ex.names = names
            for src in pool:
                ex.examine(src, "history", {"recompiled_with": sorted(names)})
        for b in ("len", "vars", "sorted", "id", "dir"):
            for shape in ("(x, {b})", "max(x, {b})", "x if {b} else y", "max(x, key={b})"):
                src = shape.format(b=b)
                ex.names = frozenset({"x", "y", b})
                saved_assignments = ex.assignments
                ex.assignments = [dict(a, **{b: 7}) for a in saved_assignments]   # the declared variable gets a value
                ex.examine(src, "history", {"declared": b})
                ex.assignments = saved_assignments
                ex.names = frozenset({"x", "y"})
                ex.examine(src, "history", {"dropped": b})
        # ---- history with ANOTHER evaluator object: an evaluator constructed with extra functions (a documented
        # constructor argument) compiles something; afterwards the default evaluator — a different object, the one sweeps
        # use — must still confine calls to the documented whitelist (nothing may leak through shared class state)
        import math as _math

        extra = {"len": len, "sqrt": _math.sqrt, "ord": ord, "sum": sum, "sorted": sorted, "getattr": getattr}
        try:
            other = ex.safe_eval.ExpressionEvaluator(allowed_funcs=dict(extra))
            for src0 in ("len(x)", "sqrt(x) + 1", "x + y", "max(x, sum(y))"):
                try:
                    other.compile(src0, {"x", "y"})
                except Exception:
                    pass
            run.count("history_other_evaluator_built")
        except TypeError:
            run.count("history_other_evaluator_not_constructible")
        ex.names = frozenset({"x", "y"})
        for f in extra:
            for shape in ("{f}(x)", "max(x, {f}(y))", "float({f}(str(x)))", "round(x, ndigits={f}(y))", "x if {f}(x) else y",
                          "abs(-{f}(x))"):
                ex.examine(shape.format(f=f), "history", {"after_evaluator_with_extra_funcs": f})
        # ---- declared variables NAMED LIKE the documented functions: a declared variable is a variable
        wl = ["abs", "min", "max", "round", "float", "int", "str", "bool"]
        saved_assignments = ex.assignments
        for fi, f in enumerate(wl):
            g_ = wl[(fi + 3) % len(wl)]
            ex.names = frozenset({"x", f, g_})
            ex.assignments = [{"x": 2, f: 5, g_: 3}, {"x": -1.5, f: 0.25, g_: 7}]
            for shape in ("{f} + 1", "x * {f}", "{f} - {g}", "{f} if {g} > x else x", "-{f}", "({f}, {g})"):
                ex.examine(shape.format(f=f, g=g_), "history", {"variable_named_like_function": f})
            other = [w for w in wl if w not in (f, g_)][0]
            ex.examine(f"{other}({f})", "history", {"variable_named_like_function": f, "called": other})
        # ---- declared variables named like identifiers an IMPLEMENTATION is likely to use itself (parameters / locals of
        # the evaluation closure, dunder-free): a declared variable is a variable whatever it is called
        for v_ in ("code", "env", "self", "kwargs", "args", "expr", "names", "fn", "tree", "node", "globals", "locals", "eval", "cls", "value"):
            ex.names = frozenset({"x", v_})
            ex.assignments = [{"x": 2, v_: 5}, {"x": -1.5, v_: 0.25}, {"x": 3, v_: "s"}]
            for shape in ("{v} + 1", "x * {v}", "max({v}, x)", "{v} if x > 0 else x", "str({v})"):
                ex.examine(shape.format(v=v_), "history", {"variable_named_like_implementation_identifier": v_})
        ex.assignments = saved_assignments
        ex.names = frozenset({"x", "y"})
        if i_sh == 0:
            concurrent_compiles(run, ex)
        ex.ev = ex.safe_eval.ExpressionEvaluator()      # a default evaluator created AFTER that history
        for f in extra:
            ex.examine(f"{f}(x)", "history", {"fresh_default_evaluator_after_extra_funcs": f})
        ex.names = saved
    except BaseException:
        complete = False
        raise
    finally:
        ex.close()
        warnings.resetwarnings()

    unmodelled = xs.unmodelled_kinds()
    tot = Counter()
    for c in ex.by_class.values():
        tot.update(c)
    run.info["trees_per_class"] = {f"{k}.{kk}": n for k, v in ex.by_class.items() for kk, n in sorted(v.items())}
    run.info["space"] = {"expr_kinds_in_interpreter": len(xs.expr_kinds()), "t1_leaves": len(xs.leaves()),
                         "t2_trees": n_t2, "t3_positions": nt, "t3_trees": n_t3, "corpus_items": len(items),
                         "t3_stride": stride} if i_sh == 0 else {}
    run.info["totals"] = {k: tot[k] for k in ("expressions", "accepted", "rejected", "rejected_by_python_parser",
                                               "over_rejections", "wrong_exception", "unparse_failed",
                                               "duplicate_source")}
    run.info["audit_events_seen_during_evaluation"] = dict(ex.audit_seen)
    run.info["evaluation_outcomes"] = dict(ex.eval_outcomes)
    run.info["over_rejection_samples"] = ex.over_samples
    run.info["evaluation_timeouts"] = ex.timeouts
    run.info["accepted_root_kinds"] = sorted(k for k in ex.kinds_seen if k)
    run.info["unmodelled_expr_kinds"] = unmodelled
    run.info["exhaustive_wrt"] = ("T1 u T2 (T3 is a seeded 1-in-%d slice)" % stride) if run.tier == "quick" \
        else "T1 u T2 u T3"
    run.exhaustive = bool(complete and not unmodelled)
    run.floor("compile_calls", 500 if n_sh > 1 else 5000)
    run.floor("accepted_predicate_true", 20)
    run.floor("rejected_with_ExpressionError", 200)
    run.floor("closures_inspected", 20)
    run.floor("evaluations_monitored", 80)
    run.floor("contract_evaluations_compile_returned", 3)
    run.assumptions += [
        "the documented whitelist is the one stated in vlib/exprspace.py (node kinds, operators, eight functions); "
        "a ** keyword entry is treated as allowed when its value is (no node kind of its own)",
        "expressions reach the evaluator only as source strings, so only parser-producible trees are reachable; "
        "trees the parser refuses are still submitted and must be rejected with ExpressionError",
        "over-rejections (whitelisted expression refused) are counted, not violations",
    ]


def replay(run, witness):
    ex = Examiner(run)
    if witness.get("assignments"):
        ex.assignments = witness["assignments"]
    ex.names = frozenset(witness.get("names") or NAMES)
    warnings.simplefilter("ignore", SyntaxWarning)
    try:
        r = ex.examine(witness["expr"], witness.get("class", "corpus"), witness.get("meta"))
        r2 = ex.examine("max(x, 2) + y", "corpus")  # control: must be accepted and silent
        if witness.get("via") == "factory":
            _factory_slice(run, ex, [("<replay>", "", witness["expr"])])
    finally:
        ex.close()
        warnings.resetwarnings()
    run.case({"replayed": witness["expr"]}, True, sample={"expr": witness["expr"], "status": r.get("status")})
    run.case("replay-control-slot", True)
    run.info["replay_result"] = {k: v for k, v in r.items() if k != "offences"}
    run.info["control_result"] = {k: v for k, v in r2.items() if k != "offences"}
