"""C18 - repeated execution leaves no per-run residue in the process.

Growth monitor over long histories.  Every (generated pipeline, way of repeating a run) is executed N times in a
FRESH interpreter (``python -m vlib.growth``; subprocess.run with a watchdog; up to 16 at a time) and sampled
after runs p0 / p1 / p2 (quick 50 / 150 / 450; thorough adds 1350 where the heap stays small enough):

 (a) sizes of every process-wide registry (component registry, ProcessorRegistry internals, name / parameter
     resolver registries, loaded extensions, execution-component registry, handler lists of the "Semantiva"
     logger and of all loggers) must be EQUAL at the three samples;
 (b) len(gc.get_objects()) after gc.collect(): slope between p1 and p2 must be < 0.5 objects / run.

Attribution (one mechanism key per root, so that the check stays sharp while a finding is open): the objects
created between p1 and p2 and still alive are partitioned by gc.get_referents closure from
  * component classes registered since p1, by creating factory (call site recorded by a wrapper on
    _SemantivaComponentMeta.__init__)                     -> registry_growth_generated_classes:<factory>
  * messages queued in a transport that was alive at p1   -> transport_retains_published_messages_reused_pipeline
  * the channel table of such a transport                 -> transport_channel_table_growth
and whatever no root explains must satisfy the slope bound on its own -> residual_growth_unattributed.
A root explains the objects reachable from it only in the proportion in which the root itself grew between the two
samples (1 on an append-only registry / an undrained queue; 0 when the new classes or messages merely replace those
of the previous run, e.g. once the registry no longer retains generated classes), so
residual = (n[p2] - n[p1]) - sum(explained) stays exact before and after a repair; on the unchanged tree it is
0.003 .. 0.02 objects/run, i.e. one leaked tracked object per run anywhere else is visible.
Other registries growing -> registry_growth:<name>; messages retained where no Pipeline is reused ->
transport_retains_messages:<mode>.  Counts only - never time (thorough: growth 150->450 vs 450->1350 is reported as
flat / linear / superlinear, evidence only).
"""
from __future__ import annotations

import json
import os
import shutil
import subprocess
import sys
import tempfile
from concurrent.futures import ThreadPoolExecutor

from vlib import boot

LEVEL = "exploration"
RULE = ("generated pipelines (vlib.gen, fault_bias=0, initial data NoData) that the reference model says succeed and that "
        "really run once, chosen greedily from the seeded candidate stream to cover {rename, delete, template shorthands, "
        "source / payload-source / sink IO adapters, sweeps, slicers, probes, context processors}; each x the four ways of "
        "repeating a run {reused Pipeline, fresh Pipeline per run, run-space launch through the in-process CLI, queue "
        "worker fed N jobs}, each in a fresh subprocess; distinct = (hash of the pipeline case, mode); non-trivial = the "
        "pipeline has >= 3 nodes")
SHARDS = {"quick": 1, "thorough": 1}       # parallelism is over (pipeline, mode) subprocesses, see PARALLEL
PARALLEL = min(16, os.cpu_count() or 4)
MODES = ["reused", "fresh", "runspace_cli", "queue_worker", "relaunch_cli"]
N_PIPELINES = {"quick": 2, "thorough": 12}
POINTS = {"quick": [50, 150, 450], "thorough": [50, 150, 450, 1350]}
EXTEND_MAX_OBJECTS = 400_000     # thorough: go on to the 4th point only if the heap at the 3rd is below this (a count)
WATCHDOG = {"quick": 600, "thorough": 2400}   # seconds per subprocess; firing => inconclusive, never a violation
SLOPE_BOUND = 0.5                # gc-tracked objects per run
LINEAR_TOL = 0.15

FEATURES = ["rename", "delete", "template", "io_source", "payload_source", "io_sink", "sweep", "slicer", "probe",
            "ctx_processor", "default_on_generated_class"]

# a fixed extra pipeline (every tier): processors referenced as ``module:Class`` of a module that was never registered,
# every parameter resolved from its signature default on a per-run generated (IO adapter / slicer) class
QUALIFIED_CASE = {"nodes": [{"processor": "vlib.components_extra:XSrcDefault"},
                            {"processor": "vlib.components_extra:XMulDefault"},
                            {"processor": "VNullSink"},
                            {"processor": "VValueProbe", "context_key": "seen"}],
                  "ctx": {}, "data": "NoData"}


# --------------------------------------------------------------------------- workload
def features_of(nodes) -> set:
    from vlib import gen, refmodel as rm

    f = set()
    # a parameter resolved from its signature default on a class semantiva generates afresh per run
    for n in nodes:
        p = n.get("processor")
        if isinstance(p, str) and "derive" not in n:
            base = p.split(":")[1] if p.startswith("slice:") else p
            comp = rm.COMPONENTS.get(base)
            if comp is not None and (p.startswith("slice:") or comp.kind in ("source", "psource", "sink")):
                if any(d is not rm.REQ and name not in (n.get("parameters") or {}) for name, d in comp.params):
                    f.add("default_on_generated_class")
    for n in nodes:
        p = n.get("processor")
        if not isinstance(p, str):
            continue
        for sh in ("rename", "delete", "template"):
            if p.startswith(sh + ":"):
                f.add(sh)
        if p.startswith("slice:"):
            f.add("slicer")
        if "derive" in n:
            f.add("sweep")
        if p == "VPayloadSrc":
            f.add("payload_source")
        elif p in gen.SOURCES:
            f.add("io_source")
        if p in gen.SINKS:
            f.add("io_sink")
        if "context_key" in n:
            f.add("probe")
        if p == "VCtxScale":
            f.add("ctx_processor")
    return f


def cli_preflight_accepts(case) -> bool:
    """The same pre-flight `semantiva run` applies (inspection + validation + externally required keys provided)."""
    import copy

    from semantiva.inspection import build_pipeline_inspection, validate_pipeline

    try:
        insp = build_pipeline_inspection(copy.deepcopy(case["nodes"]))
        validate_pipeline(insp)
        required = set(getattr(insp, "required_context_keys", set()) or set())
    except Exception:
        return False
    return required <= set(case["ctx"]) | {"c18_run"}


def choose_pipelines(run, seed: int, count: int) -> list:
    """Greedy feature cover over the seeded candidate stream (deterministic in the seed)."""
    from vlib import account, gen, growth, refmodel as rm

    g = gen.Gen(seed, growth.SCRATCH_TOKEN)
    scratch = tempfile.mkdtemp(prefix="verif-c18-pre-")
    cands = []
    tries = 0
    try:
        while len(cands) < max(150, 12 * count) and tries < 6000:
            tries += 1
            case = g.pipeline(fault_bias=0.0)
            run.count("candidates_generated")
            if case["data"] != rm.NODATA or len(case["nodes"]) < 3:
                continue
            try:
                m = rm.run_pipeline(case["nodes"], case["data"], case["ctx"])
            except rm.ConfigRejected:
                continue
            if not m.ok or m.dontcare:
                continue
            real = growth._subst(case, scratch)
            r = account.real_run(real["nodes"], real["data"], real["ctx"], scratch=scratch)
            if not r.ok:
                run.count("candidates_rejected_real_run_differs")     # C01's business, not a C18 workload
                continue
            if not cli_preflight_accepts(case):
                run.count("candidates_rejected_by_cli_preflight")     # C02/C17's business: cannot be launched as a run space
                continue
            cands.append(case)
    finally:
        shutil.rmtree(scratch, ignore_errors=True)
    run.count("candidates_accepted", len(cands))
    if count == 2 and len(cands) >= 2:      # quick tier: the pair with the largest joint feature cover (exact, first wins)
        fs = [features_of(c["nodes"]) for c in cands]
        i, j = max(((i, j) for i in range(len(cands)) for j in range(i + 1, len(cands))),
                   key=lambda ij: (len(fs[ij[0]] | fs[ij[1]]), -ij[0], -ij[1]))
        return [cands[i], cands[j]]
    chosen, covered = [], set()
    pool = list(cands)
    while pool and len(chosen) < count:
        best = max(range(len(pool)), key=lambda i: (len(features_of(pool[i]["nodes"]) - covered),
                                                    len(features_of(pool[i]["nodes"])), -i))
        c = pool.pop(best)
        chosen.append(c)
        covered |= features_of(c["nodes"])
        if covered >= set(FEATURES):
            covered = set()        # start a second cover with the remaining candidates
    return chosen


# --------------------------------------------------------------------------- one subprocess
def run_job(job: dict, timeout: float) -> dict:
    d = job["scratch"]
    os.makedirs(d, exist_ok=True)
    jp, op = os.path.join(d, "job.json"), os.path.join(d, "out.json")
    with open(jp, "w", encoding="utf-8") as fh:
        json.dump(job, fh)
    try:
        p = subprocess.run([sys.executable, "-m", "vlib.growth", jp, op], cwd=boot.VERIF_DIR, env=boot.child_env(),
                           stdout=subprocess.PIPE, stderr=subprocess.STDOUT, timeout=timeout)
    except subprocess.TimeoutExpired:
        return {"ok": False, "watchdog": True, "error": f"watchdog {timeout}s"}
    if not os.path.exists(op):
        return {"ok": False, "error": f"no result (rc={p.returncode}): {p.stdout.decode(errors='replace')[-600:]}"}
    with open(op, encoding="utf-8") as fh:
        res = json.load(fh)
    res["output_tail"] = p.stdout.decode(errors="replace")[-300:]
    shutil.rmtree(d, ignore_errors=True)
    return res


def make_job(case, mode, tier, scratch, idx) -> dict:
    pts = POINTS[tier]
    return {"case": case, "mode": mode, "points": pts, "n": pts[-1], "scratch": os.path.join(scratch, f"j{idx}"),
            "trace": idx_traced(idx), "detail": "hash", "attribute": True, "inflight": 16,
            "extend_max_objects": EXTEND_MAX_OBJECTS if len(pts) > 3 else None}


def idx_traced(idx: int) -> bool:
    return (idx // len(MODES)) % 2 == 0       # every other pipeline runs with a JSONL trace driver attached


# --------------------------------------------------------------------------- oracle
def message_key(mode: str) -> str:
    if mode in ("reused", "runspace_cli"):      # the two modes in which one Pipeline object (and its transport) is reused
        return "transport_retains_published_messages_reused_pipeline"
    return f"transport_retains_messages:{mode}"


# verdicts that rest on a MEASUREMENT of the live heap (the others are exact table sizes): confirmed by a second, fresh
# subprocess before they are reported - a genuine per-run residue shows in both, a scheduling artefact of one sample does not
MEASURED_KEYS = ("residual_growth_unattributed", "object_growth_without_attribution")


def judge(run, case, phash, mode, job, res, defer=()) -> dict:
    """Apply (a) and (b) to one (pipeline, mode) result; returns the evidence row."""
    samples = res["samples"]
    row = {"pipeline": phash, "mode": mode, "nodes": len(case["nodes"]), "traced": bool(job["trace"]),
           "sample_points": [s["run"] for s in samples], "objects": [s["objects"] for s in samples],
           "component_registry": [s["registries"]["component_registry"] for s in samples],
           "channels": [s["transports"]["channels"] for s in samples],
           "queued_messages": [s["transports"]["queued_messages"] for s in samples],
           "classes_created": res["counters"]["classes_created"], "child_maxrss_mb": res.get("maxrss_mb")}
    s0, s1, s2 = samples[0], samples[1], samples[2]
    runs = s2["run"] - s1["run"]
    witness = {"case": case, "mode": mode, "points": job["points"][:3], "trace": job["trace"], "pipeline": phash}
    found: dict = {}

    def flag(key, msg):
        found.setdefault(key, []).append(msg)

    # (a) registries equal at the three samples
    changed = {}
    for name in s0["registries"]:
        vals = [s["registries"][name] for s in (s0, s1, s2)]
        run.count("registry_comparisons")
        if len(set(vals)) != 1:
            changed[name] = vals
    row["registries_changed"] = changed
    for name, vals in sorted(changed.items()):
        if name == "component_registry":
            facs = sorted(set(s0["registry_by_factory"]) | set(s2["registry_by_factory"]))
            explained = 0
            for fac in facs:
                a, b, c = (s["registry_by_factory"].get(fac, 0) for s in (s0, s1, s2))
                if not (a == b == c):
                    explained += 1
                    flag(f"registry_growth_generated_classes:{fac}",
                         f"component registry holds {a} / {b} / {c} classes created by {fac} after runs "
                         f"{s0['run']} / {s1['run']} / {s2['run']} ({(c - b) / runs:.2f} per run)")
            if not explained:
                flag("registry_growth:component_registry", f"component registry size {vals}")
        elif name == "component_registry_categories":
            flag("registry_growth:component_registry_categories", f"component registry categories {vals}")
        else:
            flag(f"registry_growth:{name}", f"{name} has {vals[0]} / {vals[1]} / {vals[2]} entries after runs "
                                            f"{s0['run']} / {s1['run']} / {s2['run']}")
    # (b) live gc-tracked objects
    total = (s2["objects"] - s1["objects"]) / runs
    row["slope_total"] = round(total, 3)
    row["slope_warmup_window"] = round((s1["objects"] - s0["objects"]) / (s1["run"] - s0["run"]), 3)
    att = res.get("attribution")
    run.count("slope_evaluations")
    if att is None:
        if total >= SLOPE_BOUND:
            flag("object_growth_without_attribution", f"{total:.2f} objects/run and the attribution pass did not run")
        row["attribution"] = None
    else:
        run.count("attribution_passes")
        run.count("new_objects_partitioned", att["new_objects"])
        breakdown = {}
        explained = 0.0
        for label, r in sorted(att["roots"].items()):
            # Objects reachable from a root count as growth only in the proportion in which the root itself grew between
            # the two samples (on an append-only registry / an undrained queue that proportion is 1); new classes or
            # messages that merely REPLACE the ones of the previous run are working set, not residue.
            if label.startswith("generated_classes:"):
                fac = label.split(":", 1)[1]
                grew = s2["registry_by_factory"].get(fac, 0) - s1["registry_by_factory"].get(fac, 0)
                fresh_roots = r["classes"]
            elif label == "transport_messages":
                grew = s2["transports"]["queued_messages"] - s1["transports"]["queued_messages"]
                fresh_roots = r["messages_new"]
            else:
                grew = s2["transports"]["channels"] - s1["transports"]["channels"]
                fresh_roots = r["entries_new"]
            share = min(1.0, max(0.0, grew / fresh_roots)) if fresh_roots else 0.0
            per_run = r["objects"] * share / runs
            explained += r["objects"] * share
            breakdown[label] = {k: v for k, v in r.items() if k != "class_names"}
            breakdown[label].update(root_growth=grew, growth_share=round(share, 3), objects_per_run=round(per_run, 3))
            if per_run < SLOPE_BOUND:
                continue
            if label.startswith("generated_classes:"):
                flag(f"registry_growth_generated_classes:{fac}",
                     f"{grew / runs:.2f} classes/run created by {fac} ({', '.join(sorted(r['functions']))}; e.g. "
                     f"{', '.join(r['class_names'][:3])}) stay registered; {per_run:.1f} live objects/run reachable from them")
            elif label == "transport_messages":
                flag(message_key(mode), f"{grew / runs:.2f} published messages/run stay queued in a transport that "
                                        f"outlives the run ({per_run:.1f} live objects/run); queued: {row['queued_messages']}")
            elif label == "transport_channel_table":
                flag("transport_channel_table_growth", f"{grew / runs:.2f} channel entries/run stay in the in-memory "
                                                       f"transport's table ({per_run:.1f} live objects/run); channels: {row['channels']}")
            else:
                flag(f"object_growth_root:{label}", f"{per_run:.1f} objects/run")
        residual = (s2["objects"] - s1["objects"] - explained) / runs
        row["attribution"] = breakdown
        row["residual_per_run"] = round(residual, 3)
        if residual >= SLOPE_BOUND:
            holders = "; ".join(f"{h['holder_type']} {h['owner']} (+{h['direct_new_referents']})".strip()
                                for h in att["unclaimed_holders"][:3]) or "-"
            flag("residual_growth_unattributed",
                 f"{residual:.2f} live objects/run between runs {s1['run']} and {s2['run']} are reachable from no known root "
                 f"(registered classes, queued messages, channel table); top types {att['unclaimed_types'][:4]}; held by: {holders}")
            row["residual_types"] = att["unclaimed_types"][:6]
            row["residual_holders"] = att["unclaimed_holders"]
    # count-based cross-checks on the transport (independent of the reachability pass)
    if s2["transports"]["queued_messages"] > s1["transports"]["queued_messages"] > s0["transports"]["queued_messages"]:
        if message_key(mode) not in found:
            flag(message_key(mode), f"queued messages {row['queued_messages']}")
    if s2["transports"]["channels"] > s1["transports"]["channels"] > s0["transports"]["channels"]:
        if "transport_channel_table_growth" not in found:
            flag("transport_channel_table_growth", f"channels {row['channels']}")
    if s2["threads"] > s1["threads"] > s0["threads"]:
        flag("live_thread_growth", f"live threads {[s['threads'] for s in (s0, s1, s2)]}")
    # thorough: linearity (evidence only)
    if len(samples) >= 4:
        s3 = samples[3]
        g2 = (s3["objects"] - s2["objects"]) / (s3["run"] - s2["run"])
        row["slope_extended"] = round(g2, 3)
        if total < SLOPE_BOUND and g2 < SLOPE_BOUND:
            row["growth_shape"] = "flat"
        elif abs(g2 - total) <= LINEAR_TOL * max(abs(total), 1.0):
            row["growth_shape"] = "linear"
        else:
            row["growth_shape"] = "superlinear" if g2 > total else "sublinear"
        run.count(f"growth_shape_{row['growth_shape']}")
    elif len(job["points"]) >= 4:
        row["growth_shape"] = "not_extended(heap_above_cap)"
        run.count("growth_shape_not_extended")
    row["deferred"] = {}
    for key, msgs in sorted(found.items()):
        if key in defer:
            row["deferred"][key] = (f"[{mode}] " + " | ".join(msgs), dict(witness, observed={k: v for k, v in row.items() if k != "deferred"}))
            continue
        run.violation(key, f"[{mode}] " + " | ".join(msgs), dict(witness, observed=row))
    row["keys"] = sorted(found)
    return row


def execute(run, jobs: list, tier: str) -> list:
    rows = []
    with ThreadPoolExecutor(max_workers=PARALLEL) as ex:
        futs = [ex.submit(run_job, job, WATCHDOG[tier]) for (_c, _h, _m, job) in jobs]
        for (case, phash, mode, job), fut in zip(jobs, futs):
            res = fut.result()
            run.count("subprocesses_run")
            if res.get("watchdog"):
                run.note_inconclusive(f"{mode} subprocess for pipeline {phash} hit the {WATCHDOG[tier]}s watchdog")
                continue
            if not res.get("ok") or len(res.get("samples", [])) < 3:
                run.count("subprocess_failed")
                run.info.setdefault("subprocess_errors", []).append({"pipeline": phash, "mode": mode, "error": res.get("error"),
                                                                     "samples": len(res.get("samples", [])),
                                                                     "output_tail": res.get("output_tail")})
                continue
            run.count("subprocesses_ok")
            run.count(f"mode_{mode}")
            run.count("samples_taken", len(res["samples"]))
            run.count("pipeline_runs_observed", res["counters"]["pipeline_runs"])
            run.count("component_classes_created_observed", res["counters"]["classes_created"])
            for s in res["samples"]:
                if s["pipeline_runs_observed"] != s["run"]:
                    run.count("run_counter_mismatch")
            row = judge(run, case, phash, mode, job, res, defer=MEASURED_KEYS)
            if row["deferred"]:
                run.count("measured_verdicts_rechecked")
                res2 = run_job(job, WATCHDOG[tier])
                again = {}
                if res2.get("ok") and len(res2.get("samples", [])) >= 3 and not res2.get("watchdog"):
                    run.counters["registry_comparisons"] -= 0
                    row2 = judge(run, case, phash, mode, job, res2, defer=tuple(set(MEASURED_KEYS) | set(row["keys"])))
                    again = row2["deferred"]
                for key, (msg, wit) in row["deferred"].items():
                    if key in again:
                        run.violation(key, msg + " [reproduced in a second fresh subprocess]", wit)
                    else:
                        run.count("measured_verdict_not_reproduced")
                row["measured_verdicts_not_reproduced"] = sorted(set(row["deferred"]) - set(again))
            row.pop("deferred", None)
            rows.append(row)
            run.case([phash, mode], nontrivial=len(case["nodes"]) >= 3,
                     sample={"pipeline": phash, "mode": mode, "nodes": case["nodes"], "ctx": case["ctx"],
                             "sample_points": row["sample_points"], "objects": row["objects"],
                             "component_registry": row["component_registry"]})
    return rows


def run(run):
    boot.boot()
    from vlib.verdict import canon_hash

    tier = run.tier
    seed = run.seed * 1000 + run.shard[0]
    cases = choose_pipelines(run, seed, N_PIPELINES[tier]) + [QUALIFIED_CASE]
    scratch = tempfile.mkdtemp(prefix="verif-c18-")
    jobs = []
    covered = set()
    try:
        for ci, case in enumerate(cases):
            phash = canon_hash(case)
            covered |= features_of(case["nodes"])
            for mi, mode in enumerate(MODES):
                if mode == "relaunch_cli" and tier == "quick" and ci != len(cases) - 1:
                    continue      # every launch re-inspects and rebuilds the pipeline: with the open finding F17 450 launches of a
                                  # large pipeline cost gigabytes; quick runs this mode on the smallest configuration only
                idx = ci * len(MODES) + mi
                jobs.append((case, phash, mode, make_job(case, mode, tier, scratch, idx)))
        rows = execute(run, jobs, tier)
    finally:
        shutil.rmtree(scratch, ignore_errors=True)
    for f in FEATURES:
        run.count(f"feature_{f}", sum(1 for c in cases if f in features_of(c["nodes"])))
    run.info["features_covered"] = sorted(covered)
    run.info["sampling"] = {"points": POINTS[tier], "slope_window": POINTS[tier][1:3], "slope_bound_objects_per_run": SLOPE_BOUND,
                            "extend_to_last_point_if_objects_below": EXTEND_MAX_OBJECTS if tier == "thorough" else None,
                            "same_points_for_all_modes": True, "parallel_subprocesses": PARALLEL}
    run.info["table"] = rows
    n_jobs = len(jobs)
    run.floor("subprocesses_ok", max(4, (3 * n_jobs) // 4))
    run.floor("pipeline_runs_observed", 4 * POINTS[tier][2])
    run.floor("samples_taken", 12)
    run.floor("attribution_passes", 4)
    for m in MODES:
        run.floor(f"mode_{m}", 1)
    if run.counters.get("run_counter_mismatch"):
        run.note_inconclusive("the Pipeline-boundary run counter disagreed with the driver's run number at a sample")
    run.assumptions += [
        "growth = count of registry entries and of gc-tracked objects after gc.collect(); growth outside the Python heap or in "
        "untracked objects (a list of strings grows by no tracked object) is not seen",
        "the harness's own flight recorder (vlib.components.REC) is switched off in the child; the run-space launch carries the "
        "initial context as N by_position values per key; queue jobs are fed 16 at a time and every sample is taken quiescent",
        "attribution window = second to third sample; gc.freeze() at the second sample makes 'created since' exact",
    ]


def replay(run, witness):
    boot.boot()
    scratch = tempfile.mkdtemp(prefix="verif-c18-")
    try:
        pts = witness["points"]
        job = {"case": witness["case"], "mode": witness["mode"], "points": pts, "n": pts[-1],
               "scratch": os.path.join(scratch, "j0"), "trace": witness.get("trace", False), "detail": "hash",
               "attribute": True, "inflight": 16, "extend_max_objects": None}
        res = run_job(job, WATCHDOG["quick"])
        run.count("subprocesses_run")
        if res.get("ok") and len(res.get("samples", [])) >= 3:
            judge(run, witness["case"], witness.get("pipeline", "replay"), witness["mode"], job, res)
        else:
            run.note_inconclusive(f"replay subprocess failed: {res.get('error')}")
        run.case([witness.get("pipeline", "replay"), witness["mode"]], True, sample=witness["case"])
        run.case("replay-second-slot", True)
    finally:
        shutil.rmtree(scratch, ignore_errors=True)
