"""C03 — parameter sweeps expand to exactly the documented element sequence.

Oracle: vlib.refmodel (expand_sweep / sweep_steps / var_sequence, own linspace/logspace, sorted-name Cartesian
order, by_position with broadcast cycling, merge computed > node > default).  Strong form: the leaf flight
recorder lists, for every step, the kwargs the wrapped element really received, compared step by step, so a
wrong order cannot hide behind commutative arithmetic; the output collection / probe list and every
<var>_values entry in the run context are compared as well.
"""
from __future__ import annotations

import shutil
import tempfile

from vlib import boot

LEVEL = "exploration"
RULE = ("seeded generator of sweep-centred pipelines: wrapped kind {source, operation, probe} x 1..3 variables "
        "(linear/log range with/without endpoint, explicit sequences written both ways, from_context) x mode x broadcast "
        "x expressions from the safe grammar x placement of non-swept parameters x surrounding nodes; distinct = hash of "
        "(nodes, ctx, data); non-trivial = the sweep node executed with >= 2 steps or was rejected for unequal lengths")
SHARDS = {"quick": 1, "thorough": 48}
SHARD_TIMEOUT = {"thorough": 3000}
N_CASES = {"quick": 2500, "thorough": 2000}  # per shard


def rerun_after_caller_mutation(run, case, scratch):
    """One Pipeline object run twice; in between the caller modifies IN PLACE every <var>_values sequence the first run
    published (sorting it, dropping an item - what a downstream consumer of that list may do).  The second run must
    expand the DECLARED sweep again: same data, same published sequences."""
    from semantiva.context_processors.context_types import ContextType
    from semantiva.pipeline.payload import Payload
    from vlib import account

    import copy

    try:
        pipe = account.build_pipeline(case["nodes"])
    except Exception:
        return
    def once():
        out = pipe.process(Payload(account.to_real_data(case["data"]), ContextType(copy.deepcopy(case["ctx"]))))
        return out, account.plain(out.data), account.plain(out.context.to_dict())
    try:
        out1, d1, c1 = once()
    except Exception:
        return
    touched = 0
    for k in list(out1.context.to_dict()):
        if not k.endswith("_values"):
            continue
        v = out1.context.get_value(k)
        try:
            if isinstance(v, list) and v:
                v.reverse()
                v.pop()
                touched += 1
            elif hasattr(v, "shape") and getattr(v, "size", 0):
                v[...] = 0
                touched += 1
        except Exception:
            pass
    if not touched:
        return
    run.count("reruns_after_caller_mutated_published_sequences")
    try:
        _out2, d2, c2 = once()
    except Exception as exc:
        run.violation("second_run_differs_after_caller_mutated_published_sequence",
                      f"the second run of the same Pipeline raised {type(exc).__name__}: {str(exc)[:120]} after the caller modified the published "
                      f"<var>_values lists of the first run in place", {"case": case, "first": {"data": d1}})
        return
    if not (account.close(d1, d2) and account.close(c1, c2)):
        run.violation("second_run_differs_after_caller_mutated_published_sequence",
                      "the second run of the same Pipeline expands a different sweep after the caller modified, in place, the <var>_values "
                      "lists the first run published", {"case": case, "first": {"data": d1, "ctx": c1}, "second": {"data": d2, "ctx": c2}})


def rerun_with_other_context(run, case, scratch):
    """One Pipeline object, two payloads: the second payload's from_context sequences differ from the first one's.  The
    second run must sweep ITS OWN context (compared with the reference on the second payload)."""
    from semantiva.context_processors.context_types import ContextType
    from semantiva.pipeline.payload import Payload
    from vlib import account, refmodel as rm

    import copy

    ctx2 = copy.deepcopy(case["ctx"])
    changed = False
    for k, v in ctx2.items():
        if isinstance(v, list) and v and all(isinstance(x, float) for x in v):
            ctx2[k] = [x * 2.0 + 1.0 for x in v] + [7.25]
            changed = True
    if not changed:
        return
    try:
        m2 = rm.run_pipeline(case["nodes"], case["data"], ctx2)
    except rm.ConfigRejected:
        return
    if not m2.ok or m2.dontcare:
        return
    try:
        pipe = account.build_pipeline(case["nodes"])
        pipe.process(Payload(account.to_real_data(case["data"]), ContextType(copy.deepcopy(case["ctx"]))))
        out2 = pipe.process(Payload(account.to_real_data(case["data"]), ContextType(copy.deepcopy(ctx2))))
    except Exception as exc:
        run.violation("second_payload_on_same_pipeline_differs_from_reference",
                      f"the same Pipeline object raised {type(exc).__name__}: {str(exc)[:120]} on a second payload whose from_context sequences differ "
                      f"from the first payload's (the reference succeeds)", {"case": case, "ctx2": ctx2})
        return
    run.count("reruns_with_other_context")
    d2, c2 = account.plain(out2.data), account.plain(out2.context.to_dict())
    if not (account.close(m2.data, d2) and account.close(m2.ctx, c2)):
        run.violation("second_payload_on_same_pipeline_differs_from_reference",
                      "the second payload processed by one Pipeline object (other from_context sequences than the first) does not give the documented "
                      "result for ITS context", {"case": case, "ctx2": ctx2, "model": {"data": m2.data, "ctx": m2.ctx}, "real": {"data": d2, "ctx": c2}})


def run(run):
    boot.boot()
    from vlib import gen, refmodel as rm
    from vlib.diffrun import compare
    from vlib.verdict import canon_hash

    seed = run.seed * 1000 + run.shard[0]
    scratch = tempfile.mkdtemp(prefix="verif-c03-")
    g = gen.Gen(seed, scratch)
    try:
        for i in range(N_CASES[run.tier]):
            case = gen.sweep_case(g)
            m = compare(run, case, via_yaml=(i % 3 == 2), scratch=scratch)
            if m is None:
                continue
            if i % 8 == 1 and m.ok:
                rerun_after_caller_mutation(run, case, scratch)
            if i % 8 == 5 and m.ok and not m.dontcare:
                rerun_with_other_context(run, case, scratch)
            steps = 0
            nontrivial = False
            for nm in m.models:
                if nm.sweep is None:
                    continue
                run.count(f"sweep_kind_{nm.role}")
                run.count(f"sweep_mode_{nm.sweep['mode']}{'_broadcast' if nm.sweep['broadcast'] else ''}")
                run.count(f"sweep_nvars_{len(nm.sweep['variables'])}")
                for spec in nm.sweep["variables"].values():
                    if isinstance(spec, list):
                        run.count("var_plain_list")
                    elif "from_context" in spec:
                        run.count("var_from_context")
                    elif "values" in spec:
                        run.count("var_values")
                    else:
                        run.count(f"var_range_{spec.get('scale', 'linear')}_{'endpoint' if spec.get('endpoint', True) else 'noendpoint'}")
            sweep_leaves = sum(1 for c, d, k in m.leaves)
            for nt in m.nodes:
                if nt.label.startswith("sweep("):
                    run.count("sweep_nodes_executed")
                    if nt.failed:
                        run.count(f"sweep_node_failed_{nt.failed}")
                        if nt.failed == "processor_error":
                            nontrivial = True
            run.count("sweep_steps_compared", sweep_leaves)
            if sweep_leaves >= 3:
                nontrivial = True
            run.case(canon_hash(case), nontrivial,
                     sample={"nodes": case["nodes"], "ctx": case["ctx"], "data": case["data"],
                             "reference": {"ok": m.ok, "fail_kind": m.fail_kind, "data": m.data,
                                           "published": {k: v for k, v in (m.ctx or {}).items() if k.endswith("_values")}}}
                     if i < 3 else None)
    finally:
        shutil.rmtree(scratch, ignore_errors=True)
    run.floor("sweep_nodes_executed", 50)
    run.floor("sweep_steps_compared", 200)
    run.assumptions += ["reference expansion in vlib/refmodel.py states the documented sweep semantics",
                        "a two-number plain list ([a, b]) as variable spec is not generated (documentation and code disagree on its meaning; the property does not say which is meant)"]


def replay(run, witness):
    boot.boot()
    from vlib.diffrun import compare

    scratch = tempfile.mkdtemp(prefix="verif-c03-")
    try:
        compare(run, witness["case"], witness.get("via_yaml", False), scratch)
        rerun_after_caller_mutation(run, witness["case"], scratch)
        rerun_with_other_context(run, witness["case"], scratch)
        run.case(witness["case"], True, sample=witness["case"])
        run.case("replay-second-slot", True)
    finally:
        shutil.rmtree(scratch, ignore_errors=True)
