"""C07 — what a Semantic Execution Record says about its node is true.

Every SER field is compared with an independent account of the same run: a same-run sys.monitoring node probe
(context and data at node entry/exit, class of the processor that ran), the reference model (which parameters the
node resolves, from which channel, with which value) and the harness's own clock.
"""
from __future__ import annotations

import calendar
import re
import shutil
import tempfile
import time

from vlib import boot

def _repr_image(s: str):
    """Value denoted by the repr string the SER shows for a parameter value JSON cannot carry (numpy scalars inside)."""
    import ast
    import re

    t = re.sub(r"np\.float64\(([^()]*)\)", r"\1", s).replace("np.True_", "True").replace("np.False_", "False")
    try:
        return ast.literal_eval(t)
    except Exception:
        return None


LEVEL = "exploration"
RULE = ("C01 generator (succeeding and failing pipelines, every parameter placement incl. defaults and defaults overridden by "
        "context) x detail levels x host TZ in {UTC, +09:00, -08:00, +05:45} (time.tzset in-process; thorough also fresh "
        "subprocesses); distinct = hash of (nodes, ctx, data, detail, tz); non-trivial = >= 2 SERs compared and at least one "
        "parameter resolved from context or default")
SHARDS = {"quick": 8, "thorough": 48}
SHARD_TIMEOUT = {"quick": 600, "thorough": 3000}
N_CASES = {"quick": 120, "thorough": 90}   # per shard; each case runs under 4 TZ settings
TZS = ["UTC", "<+09>-9", "<-08>8", "<+0545>-5:45"]
DETAILS = ["all", "hash", "repr", "context", "hash,context"]
RFC3339 = re.compile(r"^(\d{4})-(\d\d)-(\d\d)T(\d\d):(\d\d):(\d\d)(\.\d+)?(Z|[+-]\d\d:\d\d)$")
CHANNEL = {"config": "node", "context": "context", "default": "default"}


def parse_utc(ts: str):
    """RFC 3339 -> POSIX seconds (float) or None."""
    m = RFC3339.match(ts or "")
    if not m:
        return None
    y, mo, d, h, mi, s, frac, off = m.groups()
    base = calendar.timegm((int(y), int(mo), int(d), int(h), int(mi), int(s)))
    base += float(frac) if frac else 0.0
    if off != "Z":
        sign = 1 if off[0] == "+" else -1
        base -= sign * (int(off[1:3]) * 3600 + int(off[4:6]) * 60)
    return base


def _kind(v):
    if isinstance(v, bool) or (isinstance(v, int) and not isinstance(v, bool)):
        return "int"      # 1 vs True: the runtime's own serialisation cannot tell them apart (don't-care)
    if isinstance(v, float):
        return "float"    # numpy float64 is a float
    return type(v).__name__


def same_content(a, b):
    """Equal content including the type of scalars (2 -> 2.0 IS a change; 1 -> True is a don't-care)."""
    from vlib import account

    if isinstance(a, (list, tuple)) and isinstance(b, (list, tuple)):
        return len(a) == len(b) and all(same_content(x, y) for x, y in zip(a, b))
    if isinstance(a, dict) and isinstance(b, dict):
        return set(a) == set(b) and all(same_content(a[k], b[k]) for k in a)
    return _kind(a) == _kind(b) and account.close(a, b)


def targeted_case(g, j):
    """Patterns aimed at narrow SER corners: a key rewritten with an ==-equal value of another type; a defaulted
    parameter whose context value is None; a list key rewritten element-wise equal."""
    k = g.rng.choice(["factor", "addend", "a", "seen"])
    v = g.rng.choice([1, 2, 3])
    pat = j % 12
    if pat == 11:
        # a node takes a LIST parameter from the context; a later node of the same run appends to that very list in place:
        # the earlier node's SER must report the value it was actually passed
        nodes = [{"processor": "VSrc", "parameters": {"value": float(v)}}, {"processor": "VWeightedScale"},
                 {"processor": "VValueProbe", "context_key": "seen"}, {"processor": "VRemember"}, {"processor": "VWeightedScale"}]
        if g.chance(0.5):
            nodes.append({"processor": "VRemember"})
        ctx = {"weights": [0.5, 1.5] + ([float(g.rng.choice([2, 4]))] if g.chance(0.5) else [])}
    elif pat == 10:
        # a processor that rewrites an EXISTING key which is inside its write whitelist but not among the keys it declares
        # as created (twice, with a probe in between): the update is part of the actual context difference
        nodes = [{"processor": "VSrc", "parameters": {"value": float(v)}}, {"processor": "VTally"},
                 {"processor": "VValueProbe", "context_key": "seen"}, {"processor": "VTally"}, {"processor": "VAddDefault"}]
        ctx = {"tally": float(g.rng.choice([0, 3, 10])), "note": 0.5} if g.chance(0.7) else {"tally": 2.0}
    elif pat == 7:
        # long values (repr far beyond 200 characters) that a node changes ONLY IN THE TAIL: a 60-item list in the context,
        # a 50-item collection in the data channel
        nodes = [{"processor": "VCollSrc", "parameters": {"n": 50, "start": 1000.5}}, {"processor": "VCtxBumpLast"},
                 {"processor": "CopyDataProbe", "context_key": "snap"},            # the data OBJECT itself goes into the context
                 {"processor": "VCollBumpLast"}, {"processor": "VCtxBumpLast"},
                 {"processor": "CopyDataProbe", "context_key": "snap"},            # ... and is replaced by one that differs in its tail only
                 {"processor": "VCollSum"}]
        ctx = {"long_seq": [1000.25 + i for i in range(60)]}
    elif pat == 8:
        # two DIFFERENT classes with the same name (two plugins), both left to their defaults
        nodes = [{"processor": "vlib.components_extra:XSrcDefault"}, {"processor": "vlib.components_extra:XMulDefault"}, {"processor": "DataDump"},
                 {"processor": "vlib.components_extra2:XSrcDefault"}, {"processor": "vlib.components_extra2:XMulDefault"}]
        ctx = {}
    elif pat == 9:
        nodes = [{"processor": "vlib.components_extra2:XSrcDefault"}, {"processor": "vlib.components_extra2:XMulDefault"}, {"processor": "DataDump"},
                 {"processor": "vlib.components_extra:XSrcDefault"}, {"processor": "vlib.components_extra:XMulDefault"}]
        ctx = {}
    elif pat == 4:
        # ONE processor class used by several nodes of the run with different parameter placements: context first, then
        # (the key being gone) the node configuration
        nodes = [{"processor": "VSrc", "parameters": {"value": float(v)}}, {"processor": "VMul"}, {"processor": "delete:factor"},
                 {"processor": "VMul", "parameters": {"factor": 3.0}}, {"processor": "VCtxScale", "parameters": {"base": 2.0}}, {"processor": "VCtxScale"}]
        ctx = {"factor": 2.0, "base": 1.5}
    elif pat == 5:
        # ... configuration first, then a node of the same class that needs the key from a context that lacks it (fails there)
        nodes = [{"processor": "VSrc", "parameters": {"value": float(v)}}, {"processor": "VMul", "parameters": {"factor": 3.0}}, {"processor": "VMul"}]
        ctx = {}
    elif pat == 6:
        nodes = [{"processor": "VSrc", "parameters": {"value": float(v)}}, {"processor": "VCtxScale", "parameters": {"base": 2.0}}, {"processor": "VCtxScale"},
                 {"processor": "VScaledProbe", "context_key": "p1", "parameters": {"scale": 2.0}}, {"processor": "VScaledProbe", "context_key": "p2"}]
        ctx = {}
    elif pat == 0:
        nodes = [{"processor": "VSrc", "parameters": {"value": float(v)}}, {"processor": "VValueProbe", "context_key": k},
                 {"processor": "VAddDefault"}]
        ctx = {k: v}
    elif pat == 1:
        nodes = [{"processor": "VCollSrc", "parameters": {"n": 2, "start": 1.0}},
                 {"processor": "slice:VValueProbe:FloatDataCollection", "context_key": "seq"}, {"processor": "VCollSum"}]
        ctx = {"seq": [1, 2]}
    elif pat == 2:
        nodes = [{"processor": "VSrc", "parameters": {"value": 1.5}}, {"processor": "VNullSink"}, {"processor": "VMulDefault"}]
        ctx = {"tag": None}
    else:
        nodes = [{"processor": "VSrcDefault"}, {"processor": "VScaledProbe", "context_key": "p"}, {"processor": "VNullSink"}]
        ctx = {"scale": None, "value": float(v)}
    return {"nodes": nodes, "ctx": ctx, "data": "NoData"}


def check_case(run, case, detail, tz, scratch, digests, warmup_ctx=None):
    """``warmup_ctx``: the SAME Pipeline object first processes a payload with this other context (traced), then the
    measured run — what a SER says must be true of THIS run, whatever the object did before."""
    from vlib import account, refmodel as rm, tracecheck as tc
    from vlib.diffrun import node_kind

    nodes, ctx, data = case["nodes"], case["ctx"], case["data"]
    try:
        m = rm.run_pipeline(nodes, data, ctx)
    except rm.ConfigRejected:
        return None
    if m.dontcare or (not m.ok and m.fail_kind == "construction"):
        return None
    pipe = None
    if warmup_ctx is not None:
        try:
            pipe = account.build_pipeline(nodes)
            w = tc.traced_run(nodes, data, warmup_ctx, detail=detail, mode="file", scratch=scratch, pipeline=pipe)
            shutil.rmtree(w.tdir, ignore_errors=True)
            run.count("runs_on_reused_pipeline_after_other_payload")
        except Exception:
            pipe = None
    boot.set_tz(tz)
    try:
        with account.NodeProbe() as probe:
            tr = tc.traced_run(nodes, data, ctx, detail=detail, mode="file", scratch=scratch, pipeline=pipe)
    finally:
        boot.set_tz("UTC")
    real = tr.real
    shutil.rmtree(tr.tdir, ignore_errors=True)
    run.count("traced_runs")
    if real.stage == "build" or real.ok != m.ok:
        run.count("outcome_disagrees_with_reference")
        return None
    sers = [r for r in tr.records if r.get("record_type") == "ser"]
    recs = probe.node_records()
    real_leaves = list(real.leaves or [])
    if len(real_leaves) != len(m.leaves):
        real_leaves = []          # leaf sequences differ (C01's business): no per-node attribution of the flight record
    run.count("node_probe_hits", probe.hits)
    if len(sers) != len(recs) or len(sers) != len(m.nodes):
        run.count("ser_count_differs_from_probe")  # C06's business
        return None
    witness = {"nodes": nodes, "ctx": ctx, "data": data, "detail": detail, "tz": tz}
    hash_on = any(f in detail for f in ("hash", "all"))

    def viol(key, msg, i=None, **extra):
        w = dict(witness, node=i, **extra)
        if i is not None:
            w["ser"] = {k: sers[i].get(k) for k in ("processor", "context_delta", "assertions", "timing", "status", "summaries")}
            w["ser"]["assertions"] = {k: v for k, v in (w["ser"]["assertions"] or {}).items() if k in ("preconditions", "postconditions")}
        run.violation(key, msg, w)

    prev_out_digest = prev_post_ctx = None
    last_ts = None
    stream_ts = []
    for i, (ser, rec, nt, nm) in enumerate(zip(sers, recs, m.nodes, m.models)):
        run.count("sers_compared")
        kind = node_kind(nm)
        before, after = rec["ctx_before"] or {}, rec["ctx_after"] or {}
        # ---- context delta
        appeared = sorted(k for k in after if k not in before)
        changed = sorted(k for k in after if k in before and not same_content(after[k], before[k]))
        disappeared = sorted(k for k in before if k not in after)
        cd = ser.get("context_delta", {})
        if sorted(cd.get("created_keys", [])) != appeared:
            viol(f"created_keys_wrong@{kind}", f"SER created_keys {cd.get('created_keys')} vs keys that appeared {appeared}", i, before=before, after=after)
        if sorted(cd.get("updated_keys", [])) != changed:
            viol(f"updated_keys_wrong@{kind}", f"SER updated_keys {cd.get('updated_keys')} vs keys that changed {changed}", i, before=before, after=after)
        # ---- processor.ref names the class that ran
        ident = rec.get("processor_class") or {}
        ref = (ser.get("processor") or {}).get("ref")
        ok_refs = {f"{ident.get('module')}.{ident.get('qualname')}", f"{ident.get('module')}.{ident.get('name')}"}
        if ref not in ok_refs:
            viol(f"processor_ref_wrong@{kind}", f"SER processor.ref {ref!r} does not name the class that ran {sorted(ok_refs)}", i)
        if (ser.get("tags") or {}).get("node_ref") not in (None, ref):
            viol(f"node_ref_tag_differs@{kind}", f"tags.node_ref {(ser.get('tags') or {}).get('node_ref')!r} vs processor.ref {ref!r}", i)
        # ---- parameters and sources
        params = (ser.get("processor") or {}).get("parameters") or {}
        sources = (ser.get("processor") or {}).get("parameter_sources") or {}
        for name, (okind, _prod) in nt.origins.items():
            run.count("parameters_compared")
            run.count(f"parameter_channel_{okind}")
            want_src = CHANNEL[okind]
            if name not in params:
                viol(f"parameter_missing_from_ser:{okind}_sourced", f"node {i} resolved '{name}' from {okind} (value {nt.params.get(name)!r}) but the SER does not list it", i)
                continue
            sv, av = account.plain(params[name]), account.plain(nt.params[name])
            if isinstance(sv, str) and not isinstance(av, str) and (sv.startswith(("FloatDataType(", "FloatDataCollection(", "NoDataType(")) or sv.startswith("Hostile(")):
                run.count("non_json_parameter_values_shown_as_repr")  # a data object held in the context: the SER can only show its repr
            elif isinstance(sv, str) and not isinstance(av, str) and _repr_image(sv) is not None and account.close(av, account.plain(_repr_image(sv))):
                run.count("non_json_parameter_values_shown_as_repr")  # e.g. a probe's dict of numpy scalars: shown as its repr
            elif not account.close(sv, av):
                viol(f"parameter_value_wrong:{okind}_sourced", f"SER parameters['{name}']={params[name]!r}, value actually passed {nt.params[name]!r}", i)
            if sources.get(name) != want_src:
                viol(f"parameter_source_wrong:reported_{sources.get(name)}_actual_{want_src}", f"SER parameter_sources['{name}']={sources.get(name)!r}, actual channel {want_src}", i)
        # ---- the value the leaf REALLY received (flight recorder), where the component records its calls
        lr = getattr(nt, "leaf_range", None)
        if nm.recorded and nm.sweep is None and not nm.slicer and lr and lr[1] - lr[0] == 1 and lr[0] < len(real_leaves):
            _lcls, _ldata, lkw = real_leaves[lr[0]]
            for name, lval in (lkw or {}).items():
                if name in params:
                    run.count("parameters_compared_with_leaf_record")
                    sv = account.plain(params[name])
                    if not (account.close(sv, account.plain(lval)) or (isinstance(sv, str) and not isinstance(lval, str))):
                        viol("parameter_value_differs_from_value_received_by_processor",
                             f"SER parameters['{name}']={params[name]!r} but the processor of node {i} received {lval!r}", i)
        # ---- built-in checks
        pre = {c.get("code"): c for c in (ser.get("assertions") or {}).get("preconditions", [])}
        post = {c.get("code"): c for c in (ser.get("assertions") or {}).get("postconditions", [])}
        needed = [n for n, d in nm.params if n not in nm.config and d is rm.REQ]
        # a component that advertises the legacy get_required_keys() hook declares those keys as expected as well
        needed += [k for k in rm.HOOK_REQUIRED.get(nm.comp.name if nm.comp is not None else "", []) if k not in needed]
        cond = all(n in before for n in needed)
        rk = pre.get("required_keys_present")
        if rk is None or (rk.get("result") == "PASS") != cond:
            viol(f"check_required_keys_present_wrong@{kind}", f"required_keys_present={rk and rk.get('result')} but the condition is {cond} (needs {needed}, context has {sorted(before)})", i)
        it = pre.get("input_type_ok")
        cond = rm.accepts(nm.in_type, rec["data_in"]) if nm.role != "ctx" else True
        if it is None or (it.get("result") == "PASS") != cond:
            viol(f"check_input_type_ok_wrong@{kind}", f"input_type_ok={it and it.get('result')} but isinstance(input, declared type) is {cond} (declared {nm.in_type}, got {rm.type_of(rec['data_in'])})", i)
        if rec["outcome"] == "returned":
            ot = post.get("output_type_ok")
            declared = nm.comp.out_type if (nm.comp is not None and nm.role == "op" and not nm.slicer and nm.sweep is None) else nm.out_type
            cond = True if declared is None else rm.accepts(declared, rec["data_out"])
            if ot is None or (ot.get("result") == "PASS") != cond:
                viol(f"check_output_type_ok_wrong@{kind}", f"output_type_ok={ot and ot.get('result')} but isinstance(output, declared type) is {cond} (declared {declared}, got {rm.type_of(rec['data_out'])})", i)
        cw = post.get("context_writes_realized")
        cond = all(k in after for k in list(cd.get("created_keys", [])) + list(cd.get("updated_keys", [])))
        if cw is None or (cw.get("result") == "PASS") != cond:
            viol(f"check_context_writes_realized_wrong@{kind}", f"context_writes_realized={cw and cw.get('result')} but the condition is {cond}", i)
        # ---- digests: functions of content, chained
        summ = ser.get("summaries") or {}
        if hash_on:
            din = (summ.get("input_data") or {}).get("sha256")
            dout = (summ.get("output_data") or {}).get("sha256")
            run.count("digests_compared")
            if prev_out_digest is not None and din != prev_out_digest:
                viol("digest_chain_broken_data", f"node {i} input digest {din} != node {i - 1} output digest {prev_out_digest}", i)
            for dg, key in ((din, rec.get("data_in_key")), (dout, rec.get("data_out_key"))):
                if dg is None or key is None:
                    continue
                seen = digests.setdefault(key, dg)
                if seen != dg:
                    viol("equal_content_unequal_digest", f"content {key} has digests {seen} and {dg}", i)
                rev = digests.setdefault(("rev", dg), key)
                if rev != key:
                    run.count("digest_collision_info")
            prev_out_digest = dout if rec["outcome"] == "returned" else None
            cpre = (summ.get("pre_context") or {}).get("sha256")
            cpost = (summ.get("post_context") or {}).get("sha256")
            if prev_post_ctx is not None and cpre != prev_post_ctx:
                viol("digest_chain_broken_context", f"node {i} pre-context digest != node {i - 1} post-context digest", i)
            prev_post_ctx = cpost
            if cpre is not None and cpost is not None:
                delta = bool(cd.get("created_keys") or cd.get("updated_keys") or disappeared)
                if cpre != cpost and not delta:
                    viol("context_digest_changed_but_no_delta_reported", f"node {i}: pre/post context digests differ but the SER reports no created/updated key (and none disappeared)", i, before=before, after=after)
        # ---- durations and timestamps
        timing = ser.get("timing") or {}
        for f in ("wall_ms", "cpu_ms"):
            if f in timing and (not isinstance(timing[f], int) or timing[f] < 0):
                viol("negative_duration", f"timing.{f}={timing[f]!r}", i)
        stream_ts += [("started_at", i, timing.get("started_at")), ("finished_at", i, timing.get("finished_at"))]
    start = tr.records[0] if tr.records else {}
    end = tr.records[-1] if tr.records else {}
    all_ts = [("pipeline_start", None, start.get("timestamp"))] + stream_ts + [("pipeline_end", None, end.get("timestamp"))]
    prev = None
    for label, i, ts in all_ts:
        run.count("timestamps_checked")
        t = parse_utc(ts) if isinstance(ts, str) else None
        if t is None:
            viol("timestamp_not_rfc3339", f"{label} = {ts!r}", i)
            continue
        if not (tr.t0 - 0.003 <= t <= tr.t1 + 0.003):
            off = t - tr.t0
            viol("timestamp_not_true_utc_instant", f"{label} = {ts!r} is {off:+.1f}s away from the true UTC instant of the run (host TZ {tz})", i)
        if prev is not None and t + 1e-9 < prev:
            viol("timestamp_decreasing", f"{label} = {ts!r} precedes the previous timestamp in the stream", i)
        prev = t
    return m


def run(run):
    boot.boot()
    from vlib import gen
    from vlib.verdict import canon_hash

    seed = run.seed * 1000 + run.shard[0]
    scratch = tempfile.mkdtemp(prefix="verif-c07-")
    g = gen.Gen(seed, scratch)
    digests: dict = {}
    try:
        for i in range(N_CASES[run.tier]):
            case = g.pipeline(max_len=7, fault_bias=0.25) if i % 5 else targeted_case(g, i // 5)
            details = [DETAILS[i % len(DETAILS)]] if run.tier == "quick" else DETAILS[:4]
            for detail in details:
                for ti, tz in enumerate(TZS):
                    warm = None
                    if (i + ti) % 4 == 3:
                        # other payload first: drop / add context keys named like defaulted parameters
                        warm = {k: v for k, v in case["ctx"].items() if k not in ("factor", "addend", "scale", "k", "b", "tag")}
                        if warm == case["ctx"]:
                            warm = dict(case["ctx"], factor=7.5, addend=7.5, scale=7.5, k=7.5, b=7.5, tag="w")
                    m = check_case(run, case, detail, tz, scratch, digests, warmup_ctx=warm)
                    if m is None:
                        continue
                    origins = [o[0] for nt in m.nodes for o in nt.origins.values()]
                    nontrivial = len(m.nodes) >= 2 and any(o in ("context", "default") for o in origins)
                    run.count(f"tz_{tz}")
                    run.case(canon_hash([case, detail, tz]), nontrivial,
                             sample={"nodes": case["nodes"], "ctx": case["ctx"], "data": case["data"], "detail": detail, "tz": tz}
                             if run.evaluations < 3 else None)
        if run.tier == "thorough" and run.shard[0] == 0:
            fresh_process_tz(run)
    finally:
        boot.set_tz("UTC")
        shutil.rmtree(scratch, ignore_errors=True)
    run.floor("sers_compared", 100)
    run.floor("parameters_compared", 50)
    run.floor("timestamps_checked", 200)
    run.floor("node_probe_hits", 100)
    run.assumptions += ["which parameters a node resolves and from which channel is taken from the reference model (tied to the real semantics by C01); values are cross-checked against it",
                        "digest injectivity over the generated domain is recorded as information, not a verdict"]


def fresh_process_tz(run):
    """Thorough: the same timestamp oracle in fresh subprocesses started with TZ in the environment."""
    import json
    import subprocess
    import sys

    code = (
        "import sys,time,json,tempfile,os;sys.path.insert(0,'/verif');from vlib import boot;boot.boot();"
        "from vlib import tracecheck as tc;"
        "nodes=[{'processor':'VSrc','parameters':{'value':2.0}},{'processor':'VMulDefault'}];"
        "tr=tc.traced_run(nodes,'NoData',{},detail='hash');"
        "print(json.dumps({'t0':tr.t0,'t1':tr.t1,'ts':[r.get('timestamp') or r.get('timing',{}).get('started_at') for r in tr.records]}))"
    )
    for tz in TZS:
        p = subprocess.run([sys.executable, "-c", code], env=boot.child_env({"TZ": tz}), capture_output=True, text=True, timeout=120)
        run.count("fresh_process_tz_runs")
        try:
            out = json.loads(p.stdout.strip().splitlines()[-1])
        except Exception:
            run.note_inconclusive(f"fresh-process TZ run produced no output: {p.stderr[-300:]}")
            continue
        for ts in out["ts"]:
            t = parse_utc(ts) if isinstance(ts, str) else None
            if t is None or not (out["t0"] - 0.003 <= t <= out["t1"] + 0.003):
                run.violation("timestamp_not_true_utc_instant", f"fresh process with TZ={tz}: {ts!r} is not the true UTC instant", {"tz": tz, "out": out})


def replay(run, witness):
    boot.boot()
    scratch = tempfile.mkdtemp(prefix="verif-c07-")
    try:
        case = {"nodes": witness["nodes"], "ctx": witness["ctx"], "data": witness["data"]}
        check_case(run, case, witness["detail"], witness["tz"], scratch, {})
        run.case(case, True, sample=case)
        run.case("replay-second-slot", True)
    finally:
        boot.set_tz("UTC")
        shutil.rmtree(scratch, ignore_errors=True)
