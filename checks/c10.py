"""C10 — tracing is purely observational and traces are reproducible.

(1) Same configuration and payload with trace=None vs trace=JsonlTraceDriver(detail=d): identical returned
    data/context or identical raised exception (type, message).  Hostile payload values (hooks __repr__/__len__/
    to_json/to_bytes/__eq__ that count calls, mutate a private counter, or raise) are part of the workload.
(2) Two runs of the same configuration/payload give identical traces after removing the documented volatile
    fields (run id, timestamps, durations, sequence numbers), for fresh and reused Pipeline objects, with
    histories of unrelated runs in between.
"""
from __future__ import annotations

import os
import shutil
import tempfile

from vlib import boot

LEVEL = "exploration"
RULE = ("C01 generator (succeeding and failing) with hostile values injected into data/context x detail levels x "
        "{fresh Pipeline per run, one reused Pipeline} x histories of 0..6 unrelated runs in between; distinct = hash of "
        "(nodes, ctx, data, detail); non-trivial = >= 2 nodes and both the observational and the reproducibility "
        "comparison were made")
SHARDS = {"quick": 8, "thorough": 48}
SHARD_TIMEOUT = {"quick": 600, "thorough": 3000}
N_CASES = {"quick": 60, "thorough": 90}
DETAILS = ["all", "hash", "repr", "context", "repr,context"]


class Hostile:
    """Context value whose summary hooks count calls, mutate a private counter, or raise."""

    calls = 0

    def __init__(self, token: str, mode: str):
        self.token, self.mode = token, mode
        self._n = 0

    def _hit(self, hook):
        Hostile.calls += 1
        self._n += 1
        if self.mode == f"raise_{hook}" or self.mode == "raise_all":
            raise RuntimeError(f"hostile {hook}")

    def __repr__(self):
        self._hit("repr")
        return f"Hostile({self.token})"

    def __len__(self):
        self._hit("len")
        return 3

    def to_json(self):
        self._hit("to_json")
        return {"token": self.token}

    def to_bytes(self):
        self._hit("to_bytes")
        return self.token.encode()

    def __eq__(self, other):
        self._hit("eq")
        return isinstance(other, Hostile) and other.token == self.token

    __hash__ = None


class HFloat(float):
    """float whose __repr__ counts calls (data values must be floats for FloatDataType)."""

    reprs = 0

    def __repr__(self):
        HFloat.reprs += 1
        return float.__repr__(self)


MODES = ["count", "raise_repr", "raise_len", "raise_to_json", "raise_to_bytes", "raise_eq", "raise_all"]


def _plainh(v):
    from vlib import account

    if isinstance(v, Hostile):
        return ("Hostile", v.token)
    import collections.abc as _abc

    if isinstance(v, _abc.Iterator):
        # a one-shot stream left in the context: what matters is what is still in it (drained here, after the run)
        rest = getattr(v, "_verif_rest", None)
        if rest is None:
            rest = [_plainh(x) for x in v]
            try:
                v._verif_rest = rest
            except AttributeError:
                pass
        return ("iterator", rest)
    if isinstance(v, dict):
        return {k: _plainh(x) for k, x in v.items()}
    if isinstance(v, (list, tuple)):
        return [_plainh(x) for x in v]
    return account.plain(v)


def outcome(rr, raw_ctx=None):
    if rr.stage == "build":
        return ("build_error", rr.exc_name, str(rr.exc))
    if rr.ok:
        return ("ok", rr.data, rr.ctx)
    return ("raise", rr.exc_name, str(rr.exc))


def _safe(o):
    """repr of an outcome that never calls a hostile hook."""
    try:
        return repr(tuple(_plainh(x) for x in o))[:600]
    except Exception as exc:  # pragma: no cover
        return f"<unrepresentable outcome: {type(exc).__name__}>"


def same(a, b):
    from vlib import account

    if a[0] != b[0]:
        return False
    if a[0] == "ok":
        return account.close(_plainh(a[1]), _plainh(b[1])) and account.close(_plainh(a[2]), _plainh(b[2]))
    return a[1:] == b[1:]


def inject_hostile(case, g):
    """Returns ctx with hostile objects and the initial data (possibly an HFloat)."""
    ctx = dict(case["ctx"])
    n = g.rng.randint(0, 2)
    for j in range(n):
        ctx[f"hostile{j}"] = ("__hostile__", g.rng.choice(MODES), f"t{j}")
    if n == 2 and g.chance(0.6):
        # a node REPLACES an existing key by a distinct object: the delta collector must compare old and new value
        same_token = g.chance(0.5)
        if same_token:
            ctx["hostile1"] = ("__hostile__", ctx["hostile1"][1], "t0")
        case["nodes"] = [{"processor": "rename:hostile0:hostile1"}] + list(case["nodes"])
    return ctx


def materialise(ctx):
    out = {}
    for k, v in ctx.items():
        if isinstance(v, tuple) and v and v[0] == "__hostile__":
            out[k] = Hostile(v[2], v[1])
        elif isinstance(v, tuple) and v and v[0] == "__iter__":
            out[k] = iter(list(v[1]))          # a fresh one-shot iterator for every run
        else:
            out[k] = v
    return out


def inject_stream_or_rng(case, g):
    """Two resources a run may legitimately use and a tracer must not touch: a one-shot iterator travelling through the
    context (from the initial context, or made by node k for node k+1), and the process-wide random generators."""
    r = g.rng.random()
    nodes = list(case["nodes"])
    pos = g.rng.randint(0, len(nodes))
    if r < 0.4:
        case["ctx"]["items"] = ("__iter__", [g.val() for _ in range(g.rng.randint(1, 4))])
        nodes.insert(pos, {"processor": "VCtxIterSum"})
        case["one_shot"] = True
    elif r < 0.7:
        nodes[pos:pos] = [{"processor": "VCtxMakeIter", "parameters": {"n": g.rng.randint(1, 4)}}, {"processor": "VCtxIterSum"}]
        case["one_shot"] = True
    else:
        nodes.insert(pos, {"processor": "VCtxRandom"})
        case["uses_rng"] = True
    case["nodes"] = nodes


def near_twin(nodes, g):
    """The same pipeline with every sweep expression's + / * operands permuted (or, without such an expression, None)."""
    import copy

    from vlib import rewrite as rw

    twin = copy.deepcopy(nodes)
    changed = False
    for n in twin:
        blk = (n.get("derive") or {}).get("parameter_sweep") if isinstance(n.get("derive"), dict) else None
        if not isinstance(blk, dict):
            continue
        for p, src in list((blk.get("parameters") or {}).items()):
            if isinstance(src, str):
                try:
                    new = rw.permute_expr(src, g.rng)
                except SyntaxError:
                    new = None
                if new and new != src:
                    blk["parameters"][p] = new
                    changed = True
    return twin if changed else None


def check_case(run, case, detail, history, g, scratch):
    from vlib import account, refmodel as rm, tracecheck as tc

    nodes, data = case["nodes"], case["data"]
    ctx_spec = case["ctx"]
    witness = {"nodes": nodes, "ctx": {k: (list(v) if isinstance(v, tuple) else v) for k, v in ctx_spec.items()}, "data": data, "detail": detail,
               "one_shot": bool(case.get("one_shot")), "uses_rng": bool(case.get("uses_rng"))}

    def reseed():
        # the caller seeds the process-wide generators before every run (as a reproducible study would)
        import random

        import numpy as np

        random.seed(20261004)
        np.random.seed(20261004)

    def real(trace_detail=None, pipeline=None):
        ctx = materialise(ctx_spec)
        d = data
        reseed()
        if trace_detail is None:
            r = account.real_run(nodes, d, ctx, scratch=scratch, pipeline=pipeline)
            return r, None
        tr = tc.traced_run(nodes, d, ctx, detail=trace_detail, mode="file", scratch=scratch, pipeline=pipeline)
        recs = tr.records
        shutil.rmtree(tr.tdir, ignore_errors=True)
        return tr.real, recs

    # ---- (1) observational
    base, _ = real(None)
    run.count("untraced_runs")
    traced, recs1 = real(detail)
    run.count("traced_runs")
    if not same(outcome(base), outcome(traced)):
        kind = f"{outcome(base)[0]}_vs_{outcome(traced)[0]}"
        hostile = sorted({v[1] for v in ctx_spec.values() if isinstance(v, tuple) and v and v[0] == "__hostile__"})
        run.violation(f"tracing_changes_outcome:{kind}" + (":with_hostile_values" if hostile else ""),
                      f"untraced run {outcome(base)[:2]} but traced run (detail={detail}) {outcome(traced)[:2]}",
                      dict(witness, untraced=_safe(outcome(base)), traced=_safe(outcome(traced))))
    if case.get("one_shot"):
        # an iterator object has an address-bearing default repr: its summaries legitimately differ from run to run,
        # only the observational comparison applies
        run.count("one_shot_iterator_cases")
        return
    # ---- (2) reproducibility: fresh pipelines, with a history in between
    for hi, h in enumerate(history):
        if hi % 2 == 0:
            # traced history runs at OTHER detail levels (drivers are separate objects; their settings must not leak)
            others = [d for d in DETAILS if d != detail and d != "all"] or ["repr"]
            other = others[(hi // 2) % len(others)]
            htr = tc.traced_run(h["nodes"], h["data"], h["ctx"], detail=other, mode="file", scratch=scratch)
            shutil.rmtree(htr.tdir, ignore_errors=True)
            run.count("history_runs_traced_other_detail")
        else:
            account.real_run(h["nodes"], h["data"], h["ctx"], scratch=scratch)
        run.count("history_runs")
    # a NEAR TWIN of this configuration is traced in between: the same pipeline with the operands of + / * in its sweep
    # expressions permuted (same signature, other text) and, separately, with another value of one node parameter
    twin = near_twin(nodes, g)
    if twin is not None:
        ttr = tc.traced_run(twin, data, materialise(ctx_spec), detail=detail, mode="file", scratch=scratch)
        shutil.rmtree(ttr.tdir, ignore_errors=True)
        run.count("history_runs_near_twin")
    traced2, recs2 = real(detail)
    n1 = [tc.normalise(r) for r in recs1 or []]
    n2 = [tc.normalise(r) for r in recs2 or []]
    run.count("trace_pairs_compared")
    run.count("records_compared", len(n1))
    if n1 != n2:
        diff = first_diff(n1, n2)
        run.violation(f"trace_not_reproducible_fresh_pipeline:{diff[0]}", f"two runs of the same configuration differ after normalisation at {diff[1]}",
                      dict(witness, history=len(history), difference=diff))
    # ---- reused Pipeline object run twice (plus a history in between)
    try:
        pipe = account.build_pipeline(nodes)
    except Exception:
        return
    # one trace driver shared by both runs (directory mode: one file per run), as a long-lived Pipeline would have
    from semantiva.trace.drivers.jsonl import JsonlTraceDriver
    import tempfile as _tf

    shared_dir = _tf.mkdtemp(prefix="shared-driver-", dir=scratch)
    shared = JsonlTraceDriver(shared_dir, detail=detail)

    def real_shared():
        before = set(os.listdir(shared_dir))
        reseed()
        pipe.trace = shared
        r = account.real_run(nodes, data, materialise(ctx_spec), scratch=scratch, pipeline=pipe, trace=shared)
        new = sorted(set(os.listdir(shared_dir)) - before)
        recs = []
        for f in new:
            recs += tc.load_file(os.path.join(shared_dir, f))[0]
        return r, recs

    r1, ra = real_shared()
    for h in history[:2]:
        account.real_run(h["nodes"], h["data"], h["ctx"], scratch=scratch)
    r2, rb = real_shared()
    shutil.rmtree(shared_dir, ignore_errors=True)
    run.count("reused_pipeline_pairs")
    if not same(outcome(r1), outcome(r2)):
        run.violation("reused_pipeline_outcome_differs", f"run 1 {outcome(r1)[:2]} vs run 2 {outcome(r2)[:2]} of one Pipeline object",
                      dict(witness, first=_safe(outcome(r1)), second=_safe(outcome(r2))))
    na = [tc.normalise(r) for r in ra or []]
    nb = [tc.normalise(r) for r in rb or []]
    if na != nb:
        diff = first_diff(na, nb)
        sweep = any(isinstance(n.get("derive"), dict) for n in nodes)
        run.violation(f"trace_not_reproducible_reused_pipeline:{diff[0]}" + (":sweep_node" if sweep else ""),
                      f"run 1 and run 2 of one reused Pipeline differ after normalisation at {diff[1]}",
                      dict(witness, difference=diff))
    # ---- "regardless of what ran before": the same payload B on a fresh Pipeline vs on a Pipeline object that
    # first processed a DIFFERENT payload A (same configuration; B adds context keys named like defaulted parameters)
    extra = {k: 1.25 for k in ("factor", "addend", "scale", "k", "b", "tag", "offset", "start", "seed") if k not in ctx_spec}
    ctx_b = dict(ctx_spec, **extra)

    def run_b(pipeline):
        reseed()
        tr = tc.traced_run(nodes, data, materialise(ctx_b), detail=detail, mode="file", scratch=scratch, pipeline=pipeline)
        recs = [tc.normalise(r) for r in tr.records]
        shutil.rmtree(tr.tdir, ignore_errors=True)
        return tr.real, recs

    try:
        fresh_b_real, fresh_b = run_b(None)
        pipe2 = account.build_pipeline(nodes)
        real(detail, pipeline=pipe2)                      # payload A first
        reused_b_real, reused_b = run_b(pipe2)            # then payload B on the same object
        run.count("other_payload_history_pairs")
        if not same(outcome(fresh_b_real), outcome(reused_b_real)):
            run.violation("outcome_depends_on_earlier_payload_on_same_pipeline",
                          f"payload B: fresh Pipeline {outcome(fresh_b_real)[:2]} vs Pipeline that processed payload A before {outcome(reused_b_real)[:2]}",
                          dict(witness, ctx_b=repr(sorted(extra))))
        elif fresh_b != reused_b:
            diff = first_diff(fresh_b, reused_b)
            run.violation(f"trace_depends_on_earlier_payload_on_same_pipeline:{diff[0]}",
                          f"trace of payload B differs between a fresh Pipeline and one that processed payload A before, at {diff[1]}",
                          dict(witness, extra_context_keys=sorted(extra), difference=diff))
    except Exception as exc:  # pragma: no cover - harness guard
        run.count(f"other_payload_history_skipped_{type(exc).__name__}")
    if na and n1 and na != n1:
        diff = first_diff(n1, na)
        run.violation(f"trace_differs_fresh_vs_reused_pipeline:{diff[0]}", f"fresh Pipeline vs first run of a reused Pipeline differ at {diff[1]}",
                      dict(witness, difference=diff))


def inplace_reuse_case(run, g, detail, scratch, fixed=None):
    """A caller that keeps ONE data object: runs a long-lived traced Pipeline on it, changes the object's value in place,
    runs again.  The trace of the second run must be the trace a fresh Pipeline writes for a fresh object holding that
    value (what a record says about the data is a function of the run, not of what the orchestrator saw before)."""
    from semantiva.context_processors.context_types import ContextType
    from semantiva.examples.test_utils import FloatDataType
    from semantiva.pipeline.payload import Payload
    from semantiva.trace.drivers.jsonl import JsonlTraceDriver
    from vlib import account, tracecheck as tc

    passthrough = [{"processor": "VValueProbe", "context_key": "seen"}, {"processor": "rename:tag:label"},
                   {"processor": "VValueProbe", "context_key": "seen2"}, {"processor": "delete:junk"}]
    head = [] if g.chance(0.6) else [{"processor": "VAddDefault"}]
    nodes = head + g.rng.sample(passthrough, g.rng.randint(1, 3))
    v1, v2 = g.val(), g.val() + 1.75
    if fixed is not None:
        nodes, v1, v2 = fixed
    ctx = {"tag": 1.0, "junk": 0.0}

    def traced(pipe, obj):
        d = tempfile.mkdtemp(prefix="inplace-", dir=scratch)
        pipe.trace = JsonlTraceDriver(os.path.join(d, "t.ser.jsonl"), detail=detail)
        try:
            pipe.process(Payload(obj, ContextType(dict(ctx))))
            ok = True
        except Exception:
            ok = False
        recs = [tc.normalise(r) for r in tc.load_file(os.path.join(d, "t.ser.jsonl"))[0]]
        shutil.rmtree(d, ignore_errors=True)
        return ok, recs

    try:
        pipe = account.build_pipeline(nodes)
        obj = FloatDataType(v1)
        traced(pipe, obj)
        obj.data = v2
        reused = traced(pipe, obj)
        fresh = traced(account.build_pipeline(nodes), FloatDataType(v2))
    except Exception as exc:  # pragma: no cover - harness guard
        run.count(f"inplace_reuse_skipped_{type(exc).__name__}")
        return
    run.count("inplace_reuse_pairs")
    if reused != fresh:
        diff = first_diff(fresh[1], reused[1]) if reused[0] == fresh[0] else ("outcome", "outcome")
        run.violation(f"trace_depends_on_earlier_run_with_same_data_object:{diff[0]}",
                      f"second run on a caller-owned data object changed in place ({v1} -> {v2}) differs from a fresh Pipeline on a fresh object at {diff[1]}",
                      {"kind": "inplace_reuse", "nodes": nodes, "detail": detail, "v1": v1, "v2": v2, "difference": diff})


def first_diff(a, b):
    """-> (mechanism field path without values, human description)"""
    if len(a) != len(b):
        return ("record_count", f"{len(a)} vs {len(b)} records")
    for i, (x, y) in enumerate(zip(a, b)):
        if x != y:
            path = _path_diff(x, y)
            return (f"{x.get('record_type')}.{path}", f"record {i} ({x.get('record_type')}) field {path}: {_get(x, path)!r:.200} vs {_get(y, path)!r:.200}")
    return ("none", "")


def _path_diff(x, y, prefix=""):
    if isinstance(x, dict) and isinstance(y, dict):
        for k in sorted(set(x) | set(y)):
            if x.get(k) != y.get(k):
                sub = _path_diff(x.get(k), y.get(k), k)
                # keep the path generic: stop at the second level (no uuids / values in keys)
                return k if prefix else (f"{k}.{sub}" if sub and not _looks_like_id(sub) else k)
        return prefix
    return ""


def _looks_like_id(s):
    return len(s) > 30 or s.count("-") >= 4


def _get(x, path):
    cur = x
    for p in path.split("."):
        if isinstance(cur, dict):
            cur = cur.get(p)
    return cur


CHILD_CODE = "import sys; sys.path.insert(0, {verif!r}); from checks import c10; c10.child_main(sys.argv[1], sys.argv[2], sys.argv[3])"


def _from_json_ctx(ctx):
    return {k: (tuple(v) if isinstance(v, list) and v and v[0] in ("__hostile__", "__iter__") else v) for k, v in ctx.items()}


def _jsonable(x) -> bool:
    import json

    try:
        return json.loads(json.dumps(x)) is not None
    except Exception:
        return False


def child_main(spec_path, out_path, order):
    """Fresh interpreter: trace the listed configurations in the given order -> normalised traces of the 'b' items."""
    import json

    boot.boot()
    from vlib import tracecheck as tc

    with open(spec_path, encoding="utf-8") as fh:
        pairs = json.load(fh)
    scratch = tempfile.mkdtemp(prefix="verif-c10-child-")
    out = {}
    try:
        for i, p in enumerate(pairs):
            todo = [("a", p["twin"]), ("b", p["nodes"])] if order == "twin_first" else [("b", p["nodes"])]
            for tag, nodes in todo:
                tr = tc.traced_run(nodes, p["data"], materialise(_from_json_ctx(p["ctx"])), detail=p["detail"], mode="file", scratch=scratch)
                if tag == "b":
                    out[str(i)] = [tc.normalise(r) for r in tr.records]
                shutil.rmtree(tr.tdir, ignore_errors=True)
    finally:
        shutil.rmtree(scratch, ignore_errors=True)
    with open(out_path, "w", encoding="utf-8") as fh:
        json.dump(out, fh, default=repr)


def twin_history_in_fresh_processes(run, pairs, scratch):
    """'Regardless of what ran before in the process': configuration B traced in a fresh interpreter vs in a fresh
    interpreter that first traced B's near twin A (same pipeline, + / * operands of the sweep expressions permuted)."""
    import json
    import subprocess
    import sys

    if not pairs:
        return
    spec = os.path.join(scratch, "twin-pairs.json")
    with open(spec, "w", encoding="utf-8") as fh:
        json.dump(pairs, fh, default=repr)
    outs = {}
    procs = []
    for order in ("alone", "twin_first"):
        outp = os.path.join(scratch, f"twin-{order}.json")
        # the two interpreters also differ in their string-hash seed: a trace must not depend on set / dict-of-str order
        procs.append((order, outp, subprocess.Popen([sys.executable, "-c", CHILD_CODE.format(verif=boot.VERIF_DIR), spec, outp, order],
                                                    env=boot.child_env({"PYTHONHASHSEED": "0" if order == "alone" else "4242"}), cwd=scratch,
                                                    stdout=subprocess.PIPE, stderr=subprocess.STDOUT)))
    for order, outp, p in procs:
        try:
            log, _ = p.communicate(timeout=300)
        except subprocess.TimeoutExpired:
            p.kill()
            run.note_inconclusive("a near-twin child process timed out")
            return
        if not os.path.exists(outp):
            run.count("near_twin_child_failed")
            run.info["near_twin_child_log"] = (log or b"").decode("utf-8", "replace")[-400:]
            return
        with open(outp, encoding="utf-8") as fh:
            outs[order] = json.load(fh)
    for i, p in enumerate(pairs):
        a, b = outs["alone"].get(str(i)), outs["twin_first"].get(str(i))
        if a is None or b is None:
            continue
        run.count("near_twin_fresh_process_pairs")
        if a != b:
            diff = first_diff(a, b)
            run.violation(f"trace_depends_on_near_twin_traced_before:{diff[0]}",
                          f"the trace of a configuration differs between a fresh process and a fresh process that first traced its near twin "
                          f"(sweep expression operands permuted), at {diff[1]}",
                          {"nodes": p["nodes"], "twin": p["twin"], "ctx": p["ctx"], "data": p["data"], "detail": p["detail"], "difference": diff,
                           "kind": "near_twin"})


def launch_observational(run, g, scratch, k):
    """A run-space launch through the CLI: untraced vs traced into ONE FILE vs traced into a DIRECTORY - same exit code,
    same sink files.  (The lifecycle records of a launch go through driver code that single runs never touch.)"""
    from vlib import cli

    fail_at = [None, 1, None, 0][k % 4]
    case = cli.launch_case(g, fail_at=fail_at, n_runs=g.rng.randint(2, 4))
    outcomes = {}
    for variant in ("untraced", "file", "dir"):
        wd = tempfile.mkdtemp(prefix=f"launch-{variant}-", dir=scratch)
        if variant == "untraced":
            ypath = os.path.join(wd, "launch.yaml")
            cli.write_yaml(ypath, case["nodes"], case.get("run_space"), None)
            res = cli.run_cli(["run", ypath, "-q"], cwd=wd)
        else:
            res = cli.run_launch(case, wd, trace_mode=variant, detail=DETAILS[k % len(DETAILS)])["res"]
        sinks = {}
        for root, _d, files in os.walk(wd):
            for f in files:
                if f.endswith(".txt"):
                    with open(os.path.join(root, f), encoding="utf-8", errors="replace") as fh:
                        sinks[f] = fh.read()
        outcomes[variant] = (res.rc, sinks)
        shutil.rmtree(wd, ignore_errors=True)
    run.count("launch_observational_triples")
    for variant in ("file", "dir"):
        if outcomes[variant] != outcomes["untraced"]:
            run.violation(f"tracing_changes_launch_outcome:{variant}_output",
                          f"run-space launch: untraced exit code / sink files {outcomes['untraced'][0]!r} / {sorted(outcomes['untraced'][1])} but traced "
                          f"({variant} output) {outcomes[variant][0]!r} / {sorted(outcomes[variant][1])}",
                          {"kind": "launch", "nodes": case["nodes"], "run_space": case["run_space"], "first_fail": case["first_fail"],
                           "untraced": repr(outcomes["untraced"])[:400], "traced": repr(outcomes[variant])[:400], "output": variant})


def run(run):
    boot.boot()
    from vlib import gen
    from vlib.verdict import canon_hash

    seed = run.seed * 1000 + run.shard[0]
    scratch = tempfile.mkdtemp(prefix="verif-c10-")
    g = gen.Gen(seed, scratch)
    hg = gen.Gen(seed + 17, scratch)
    twin_pairs: list = []
    try:
        for i in range(N_CASES[run.tier]):
            case = g.pipeline(max_len=6, fault_bias=0.3) if i % 4 else gen.sweep_case(g)
            case = dict(case)
            case["ctx"] = inject_hostile(case, g)
            if isinstance(case["data"], float) and g.chance(0.5):
                case["data"] = HFloat(case["data"])
            if i % 3 == 2:      # coprime with the rotation of detail levels
                inject_stream_or_rng(case, g)
                run.count("cases_with_stream_or_rng")
            if i % 4 == 1:
                ex = gen.add_exotic_parameter(case, g)
                case["nodes"], case["ctx"] = ex["nodes"], ex["ctx"]
                run.count("cases_with_exotic_parameter_value")
            history = [hg.pipeline(max_len=4, fault_bias=0.2) for _ in range(g.rng.randint(1, 6 if run.tier == "quick" else 10))]
            details = [DETAILS[i % len(DETAILS)]] if run.tier == "quick" else DETAILS[:3]
            if not case.get("one_shot") and not case.get("uses_rng") and len(twin_pairs) < 4 and not isinstance(case["data"], HFloat) \
                    and _jsonable([case["nodes"], case["ctx"], case["data"]]):
                tw = near_twin(case["nodes"], g)
                if tw is not None:
                    twin_pairs.append({"nodes": case["nodes"], "twin": tw, "data": case["data"], "detail": DETAILS[i % len(DETAILS)],
                                       "ctx": {k: (list(v) if isinstance(v, tuple) else v) for k, v in case["ctx"].items()}})
            for detail in details:
                check_case(run, case, detail, history, g, scratch)
                inplace_reuse_case(run, g, detail, scratch)
                run.case(canon_hash([case["nodes"], repr(case["ctx"]), case["data"], detail]), len(case["nodes"]) >= 2,
                         sample={"nodes": case["nodes"], "ctx": repr(case["ctx"]), "data": case["data"], "detail": detail, "history": len(history)}
                         if run.evaluations < 3 else None)
        if run.shard[0] % 4 == 0:
            twin_history_in_fresh_processes(run, twin_pairs, scratch)
        for k in range(2):
            launch_observational(run, g, scratch, k + 2 * run.shard[0])
        run.count("hostile_hook_calls", Hostile.calls)
        run.count("hfloat_repr_calls", HFloat.reprs)
    finally:
        shutil.rmtree(scratch, ignore_errors=True)
    run.floor("traced_runs", 30)
    run.floor("trace_pairs_compared", 30)
    run.floor("reused_pipeline_pairs", 20)
    run.floor("inplace_reuse_pairs", 20)
    run.floor("hostile_hook_calls", 10)
    run.assumptions += ["volatile fields removed before comparison: run id, timestamps, SER timing, sequence numbers (vlib.tracecheck.normalise)",
                        "histories never load further modules/extensions (the environment pin registry.fingerprint legitimately tracks the registry)"]


def replay(run, witness):
    boot.boot()
    from vlib import gen

    scratch = tempfile.mkdtemp(prefix="verif-c10-")
    try:
        g = gen.Gen(run.seed, scratch)
        if witness.get("kind") == "near_twin":
            twin_history_in_fresh_processes(run, [{k: witness[k] for k in ("nodes", "twin", "ctx", "data", "detail")}], scratch)
            run.case(witness["nodes"], True, sample=witness["nodes"])
            run.case("replay-second-slot", True)
            return
        if witness.get("kind") == "inplace_reuse":
            inplace_reuse_case(run, g, witness["detail"], scratch, fixed=(witness["nodes"], witness["v1"], witness["v2"]))
            run.case(witness["nodes"], True, sample=witness["nodes"])
            run.case("replay-second-slot", True)
            return
        case = {"nodes": witness["nodes"], "data": witness["data"],
                "ctx": {k: (tuple(v) if isinstance(v, list) and v and v[0] in ("__hostile__", "__iter__") else v) for k, v in witness["ctx"].items()},
                "one_shot": witness.get("one_shot", False), "uses_rng": witness.get("uses_rng", False)}
        check_case(run, case, witness["detail"], [], g, scratch)
        run.case(witness["nodes"], True, sample=witness["nodes"])
        run.case("replay-second-slot", True)
    finally:
        shutil.rmtree(scratch, ignore_errors=True)
