"""C06 — every run leaves a well-formed, schema-valid trace, whatever node fails.

Fault enumeration: generated pipelines x every node index as failure point x failure kinds {processor exception,
unresolvable parameter, type gate, undeclared context write, construction error (unknown parameter; probe
without context key), KeyboardInterrupt-class abort} x detail levels x file/directory output.  Thorough adds
source-free failpoints: a sys.monitoring LINE callback raises an injected exception at the k-th line event inside
node-processing code, for k over the line events of a clean run.

Oracle: vlib.tracecheck lifecycle automaton + registry-dispatched schema validation + cross-field checks; file
state observed from outside (file read when the call returns/raises; /proc/self/fd scan); exception identity.
"""
from __future__ import annotations

import os
import shutil
import tempfile

from vlib import boot

LEVEL = "fault_enumeration"
RULE = ("base = generated pipeline accepted by the reference model (1..6 nodes); fault = (kind, position) inserted at every "
        "position; each faulty variant is run traced (detail x output mode rotated in quick, full cross in thorough); "
        "distinct = hash of (variant nodes, detail, mode); non-trivial = the variant fails (reference) at the intended kind, "
        "or is a clean run with >= 2 nodes")
SHARDS = {"quick": 8, "thorough": 48}
SHARD_TIMEOUT = {"quick": 600, "thorough": 3000}
N_BASES = {"quick": 16, "thorough": 12}   # per shard
DETAILS = ["hash", "repr", "context", "all", "hash,repr,context", "repr,context"]
MODES = ("file", "dir", "dotdir")        # one file / a directory to be created / an existing directory with a dotted name
KINDS = ["clean", "processor_exception", "unresolvable_param", "type_gate", "undeclared_write",
         "construction_unknown_param", "construction_probe_without_key", "abort", "wrong_output_type"]


def data_type_before(model_nodes, base_data, i):
    from vlib import refmodel as rm

    if i == 0:
        return rm.type_of(base_data)
    return rm.type_of(model_nodes[i - 1].data_out)


def variant(base, mtrace, kind, i, g):
    """Insert a fault of ``kind`` before position i of the base pipeline."""
    nodes = [dict(n) for n in base["nodes"]]
    t = data_type_before(mtrace, base["data"], i)
    alt = g.chance(0.5)
    if kind == "clean":
        return nodes
    if kind == "processor_exception":
        if t == "Float" and g.chance(0.35):
            # an exception class that is not "one message string" (UnicodeDecodeError, ExceptionGroup, OSError(errno, ..), ...)
            from vlib.components import ODD_EXCEPTION_KINDS

            f = {"processor": "VRaise", "parameters": {"exc": g.rng.choice(ODD_EXCEPTION_KINDS)}}
        else:
            f = {"processor": "VBoom"} if (t == "Float" and alt) else {"processor": "VCtxBoom"}
    elif kind == "unresolvable_param":
        f = {"processor": "VMul"} if (t == "Float" and alt and "factor" not in base["ctx"]) else {"processor": "rename:__no_such_key__:zz"}
    elif kind == "type_gate":
        f = {"processor": "VCollSum"} if t == "Float" else {"processor": "VMulDefault"}
    elif kind == "undeclared_write":
        f = {"processor": "VBadWriter"} if (t == "Float" and alt) else {"processor": "VCtxBadWriter"}
    elif kind == "construction_unknown_param":
        f = {"processor": "VMulDefault", "parameters": {"bogus_param": 1.0}}
    elif kind == "construction_probe_without_key":
        f = {"processor": "VValueProbe"}
    elif kind == "wrong_output_type":
        # a node that does NOT fail but returns another type than it declares (its output_type_ok postcondition is FAIL):
        # the run goes on until a later node's type gate, or returns when there is none
        if t != "Float":
            return None
        f = {"processor": "VBadType"}
    elif kind == "abort":
        f = {"processor": "VInterrupt"} if (t == "Float" and alt) else {"processor": "VCtxInterrupt"}
    else:
        raise ValueError(kind)
    return nodes[:i] + [f] + nodes[i:]


def check_variant(run, nodes, data, ctx, detail, mode, scratch, intended):
    from vlib import components, refmodel as rm, tracecheck as tc

    m = rm.run_pipeline(nodes, data, ctx)
    if m.dontcare:
        return None
    # every third failing run: the processor's message quotes an undecodable file name (lone surrogates), control characters
    _msg = "prebuilt boom" if (run.counters.get("traced_runs", 0) % 3) else "cannot read 'r\udce9sum\udcff.dat' \x00 \U0001f600"
    boom, abort = components.VBoomError(_msg), components.VAbort("prebuilt abort")
    components.PREBUILT["boom"], components.PREBUILT["abort"] = boom, abort
    odd = None
    for n in nodes:
        if n.get("processor") == "VRaise":
            odd = components.PREBUILT["odd"] = components._odd_exception((n.get("parameters") or {}).get("exc", "zero_division"))
    try:
        tr = tc.traced_run(nodes, data, ctx, detail=detail, mode=mode, scratch=scratch)
    finally:
        components.PREBUILT.clear()
    real = tr.real
    run.count("traced_runs")
    run.count("records_validated", len(tr.records))
    witness = {"nodes": nodes, "data": data, "ctx": ctx, "detail": detail, "mode": mode, "intended_fault": intended,
               "reference": {"ok": m.ok, "fail_index": m.fail_index, "fail_kind": m.fail_kind}}
    if real.stage == "build":
        run.count("build_rejected")
        return m
    if m.ok != real.ok:
        run.count("outcome_disagrees_with_reference")  # C01's business
        return m
    fk = "ok" if m.ok else (m.fail_kind + ("_" + str(m.fail_detail) if m.fail_kind in ("construction", "processor_error") else ""))
    run.count(f"outcome_{fk}")
    if m.ok:
        expect = len(nodes)
    elif m.fail_kind == "construction":
        expect = 0
    else:
        expect = m.fail_index + 1

    def viol(key, msg):
        where = "ok" if m.ok else ("construction" if m.fail_kind == "construction" else ("base_exception_abort" if m.fail_detail == "VAbort" else "node_failure"))
        run.violation(f"{key}@{where}", msg, dict(witness, types=[r.get("record_type") for r in tr.records],
                                                    exc=real.exc_name, files=[p.rsplit('/', 1)[-1] for p in tr.files]))

    for key, msg in tc.check_single_run_stream(tr.records, expect_sers=expect, returned=real.ok):
        viol(key, msg)
    for p in tr.problems:
        viol("trace_file_damaged", p)
    if tr.open_fds:
        viol("trace_file_left_open", f"descriptors still open into the trace directory after the call: {tr.open_fds}")
    if not real.ok:
        if m.fail_detail == "VBoomError" and real.exc is not boom:
            viol("exception_not_original", f"caller received {real.exc!r}, the component raised the pre-built {boom!r}")
        if odd is not None and m.fail_kind == "processor_error" and m.fail_detail == type(odd).__name__ and real.exc is not odd:
            viol("exception_not_original", f"caller received {real.exc!r}, the component raised the pre-built {odd!r}")
        if m.fail_detail == "VAbort" and real.exc is not abort:
            viol("exception_not_original", f"caller received {real.exc!r}, the component raised the pre-built {abort!r}")
    if mode in ("dir", "dotdir") and len(tr.files) != 1:
        viol("unexpected_trace_files", f"{len(tr.files)} trace files for a single run in directory mode")
    shutil.rmtree(tr.tdir, ignore_errors=True)
    return m


class TransportDown(RuntimeError):
    """Raised by the harness transport below."""


def check_transport_fault(run, base, k, detail, mode, scratch):
    """The run is stopped by the TRANSPORT: publish() of the output of node k raises (a network transport losing its
    link).  Nodes 0..k ran and succeeded: exactly k+1 SERs, all succeeded, in canonical order, one pipeline_end(error),
    the transport's own exception object reaches the caller, the file is flushed and closed."""
    import copy

    from semantiva.execution.transport.in_memory import InMemorySemantivaTransport
    from semantiva.pipeline.pipeline import Pipeline
    from vlib import tracecheck as tc

    boom = TransportDown("link lost")

    class Flaky(InMemorySemantivaTransport):
        def __init__(self):
            super().__init__()
            self.n = 0

        def publish(self, *a, **kw):
            self.n += 1
            if self.n == k + 1:
                raise boom
            return super().publish(*a, **kw)

    try:
        pipe = Pipeline(copy.deepcopy(base["nodes"]), transport=Flaky())
    except Exception:
        return
    tr = tc.traced_run(base["nodes"], base["data"], base["ctx"], detail=detail, mode=mode, scratch=scratch, pipeline=pipe)
    run.count("traced_runs")
    run.count("transport_fault_runs")
    run.count("records_validated", len(tr.records))
    witness = {"nodes": base["nodes"], "data": base["data"], "ctx": base["ctx"], "detail": detail, "mode": mode,
               "intended_fault": ["transport_fault", k], "types": [r.get("record_type") for r in tr.records]}
    if tr.real.ok:
        run.count("transport_fault_not_reached")     # fewer publishes than nodes: nothing to check
        shutil.rmtree(tr.tdir, ignore_errors=True)
        return
    for key, msg in tc.check_single_run_stream(tr.records, expect_sers=k + 1, returned=False, failing_node_has_ser=False):
        run.violation(f"{key}@transport_fault", msg, witness)
    for p in tr.problems:
        run.violation("trace_file_damaged@transport_fault", p, witness)
    if tr.open_fds:
        run.violation("trace_file_left_open@transport_fault", f"descriptors still open: {tr.open_fds}", witness)
    if tr.real.exc is not boom:
        run.violation("exception_not_original@transport_fault", f"caller received {tr.real.exc!r}, the transport raised {boom!r}", witness)
    shutil.rmtree(tr.tdir, ignore_errors=True)


def check_nested_shared_orchestrator(run, g, detail, scratch):
    """An outer pipeline whose middle node runs an inner pipeline through the SAME orchestrator object (own trace driver
    each): both traces must be well-formed on their own - every record of a run carries that run's ids."""
    from semantiva.execution.orchestrator.orchestrator import LocalSemantivaOrchestrator
    from semantiva.pipeline.pipeline import Pipeline
    from semantiva.trace.drivers.jsonl import JsonlTraceDriver
    from vlib import components, tracecheck as tc

    orch = LocalSemantivaOrchestrator()
    inner_dir = tempfile.mkdtemp(prefix="inner-", dir=scratch)
    components.NESTED.update(orchestrator=orch, trace=JsonlTraceDriver(os.path.join(inner_dir, "inner.ser.jsonl"), detail=detail))
    nodes = [{"processor": "VSrc", "parameters": {"value": g.val()}}, {"processor": "VAddDefault"}, {"processor": "VNestedRun"},
             {"processor": "VMulDefault"}, {"processor": "VValueProbe", "context_key": "seen"}]
    try:
        pipe = Pipeline(nodes, orchestrator=orch)
        tr = tc.traced_run(nodes, "NoData", {}, detail=detail, mode="file", scratch=scratch, pipeline=pipe)
    finally:
        components.NESTED.clear()
    run.count("traced_runs")
    run.count("nested_shared_orchestrator_runs")
    inner_files, _probs = tc.load_dir(inner_dir)
    inner = [r for p in sorted(inner_files) for r in inner_files[p]]
    witness = {"nodes": nodes, "detail": detail, "intended_fault": ["nested_run_same_orchestrator", 2],
               "outer_types": [r.get("record_type") for r in tr.records], "inner_types": [r.get("record_type") for r in inner]}
    if not tr.real.ok:
        run.count("nested_run_failed_" + str(tr.real.exc_name))
    else:
        for which, recs, n in (("outer", tr.records, len(nodes)), ("inner", inner, 2)):
            for key, msg in tc.check_single_run_stream(recs, expect_sers=n, returned=True):
                run.violation(f"{key}@nested_run_same_orchestrator", f"{which} trace: {msg}", witness)
    shutil.rmtree(tr.tdir, ignore_errors=True)
    shutil.rmtree(inner_dir, ignore_errors=True)


def run(run):
    boot.boot()
    from vlib import gen, refmodel as rm
    from vlib.verdict import canon_hash

    seed = run.seed * 1000 + run.shard[0]
    scratch = tempfile.mkdtemp(prefix="verif-c06-")
    g = gen.Gen(seed, scratch)
    thorough = run.tier == "thorough"
    combo = 0
    try:
        bases = 0
        attempts = 0
        while bases < N_BASES[run.tier] and attempts < 2000:
            attempts += 1
            base = g.pipeline(max_len=6, fault_bias=0.0)
            try:
                mb = rm.run_pipeline(base["nodes"], base["data"], base["ctx"])
            except rm.ConfigRejected:
                continue
            if not mb.ok or mb.dontcare:
                continue
            bases += 1
            if bases % 3 == 0 and rm.type_of(mb.data) == "Float":
                base = gen.add_exotic_parameter(base, g)     # a parameter value JSON cannot encode must not damage the trace
                mb = rm.run_pipeline(base["nodes"], base["data"], base["ctx"])
                run.count("bases_with_exotic_parameter_value")
            n = len(base["nodes"])
            if bases % 4 == 1:
                check_nested_shared_orchestrator(run, g, DETAILS[bases % len(DETAILS)], scratch)
            if bases % 2 == 0:
                for k in range(n):
                    check_transport_fault(run, base, k, DETAILS[(combo + k) % len(DETAILS)], MODES[k % 3], scratch)
            for i in range(n + 1):
                for kind in KINDS:
                    if kind == "clean" and i > 0:
                        continue
                    nodes = variant(base, mb.nodes, kind, i, g)
                    if nodes is None:
                        run.count("wrong_output_type_not_applicable_here")
                        continue
                    combos = ([(d, mo) for d in DETAILS for mo in MODES] if thorough and (i + bases) % 3 == 0
                              else [(DETAILS[combo % len(DETAILS)], MODES[(combo // len(DETAILS)) % 3])])
                    for detail, mode in combos:
                        combo += 1
                        m = check_variant(run, nodes, base["data"], base["ctx"], detail, mode, scratch, (kind, i))
                        if m is None:
                            continue
                        nontrivial = (not m.ok and m.fail_index == i) or (kind == "clean" and n >= 2)
                        run.case(canon_hash([nodes, base["ctx"], base["data"], detail, mode]), nontrivial,
                                 sample={"fault": [kind, i], "detail": detail, "mode": mode, "nodes": nodes,
                                         "reference_fail": [m.fail_index, m.fail_kind]} if run.evaluations < 3 else None)
                        run.count(f"kind_{kind}")
                        run.count(f"mode_{mode}")
            if thorough or bases % 8 == 1:
                from vlib import probes

                # source-free failpoints: every line event inside node-processing code (a sample of them in quick)
                probes.failpoint_sweep(run, base, scratch, check_stream=True, max_points=120 if thorough else 25)
    finally:
        shutil.rmtree(scratch, ignore_errors=True)
    run.floor("traced_runs", 100)
    run.floor("records_validated", 300)
    for k in ("outcome_processor_error_VBoomError", "outcome_unresolvable_param", "outcome_type_gate", "outcome_undeclared_write",
              "outcome_construction_unknown_param", "outcome_construction_probe_without_key", "outcome_processor_error_VAbort"):
        run.floor(k, 3)
    run.assumptions += ["faults injected inside the orchestrator's own emission code or the trace driver are not part of the property's failure kinds and are not generated",
                        "which node fails is taken from the reference model (tied to the real semantics by C01)"]


def replay(run, witness):
    boot.boot()
    scratch = tempfile.mkdtemp(prefix="verif-c06-")
    try:
        check_variant(run, witness["nodes"], witness["data"], witness["ctx"], witness["detail"], witness["mode"], scratch,
                      witness.get("intended_fault"))
        run.case(witness["nodes"], True, sample=witness["nodes"])
        run.case("replay-second-slot", True)
    finally:
        shutil.rmtree(scratch, ignore_errors=True)
