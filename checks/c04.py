"""C04 — configuration identities are pure functions of configuration meaning.

Oracle: EQUALITY of the *identity tuple* across executions that differ only in a meaning-preserving respect
(metamorphic; the hash itself is never modelled).  The identity tuple of one YAML text is observed on four paths:

  payload    build_inspection_payload(yaml.safe_load(text))          (whole JSON + its named identities)
  construct  Pipeline(load_pipeline_from_yaml(file).nodes): node_uuid[], compute_pipeline_id, semantic/config id
  trace      pipeline_start.{pipeline_id, meta.semantic_id, meta.config_id, meta.node_semantic_ids} of a traced run,
             and of a second run of the same (reused) Pipeline object
  inspect    the ID lines of ``semantiva inspect <file> --extended`` (in-process semantiva.cli.main, and real subprocesses)

Causes compared: every cosmetic rewriter of vlib.rewrite (each variant self-checked with a strict yaml.safe_load
comparison before use), in-process repeat, after a history of 1..20 unrelated pipelines built and executed, reused
Pipeline second run, fresh subprocesses differing in PYTHONHASHSEED / working directory / TZ, real
``semantiva inspect`` vs ``semantiva run`` subprocesses.  Violation key = "<identity>_differs:<cause>" or
"<path>_vs_<path>_differs:<identity>" — both parts computed by a deterministic classifier.
"""
from __future__ import annotations

import contextlib
import io
import json
import os
import random
import re
import shutil
import subprocess
import sys
import tempfile

from vlib import boot

LEVEL = "exploration"
RULE = ("seeded generator of configurations (generated pipelines, sweep-centred pipelines, sweeps with 2..3 from_context "
        "variables, nested list/mapping parameters, textually identical duplicate nodes, run_space blocks) x every applicable "
        "cosmetic rewriter of the YAML text (each variant self-checked: yaml.safe_load(variant) strictly equals the original "
        "modulo key order) x execution contexts {repeat, history of 1..20 other pipelines, reused Pipeline, fresh subprocesses "
        "with PYTHONHASHSEED 0/1/4242/random, two working directories, shifted TZ, real CLI subprocesses}; one case = one "
        "(configuration, cause) comparison of identity tuples over the four paths; distinct = hash of (document, cause, variant "
        "text); non-trivial = the configuration has >= 3 nodes or a sweep, and the two executions really differ (different "
        "text / later point in the process / other process)")
SHARDS = {"quick": 8, "thorough": 16}
SHARD_TIMEOUT = {"quick": 900, "thorough": 3000}
CHUNKS = {"quick": 1, "thorough": 8}                # per shard; each chunk of a thorough shard runs in a fresh interpreter
N_CONFIGS = {"quick": 16, "thorough": 16}           # per chunk
N_REWRITES = {"quick": 7, "thorough": 12}           # per configuration
N_SUBPROC_CONFIGS = {"quick": 2, "thorough": 2}     # per chunk; x 3 texts x 6 environments
N_CLI_SUBPROC = {"quick": 1, "thorough": 1}         # per chunk: real `semantiva inspect` + `semantiva run` pairs
ALWAYS = ("key_order_shuffled", "sweep_variables_reordered", "sweep_variables_reordered_from_context",
          "yaml_anchors_aliases", "sweep_expression_operands_permuted")
TZ_SHIFTED = "Pacific/Kiritimati"

_FIELD_RE = {
    "semantic_id": re.compile(r"^- Semantic ID:\s*(\S+)\s*$", re.M),
    "config_id": re.compile(r"^- Config ID:\s*(\S+)\s*$", re.M),
    "run_space_spec_id": re.compile(r"^- Run-Space Config ID:\s*(\S+)\s*$", re.M),
    "required_keys": re.compile(r"^Required Context Keys:\s*(.*?)\s*$", re.M),
}
_UUID_RE = re.compile(r"^\s+- UUID:\s*(\S*)\s*$", re.M)
_NSID_RE = re.compile(r"^\s+- Node Semantic ID:\s*(\S*)\s*$", re.M)


# =========================================================================== observation of one text
def parse_inspect_stdout(out: str) -> dict:
    got: dict = {}
    for k, rx in _FIELD_RE.items():
        m = rx.search(out)
        if m:
            got[k] = m.group(1)
    if "required_keys" in got:
        got["required_keys"] = [] if got["required_keys"] == "none" else [x.strip() for x in got["required_keys"].split(",")]
    if got.get("run_space_spec_id") == "none":
        got["run_space_spec_id"] = None
    got["node_uuid"] = _UUID_RE.findall(out)
    got["node_semantic_id"] = _NSID_RE.findall(out)
    return got


def run_cli(argv: list) -> tuple:
    """semantiva.cli.main in-process -> (exit code, stdout, stderr); the harness logger state is restored."""
    import semantiva.cli as cli

    out, err = io.StringIO(), io.StringIO()
    code = None
    with contextlib.redirect_stdout(out), contextlib.redirect_stderr(err):
        try:
            cli.main(argv)
        except SystemExit as exc:
            code = exc.code
    boot.silence()
    return code, out.getvalue(), err.getvalue()


def _start_fields(rec: dict) -> dict:
    meta = rec.get("meta") or {}
    canon = rec.get("pipeline_spec_canonical") or {}
    uuids = [n.get("node_uuid") for n in canon.get("nodes", [])]
    ns = meta.get("node_semantic_ids") or {}
    return {"pipeline_id": rec.get("pipeline_id"), "semantic_id": meta.get("semantic_id"), "config_id": meta.get("config_id"),
            "node_uuid": uuids, "node_semantic_id": [ns.get(u) for u in uuids],
            "node_semantic_id_keys": sorted(ns) == sorted(set(uuids))}


_SRC_RE = re.compile(r"^rs_src_(\d+)\.csv$")


def _write_run_space_sources(text: str, dirpath: str) -> None:
    """A run_space block may name a source file by a path RELATIVE to the configuration file; the generator only uses
    names of the form rs_src_<n>.csv, whose content (n rows of column rs_extra) is determined by the name."""
    import yaml

    try:
        doc = yaml.safe_load(text)
    except Exception:
        return
    spaces = [doc.get("run_space"), (doc.get("pipeline") or {}).get("run_space") if isinstance(doc.get("pipeline"), dict) else None]
    for rs in spaces:
        for blk in (rs or {}).get("blocks", []) if isinstance(rs, dict) else []:
            src = blk.get("source") if isinstance(blk, dict) else None
            name = src.get("path") if isinstance(src, dict) else None
            m = _SRC_RE.match(name) if isinstance(name, str) else None
            if m:
                with open(os.path.join(dirpath, name), "w", encoding="utf-8") as fh:
                    fh.write("rs_extra\n" + "".join(f"{1.5 + i}\n" for i in range(int(m.group(1)))))


def identity_tuple(text: str, scratch: str, ctx: dict, data, *, cli_run: bool = False) -> dict:
    """Flat {"<path>.<identity>": value}.  Raises when the configuration cannot be built at all."""
    import yaml
    from semantiva.configurations.load_pipeline_from_yaml import load_pipeline_from_yaml
    from semantiva.inspection import build_inspection_payload
    from semantiva.metadata.semantic_id import (compute_node_semantic_id, compute_pipeline_config_id,
                                                compute_pipeline_semantic_id)
    from semantiva.pipeline import Pipeline
    from semantiva.pipeline.graph_builder import compute_pipeline_id
    from semantiva.registry import resolve_symbol
    from vlib import tracecheck as tc

    T: dict = {}
    fd, path = tempfile.mkstemp(suffix=".yaml", prefix="cfg-", dir=scratch)
    with os.fdopen(fd, "w", encoding="utf-8") as fh:
        fh.write(text)
    _write_run_space_sources(text, os.path.dirname(path))
    # ---- path 1: inspection payload
    doc = yaml.safe_load(text)
    payload = json.loads(json.dumps(build_inspection_payload(doc), default=repr))
    pn = payload["pipeline_spec_canonical"]["nodes"]
    T["payload.semantic_id"] = payload["identity"]["semantic_id"]
    T["payload.config_id"] = payload["identity"]["config_id"]
    T["payload.run_space_spec_id"] = (payload["identity"].get("run_space") or {}).get("spec_id")
    T["payload.node_uuid"] = [n["uuid"] for n in pn]
    T["payload.node_semantic_id"] = [n["node_semantic_id"] for n in pn]
    T["payload.required_keys"] = payload["required_context_keys"]
    rest = json.loads(json.dumps(payload))
    rest["identity"]["semantic_id"] = rest["identity"]["config_id"] = None
    if isinstance(rest["identity"].get("run_space"), dict):
        rest["identity"]["run_space"]["spec_id"] = None
    rest["required_context_keys"] = None
    for n in rest["pipeline_spec_canonical"]["nodes"]:
        n["uuid"] = n["node_semantic_id"] = None
    T["payload.payload_other"] = rest
    T["payload.whole"] = payload
    # ---- path 2: Pipeline construction
    cfg = load_pipeline_from_yaml(path)
    pipe = Pipeline(cfg.nodes)
    canon = pipe.canonical_spec
    uuids = [n["node_uuid"] for n in canon["nodes"]]
    nsids = []
    for nd in pipe.resolved_spec:
        proc = nd.get("processor")
        cls = resolve_symbol(proc) if isinstance(proc, str) else proc
        try:
            pre = cls.get_metadata().get("preprocessor")
        except Exception:
            pre = None
        nsids.append(compute_node_semantic_id(pre) if isinstance(pre, dict) else "none")
    T["construct.node_uuid"] = uuids
    T["construct.pipeline_id"] = compute_pipeline_id(canon)
    # the pipeline semantic id is documented to include the sanitized sweep metadata: hash the canonical spec enriched with
    # the classes' preprocessor metadata (a copy - never the Pipeline's own spec), as inspection and the orchestrator both do
    enriched = {"version": canon.get("version"), "edges": canon.get("edges", []), "nodes": []}
    for nd, cn in zip(pipe.resolved_spec, canon["nodes"]):
        cn = dict(cn)
        proc = nd.get("processor")
        try:
            pre = (resolve_symbol(proc) if isinstance(proc, str) else proc).get_metadata().get("preprocessor")
        except Exception:
            pre = None
        if isinstance(pre, dict):
            cn["preprocessor_metadata"] = pre
        enriched["nodes"].append(cn)
    T["construct.semantic_id"] = compute_pipeline_semantic_id(enriched)
    T["construct.node_semantic_id"] = nsids
    T["construct.config_id"] = compute_pipeline_config_id(list(zip(uuids, nsids)))
    # ---- path 3: traced run, twice on the same Pipeline object
    # the driver's detail option selects how much summary a SER carries; the identities of pipeline_start do not depend on it
    import zlib

    h = zlib.crc32(text.encode("utf-8", "surrogatepass"))
    for j, tag in enumerate(("trace", "trace_run2")):
        detail = TRACE_DETAILS[(h + 2 * j) % len(TRACE_DETAILS)]
        T[f"{tag}.detail_option"] = detail
        tr = tc.traced_run(cfg.nodes, data, ctx, detail=detail, scratch=scratch, pipeline=pipe)
        starts = [r for r in tr.records if r.get("record_type") == "pipeline_start"]
        shutil.rmtree(tr.tdir, ignore_errors=True)
        if len(starts) != 1:
            T[f"{tag}.missing"] = f"{len(starts)} pipeline_start records (run stage={tr.real.stage} exc={tr.real.exc_name})"
            continue
        for k, v in _start_fields(starts[0]).items():
            T[f"{tag}.{k}"] = v
    # ---- path 4: semantiva inspect (in-process CLI)
    code, out, err = run_cli(["inspect", path, "--extended", "-q"])
    T["inspect.exit_code"] = code
    for k, v in parse_inspect_stdout(out).items():
        T[f"inspect.{k}"] = v
    if cli_run:
        T.update(cli_run_fields(path, ctx, scratch, bool(doc.get("run_space"))))
    os.unlink(path)
    return T


TRACE_DETAILS = ["hash", "repr", "all", "repr,context", None, "context"]


def cli_args_for(path: str, ctx: dict, out: str, has_run_space: bool) -> list:
    argv = ["run", path, "--trace.driver", "jsonl", "--trace.output", out, "-q"]
    d = TRACE_DETAILS[(os.path.getsize(path) + len(ctx)) % len(TRACE_DETAILS)]     # deterministic in the configuration text
    if d is not None:
        argv += ["--trace.option", f"detail={d}"]
    if not has_run_space:
        for k, v in ctx.items():
            argv += ["--context", f"{k}={json.dumps(v)}"]
    return argv


def read_starts(out: str) -> list:
    starts = []
    if os.path.exists(out):
        with open(out, encoding="utf-8") as fh:
            for line in fh:
                try:
                    r = json.loads(line)
                except Exception:
                    continue
                if r.get("record_type") == "pipeline_start":
                    starts.append(_start_fields(r))
    return starts


def cli_run_fields(path: str, ctx: dict, scratch: str, has_run_space: bool) -> dict:
    """``semantiva run`` in-process with a JSONL trace -> fields of every pipeline_start it wrote."""
    out = tempfile.mktemp(suffix=".jsonl", prefix="clirun-", dir=scratch)
    code, _o, err = run_cli(cli_args_for(path, ctx, out, has_run_space))
    T: dict = {"clirun.exit_code": code}
    for i, s in enumerate(read_starts(out)[:3]):
        for k, v in s.items():
            T[f"clirun{i + 1}.{k}"] = v
    if has_run_space and os.path.exists(out):
        with open(out, encoding="utf-8") as fh:
            for line in fh:
                try:
                    r = json.loads(line)
                except Exception:
                    continue
                if r.get("record_type") == "run_space_start":
                    T["clirun1.run_space_spec_id"] = r.get("run_space_spec_id")
                    break
    if os.path.exists(out):
        os.unlink(out)
    return T


# =========================================================================== comparison + classification
IDENTITIES = ("node_uuid", "pipeline_id", "semantic_id", "config_id", "node_semantic_id", "required_keys",
              "run_space_spec_id", "payload_other")
SKIP_FIELDS = {"payload.whole", "inspect.exit_code", "clirun.exit_code", "trace.detail_option", "trace_run2.detail_option"}
LATER_RUNS = {"trace_run2", "clirun2", "clirun3"}


def _norm(v):
    return json.dumps(v, sort_keys=True, default=repr)


def diff_tuples(a: dict, b: dict) -> dict:
    """{identity: [fields that differ]} between two observations of what should be the same configuration."""
    out: dict = {}
    for f in sorted(set(a) | set(b)):
        if f in SKIP_FIELDS:
            continue
        path, ident = f.split(".", 1)
        if path in LATER_RUNS:      # later runs of a reused Pipeline are compared with the first run of the same observation only
            continue
        if f not in a or f not in b:
            if ident == "missing" or path.startswith("clirun"):
                continue
            out.setdefault("observation_missing", []).append(f)
            continue
        if _norm(a[f]) != _norm(b[f]):
            out.setdefault(ident, []).append(f)
    if "payload.whole" in a and "payload.whole" in b and _norm(a["payload.whole"]) != _norm(b["payload.whole"]) \
            and not any(any(x.startswith("payload.") for x in fs) for fs in out.values()):
        out.setdefault("payload_other", []).append("payload.whole")
    return out


PATH_PAIRS = [("inspect", "trace"), ("payload", "trace"), ("construct", "trace"), ("inspect", "payload"),
              ("inspect", "clirun1"), ("payload", "clirun1")]


def consistency(T: dict) -> list:
    """[(key, what)] disagreements between the paths of ONE observation."""
    out = []
    for pa, pb in PATH_PAIRS:
        for ident in IDENTITIES:
            fa, fb = f"{pa}.{ident}", f"{pb}.{ident}"
            if fa in T and fb in T and _norm(T[fa]) != _norm(T[fb]):
                name = {"clirun1": "trace"}.get(pb, pb)
                out.append((f"{pa}_vs_{name}_differs:{ident}", f"{fa}={T[fa]!r} but {fb}={T[fb]!r}"))
    for f in ("payload.required_keys", "inspect.required_keys"):
        if f in T and list(T[f]) != sorted(T[f]):
            out.append(("required_keys_not_sorted", f"{f}={T[f]!r} is not in sorted order"))
    for tag in ("trace", "clirun1"):
        if T.get(f"{tag}.node_semantic_id_keys") is False:
            out.append((f"{tag}_node_semantic_ids_keys_not_node_uuids", "meta.node_semantic_ids is not keyed by exactly the canonical node UUIDs"))
    # a reused Pipeline object: second run (API) / later runs of a run-space launch (CLI)
    for first, later in (("trace", "trace_run2"), ("clirun1", "clirun2"), ("clirun1", "clirun3")):
        for ident in ("pipeline_id", "semantic_id", "config_id", "node_uuid", "node_semantic_id"):
            fa, fb = f"{first}.{ident}", f"{later}.{ident}"
            if fa in T and fb in T and _norm(T[fa]) != _norm(T[fb]):
                out.append((f"{ident}_differs:reused_pipeline_second_run", f"{fa}={T[fa]!r} but {fb}={T[fb]!r}"))
    return out


def _slim(T: dict) -> dict:
    return {k: v for k, v in T.items() if k not in ("payload.whole", "payload.payload_other")}


def violation(run, key: str, what: str, witness) -> None:
    """run.violation with one replay file per mechanism key and shard (every hit is still counted)."""
    cap = 1 if run.shard[1] > 1 else 3
    if key in run.known or run.viol_keys[key] < cap:
        run.violation(key, what, witness)
    else:
        run.counters["violations_total"] += 1
        run.counters["violations_unlisted"] += 1
        run.viol_keys[key] += 1


def report_diff(run, a: dict, b: dict, cause: str, witness: dict) -> int:
    d = diff_tuples(a, b)
    for ident, fields in sorted(d.items()):
        ex = fields[0]
        violation(run, f"{ident}_differs:{cause}",
                      f"{ident} differs under {cause}: {ex} = {_short(a.get(ex))} vs {_short(b.get(ex))} (fields: {fields})",
                      dict(witness, cause=cause, differing=d, first=_slim(a), second=_slim(b)))
    return len(d)


def _short(v) -> str:
    s = json.dumps(v, default=repr)
    return s if len(s) <= 160 else s[:157] + "..."


def report_consistency(run, T: dict, witness: dict) -> None:
    for key, what in consistency(T):
        violation(run, key, what, dict(witness, observation=_slim(T)))


# =========================================================================== subprocess contexts
CHILD_CODE = ("import sys; sys.path.insert(0, {verif!r}); from checks import c04; c04.child_main(sys.argv[1], sys.argv[2])")


def child_main(spec_path: str, out_path: str) -> None:
    boot.boot()
    with open(spec_path, encoding="utf-8") as fh:
        spec = json.load(fh)
    scratch = tempfile.mkdtemp(prefix="verif-c04-child-")
    res: dict = {"env": {"PYTHONHASHSEED": os.environ.get("PYTHONHASHSEED"), "cwd": os.getcwd(), "TZ": os.environ.get("TZ"),
                         "hash_of_probe_string": hash("semantiva-verif-probe")}, "tuples": {}}
    try:
        for item in spec["items"]:
            try:
                T = identity_tuple(item["text"], scratch, item["ctx"], item["data"], cli_run=item.get("cli_run", False))
                res["tuples"][item["id"]] = T
            except Exception as exc:
                res["tuples"][item["id"]] = {"error.error": f"{type(exc).__name__}: {exc}"}
    finally:
        shutil.rmtree(scratch, ignore_errors=True)
    with open(out_path, "w", encoding="utf-8") as fh:
        json.dump(res, fh, default=repr)


ENVS = [  # (name, cause when it differs from env0, environment overrides, working directory index)
    ("env0", None, {"PYTHONHASHSEED": "0", "TZ": "UTC"}, 0),
    ("hashseed1", "fresh_process_hashseed", {"PYTHONHASHSEED": "1", "TZ": "UTC"}, 0),
    ("hashseed4242", "fresh_process_hashseed", {"PYTHONHASHSEED": "4242", "TZ": "UTC"}, 0),
    ("hashseed_random", "fresh_process_hashseed", {"PYTHONHASHSEED": "random", "TZ": "UTC"}, 0),
    ("cwd2", "fresh_process_cwd", {"PYTHONHASHSEED": "0", "TZ": "UTC"}, 1),
    ("tz_shifted", "fresh_process_tz", {"PYTHONHASHSEED": "0", "TZ": TZ_SHIFTED}, 0),
]


def run_children(items: list, scratch: str, envs=ENVS) -> dict:
    """Start one fresh interpreter per environment (in parallel) -> {env name: result dict | {"failed": ...}}."""
    spec = tempfile.mktemp(suffix=".json", prefix="spec-", dir=scratch)
    with open(spec, "w", encoding="utf-8") as fh:
        json.dump({"items": items}, fh)
    cwds = [tempfile.mkdtemp(prefix="cwdA-", dir=scratch), tempfile.mkdtemp(prefix="cwdB-", dir=scratch)]
    procs = []
    for name, _cause, over, cwd_i in envs:
        out = tempfile.mktemp(suffix=".json", prefix=f"child-{name}-", dir=scratch)
        p = subprocess.Popen([sys.executable, "-c", CHILD_CODE.format(verif=boot.VERIF_DIR), spec, out],
                             env=boot.child_env(over), cwd=cwds[cwd_i], stdout=subprocess.PIPE, stderr=subprocess.STDOUT)
        procs.append((name, p, out))
    results = {}
    for name, p, out in procs:
        try:
            log, _ = p.communicate(timeout=600)
        except subprocess.TimeoutExpired:
            p.kill()
            log, _ = p.communicate()
        if os.path.exists(out):
            with open(out, encoding="utf-8") as fh:
                results[name] = json.load(fh)
        else:
            results[name] = {"failed": (log or b"").decode("utf-8", "replace")[-800:], "rc": p.returncode}
    return results


def cli_subprocess_pair(text: str, ctx: dict, scratch: str, has_run_space: bool, hashseed: str) -> dict:
    """Real ``python -m semantiva.cli inspect`` and ``... run`` subprocesses on one file -> tuple with inspect.* / clirun*.*"""
    fd, path = tempfile.mkstemp(suffix=".yaml", prefix="clisub-", dir=scratch)
    with os.fdopen(fd, "w", encoding="utf-8") as fh:
        fh.write(text)
    _write_run_space_sources(text, os.path.dirname(path))
    env = boot.child_env({"PYTHONHASHSEED": hashseed})
    T: dict = {}
    p = subprocess.run([sys.executable, "-m", "semantiva.cli", "inspect", path, "--extended", "-q"], env=env, cwd=scratch,
                       capture_output=True, text=True, timeout=300)
    T["inspect.exit_code"] = p.returncode
    for k, v in parse_inspect_stdout(p.stdout).items():
        T[f"inspect.{k}"] = v
    out = tempfile.mktemp(suffix=".jsonl", prefix="clisub-", dir=scratch)
    p2 = subprocess.run([sys.executable, "-m", "semantiva.cli"] + cli_args_for(path, ctx, out, has_run_space), env=env, cwd=scratch,
                        capture_output=True, text=True, timeout=300)
    T["clirun.exit_code"] = p2.returncode
    for i, s in enumerate(read_starts(out)[:3]):
        for k, v in s.items():
            T[f"clirun{i + 1}.{k}"] = v
    return T


# =========================================================================== the check
def _nontrivial(doc: dict) -> bool:
    from vlib import rewrite as rw

    nodes = doc["pipeline"]["nodes"]
    return len(nodes) >= 3 or any(True for _ in rw.iter_sweeps(doc))


def _near_twin(doc: dict):
    """Copy of ``doc`` whose explicit sweep sequences have ==-equal values of another scalar type, or None."""
    import copy

    from vlib import rewrite as rw

    twin = copy.deepcopy(doc)
    changed = False
    for _i, blk in rw.iter_sweeps(twin):
        for name, spec in list((blk.get("variables") or {}).items()):
            vals = spec if isinstance(spec, list) else (spec.get("values") if isinstance(spec, dict) else None)
            if not isinstance(vals, list) or not vals:
                continue
            new = []
            for v in vals:
                if isinstance(v, float) and v == int(v):
                    new.append(int(v)); changed = True
                elif isinstance(v, bool):
                    new.append(int(v)); changed = True
                elif isinstance(v, int):
                    new.append(float(v)); changed = True
                else:
                    new.append(v)
            if isinstance(spec, list):
                blk["variables"][name] = new
            else:
                spec["values"] = new
    return twin if changed else None


def _history(seed: int, k: int, scratch: str) -> int:
    """Build and execute k unrelated pipelines in this interpreter (no module / extension loading)."""
    from vlib import account, gen, tracecheck as tc

    g = gen.Gen(seed, scratch)
    done = 0
    for j in range(k):
        case = gen.sweep_case(g) if j % 3 == 0 else g.pipeline(max_len=6, fault_bias=0.2)
        try:
            if j % 2:
                tr = tc.traced_run(case["nodes"], case["data"], case["ctx"], scratch=scratch)
                shutil.rmtree(tr.tdir, ignore_errors=True)
            else:
                account.real_run(case["nodes"], case["data"], case["ctx"], scratch=scratch)
            done += 1
        except Exception:
            pass
    return done


def pick_variants(run, doc: dict, base_text: str, rng, limit: int) -> list:
    from vlib import rewrite as rw

    variants = []
    rewriters = rw.all_rewriters()
    first = [x for x in rewriters if x[0] in ALWAYS]
    rest = [x for x in rewriters if x[0] not in ALWAYS]
    rng.shuffle(rest)
    for name, fn in first + rest:
        if len(variants) >= limit and name not in ALWAYS:
            break
        v = fn(doc, rng)
        if v is None:
            run.count(f"rewrite_not_applicable_{name}")
            continue
        why = rw.self_check(v, doc, base_text)
        if why == "identical text":
            run.count("rewrite_identical_text")
            continue
        if why:
            run.count("rewrites_rejected_by_selfcheck")
            run.count(f"rewrite_rejected_{name}")
            continue
        variants.append(v)
    return variants


def check_config(run, case: dict, scratch: str, rng, limit: int, with_history: bool, with_cli_run: bool) -> dict | None:
    from vlib import rewrite as rw
    from vlib.verdict import canon_hash

    doc = rw.make_doc(case["nodes"], case["run_space"])
    base_text = rw.dump_block(doc)
    ctx, data = case["ctx"], case["data"]
    wit = {"kind": "rewrite", "base_text": base_text, "ctx": ctx, "data": data}
    # history of a NEAR-TWIN first (same configuration, explicit sequence values re-typed: 1.0 <-> 1, 0/1 <-> false/true):
    # whatever this interpreter built before must not leak into the identities of the configuration under test
    # (they are compared with fresh-process identities in subprocess_stage)
    twin = _near_twin(doc)
    if twin is not None:
        try:
            identity_tuple(rw.dump_block(twin), scratch, ctx, data)
            run.count("near_twin_histories")
            case.setdefault("tags", []).append("near_twin_history")
        except Exception:
            run.count("near_twin_not_buildable")
    try:
        T0 = identity_tuple(base_text, scratch, ctx, data, cli_run=with_cli_run)
    except Exception as exc:
        run.count("config_not_buildable")
        run.count(f"config_not_buildable_{type(exc).__name__}")
        return None
    run.count("tuples_observed")
    for t in case.get("tags", []):
        run.count(f"config_tag_{t}")
    for tag in ("trace", "trace_run2", "clirun1", "clirun2"):
        if f"{tag}.pipeline_id" in T0:
            run.count(f"pipeline_start_observed_{tag}")
    if "inspect.semantic_id" in T0:
        run.count("inspect_outputs_parsed")
    nt = _nontrivial(doc)
    report_consistency(run, T0, dict(wit, kind="consistency"))
    run.case(canon_hash([doc, "paths_of_one_observation"]), nt,
             sample={"cause": "paths_of_one_observation", "yaml": base_text, "observed": _slim(T0)} if run.evaluations < 1 else None)
    # ---- in-process repeat
    T1 = identity_tuple(base_text, scratch, ctx, data)
    run.count("comparisons_in_process_repeat")
    report_diff(run, T0, T1, "in_process_repeat", dict(wit, kind="repeat"))
    run.case(canon_hash([doc, "in_process_repeat"]), nt)
    # ---- cosmetic rewrites
    for v in pick_variants(run, doc, base_text, rng, limit):
        vw = dict(wit, label=v.label, variant_text=v.text, detail=v.detail)
        try:
            Tv = identity_tuple(v.text, scratch, ctx, data)
        except Exception as exc:
            violation(run, f"variant_rejected:{v.label}", f"the rewritten text is rejected ({type(exc).__name__}: {exc}) although the original builds",
                          vw)
            continue
        run.count("tuples_observed")
        run.count("comparisons_rewrite")
        run.count(f"rewrite_{v.label}")
        report_diff(run, T0, Tv, v.label, vw)
        report_consistency(run, Tv, dict(vw, kind="consistency", base_text=v.text))
        run.case(canon_hash([doc, v.label, v.text]), nt,
                 sample={"cause": v.label, "variant_yaml": v.text[:1500], "equal_identities": not diff_tuples(T0, Tv)}
                 if run.evaluations < 6 and v.label != "yaml_flow_style" else None)
    # ---- after a history of unrelated pipelines
    if with_history:
        k = rng.randint(1, 20)
        hseed = rng.randrange(1 << 30)
        done = _history(hseed, k, scratch)
        run.count("history_pipelines_executed", done)
        Th = identity_tuple(base_text, scratch, ctx, data)
        run.count("comparisons_after_history")
        report_diff(run, T0, Th, "after_history", dict(wit, kind="history", history_seed=hseed, history_len=k))
        run.case(canon_hash([doc, "after_history", k]), nt and done > 0)
    return {"doc": doc, "text": base_text, "T0": T0, "case": case}


def subprocess_stage(run, picked: list, scratch: str, rng) -> None:
    from vlib import rewrite as rw
    from vlib.verdict import canon_hash

    items, index = [], {}
    for n, ob in enumerate(picked):
        texts = [("base", ob["text"])]
        for name in ("key_order_shuffled", "scalar_spelling_mixed"):
            fn = dict(rw.all_rewriters())[name]
            v = fn(ob["doc"], rng)
            if v is not None and rw.self_check(v, ob["doc"], ob["text"]) is None:
                texts.append((v.label, v.text))
        for label, text in texts:
            iid = f"c{n}:{label}"
            items.append({"id": iid, "text": text, "ctx": ob["case"]["ctx"], "data": ob["case"]["data"], "cli_run": label == "base"})
            index[iid] = (ob, label, text)
    if not items:
        return
    results = run_children(items, scratch)
    for name, res in results.items():
        if "failed" in res:
            run.note_inconclusive(f"subprocess {name} produced no result: rc={res.get('rc')} {res['failed'][-300:]!r}")
    base = results.get("env0", {})
    if "tuples" not in base:
        return
    run.info.setdefault("subprocess_environments", {})
    for name, res in results.items():
        if "env" in res:
            run.info["subprocess_environments"][name] = res["env"]
    for iid, (ob, label, text) in index.items():
        nt = _nontrivial(ob["doc"])
        wit = {"kind": "subprocess", "base_text": text, "ctx": ob["case"]["ctx"], "data": ob["case"]["data"], "label": label}
        Tc = base["tuples"].get(iid, {})
        if "error.error" in Tc:
            violation(run, "fresh_process_rejects_config", f"a fresh process cannot build a configuration this process builds: {Tc['error.error']}", wit)
            continue
        run.count("subprocess_tuples")
        report_consistency(run, Tc, dict(wit, kind="consistency_in_subprocess", env="env0"))
        # the same text observed in this (long-running) process
        if label == "base":
            run.count("comparisons_fresh_process")
            report_diff(run, ob["T0"], Tc, "fresh_process", dict(wit, env="env0"))
            run.case(canon_hash([ob["doc"], "fresh_process"]), nt)
        else:
            T_base = base["tuples"].get(iid.split(":")[0] + ":base", {})
            run.count("comparisons_rewrite_in_subprocess")
            report_diff(run, T_base, Tc, label, dict(wit, env="env0", kind="rewrite_in_subprocess"))
        for name, cause, _over, _cwd in ENVS[1:]:
            res = results.get(name, {})
            if "tuples" not in res:
                continue
            Tv = res["tuples"].get(iid, {})
            if "error.error" in Tv:
                violation(run, "fresh_process_rejects_config", f"{name}: {Tv['error.error']}", dict(wit, env=name))
                continue
            run.count("subprocess_tuples")
            run.count(f"comparisons_{cause}")
            report_diff(run, Tc, Tv, cause, dict(wit, env=name))
            run.case(canon_hash([ob["doc"], label, name]), nt)
    seeds = {n: (r.get("env") or {}).get("hash_of_probe_string") for n, r in results.items()}
    if len({v for v in seeds.values() if v is not None}) >= 3:
        run.count("subprocess_hash_randomisation_confirmed")


def cli_subprocess_stage(run, picked: list, scratch: str, rng) -> None:
    from vlib.verdict import canon_hash

    for ob in picked:
        has_rs = bool(ob["doc"].get("run_space"))
        hashseed = rng.choice(["1", "4242", "random"])
        try:
            T = cli_subprocess_pair(ob["text"], ob["case"]["ctx"], scratch, has_rs, hashseed)
        except subprocess.TimeoutExpired:
            run.note_inconclusive("a CLI subprocess timed out")
            continue
        run.count("cli_subprocess_pairs")
        wit = {"kind": "cli_subprocess", "base_text": ob["text"], "ctx": ob["case"]["ctx"], "data": ob["case"]["data"], "hashseed": hashseed}
        if "inspect.semantic_id" not in T:
            run.count("cli_subprocess_inspect_unparsed")
            continue
        if "clirun1.pipeline_id" in T:
            run.count("cli_subprocess_pipeline_start_observed")
        report_consistency(run, T, wit)
        mine = {k: v for k, v in ob["T0"].items() if k.startswith(("inspect.", "clirun"))}
        report_diff(run, mine, T, "fresh_process_cli", wit)
        run.count("comparisons_fresh_process_cli")
        run.case(canon_hash([ob["doc"], "fresh_process_cli"]), _nontrivial(ob["doc"]))


def run(run):
    if CHUNKS[run.tier] > 1:
        from vlib import rewrite as rw

        rw.run_in_chunks(run, "c04", CHUNKS[run.tier])
    else:
        run_chunk(run, 0)
    _floors(run)


def run_chunk(run, chunk: int):
    boot.boot()
    from vlib import gen, rewrite as rw

    seed = (run.seed * 1000 + run.shard[0]) * 64 + chunk
    rng = random.Random(seed)
    scratch = tempfile.mkdtemp(prefix="verif-c04-")
    g = gen.Gen(seed, scratch)
    observed = []
    try:
        from semantiva.registry.bootstrap import current_profile

        fp0 = current_profile().fingerprint()
        i = attempts = 0
        while i < N_CONFIGS[run.tier] and attempts < 4 * N_CONFIGS[run.tier]:
            attempts += 1
            case = rw.config_case(g, attempts)
            ob = check_config(run, case, scratch, rng, N_REWRITES[run.tier], with_history=(i % 3 == 0), with_cli_run=True)
            if ob is None:
                continue
            i += 1
            observed.append(ob)
        if current_profile().fingerprint() != fp0:
            run.note_inconclusive("the registry fingerprint changed during the workload (a history loaded a module)")
        # prefer configurations with sweeps / from_context / nested parameters for the expensive contexts
        def weight(ob):
            t = ob["case"].get("tags", [])
            return -(("near_twin_history" in t) * 8 + ("mixed_case_required_keys" in t) * 6 + ("multi_external_sweep" in t) * 5 + ("fc_sweep" in t) * 4 + ("sweep_case" in t) * 2 + ("nested_params" in t) + ("run_space" in t))
        ranked = sorted(observed, key=weight)
        subprocess_stage(run, ranked[:N_SUBPROC_CONFIGS[run.tier]], scratch, rng)
        cli_subprocess_stage(run, ranked[:N_CLI_SUBPROC[run.tier]], scratch, rng)
    finally:
        shutil.rmtree(scratch, ignore_errors=True)


def _floors(run):
    run.floor("comparisons_rewrite", 40)
    run.floor("pipeline_start_observed_trace", 40)
    run.floor("pipeline_start_observed_trace_run2", 40)
    run.floor("inspect_outputs_parsed", 40)
    run.floor("comparisons_fresh_process_hashseed", 6)
    run.floor("rewrite_sweep_variables_reordered_from_context", 3)
    run.floor("rewrite_key_order_shuffled", 20)
    run.assumptions += ["a rewrite is meaning-preserving iff yaml.safe_load gives a strictly equal document modulo mapping key order "
                        "(type-aware: bool/int/float/str kept apart), or differs only by operand order/association of + and * in sweep "
                        "expressions (documented as identity-preserving)",
                        "the order of the `variables` mapping of a sweep carries no meaning (combinatorial order is by sorted name, "
                        "by_position pairs by index)",
                        "histories never load modules or extensions (registry fingerprint checked before/after)"]


# =========================================================================== replay
def replay(run, witness):
    boot.boot()
    scratch = tempfile.mkdtemp(prefix="verif-c04-")
    kind = witness.get("kind", "rewrite")
    ctx, data = witness.get("ctx", {}), witness.get("data", "NoData")
    try:
        base = witness["base_text"]
        if kind in ("consistency",):
            report_consistency(run, identity_tuple(base, scratch, ctx, data, cli_run=True), witness)
        elif kind == "rewrite":
            T0 = identity_tuple(base, scratch, ctx, data)
            Tv = identity_tuple(witness["variant_text"], scratch, ctx, data)
            report_diff(run, T0, Tv, witness["label"], witness)
        elif kind == "repeat":
            report_diff(run, identity_tuple(base, scratch, ctx, data), identity_tuple(base, scratch, ctx, data), "in_process_repeat", witness)
        elif kind == "history":
            T0 = identity_tuple(base, scratch, ctx, data)
            _history(witness["history_seed"], witness["history_len"], scratch)
            report_diff(run, T0, identity_tuple(base, scratch, ctx, data), "after_history", witness)
        elif kind == "cli_subprocess":
            T = cli_subprocess_pair(base, ctx, scratch, "run_space:" in base or "run_space" in base, witness.get("hashseed", "1"))
            report_consistency(run, T, witness)
        else:  # subprocess environments
            items = [{"id": "x", "text": base, "ctx": ctx, "data": data, "cli_run": True}]
            res = run_children(items, scratch)
            T0 = res.get("env0", {}).get("tuples", {}).get("x", {})
            report_consistency(run, T0, witness)
            report_diff(run, identity_tuple(base, scratch, ctx, data, cli_run=True), T0, "fresh_process", witness)
            for name, cause, _o, _c in ENVS[1:]:
                Tv = res.get(name, {}).get("tuples", {}).get("x")
                if Tv:
                    report_diff(run, T0, Tv, cause, dict(witness, env=name))
        run.case([base, kind], True, sample={"kind": kind, "yaml": base[:1200]})
        run.case("replay-second-slot", True)
    finally:
        shutil.rmtree(scratch, ignore_errors=True)
