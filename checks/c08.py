"""C08 — run-space expansion yields exactly the documented ordered list of runs.

Oracle: vlib.runspace_model.expand_run_space (independent, arithmetic-first reference model written from the
documentation) compared order-sensitively with what the real code returns / raises, through three doors:
the Python API (RunSpaceV1Config -> expand_run_space), the YAML door (load_pipeline_from_yaml ->
_parse_run_space_block -> expand_run_space) and `semantiva run --run-space-dry-run` (in-process, printed plan).
An icontract postcondition on the real expand_run_space re-checks every returned (runs, meta) it sees.

Promptness of the max_runs rejection is decided on logical steps and memory, never on time: over-cap "huge"
specs (product 1e6..1e12) are expanded in a child process while (i) a counting proxy on the module's `itertools`
counts tuples drawn from product, (ii) sys.monitoring INSTRUCTION events on run_space.py's code objects count
executed bytecodes, (iii) tracemalloc records the peak; exceeding budget = c*(inputs + max_runs*#keys) + C raises a
private BaseException inside the code under test.  RLIMIT_AS and a watchdog are a safety net (=> inconclusive).
"""
from __future__ import annotations

import random
import shutil
import tempfile

from vlib import boot

LEVEL = "exploration"
RULE = ("seeded generator of run_space specs: 0..4 blocks x block/source/combine modes x key sets with sorted-order "
        "traps x list lengths 0..4 x csv/json(rows|columns)/yaml(rows|columns)/ndjson sources with select/rename "
        "(incl. swaps, collisions, absent columns) x injected errors x max_runs in {0..beyond the product}; every spec "
        "goes through the Python API, every 3rd also through the YAML loader, every 5th through "
        "`run --run-space-dry-run`; plus over-cap specs with product 1e6..1e12 spread across blocks / inside one "
        "block / context x source under step, draw and memory budgets. distinct = canonical hash of (spec, files); "
        "non-trivial = (>=2 blocks or an external source) and (>=2 documented runs or a documented rejection), or a "
        "huge over-cap spec")
SHARDS = {"quick": 1, "thorough": 16}
SHARD_TIMEOUT = {"thorough": 2400}
N_SPECS = {"quick": 1500, "thorough": 5000}
N_HUGE = {"quick": 30, "thorough": 60}
HUGE_KINDS = ["across_blocks", "single_block_product", "context_x_source", "source_product"]
STEP_EVENT = {"quick": "LINE", "thorough": "INSTRUCTION"}     # logical step = line / bytecode inside run_space.py


def _huge_case(base_seed: int, i: int):
    from vlib import runspace_model as M

    r = random.Random(base_seed * 100003 + i)
    if i % 10 == 9:
        spec, files = M.control_spec(r, i)
        return "control", spec, files
    where = HUGE_KINDS[i % len(HUGE_KINDS)]
    spec, files = M.huge_spec(r, where, i)
    return where, spec, files


def _decide_small(run, M, spec, files, scratch, path, api_obs=None):
    """One spec through one door. Returns the API observation (for the CLI comparison)."""
    from vlib.verdict import canon_hash

    ex = M.expand_run_space(spec, files)
    witness = {"spec": spec, "files": files, "path": path}
    rng = random.Random(int(canon_hash([spec, path]), 16))      # cosmetic YAML choices: a function of the case
    if path == "cli":
        res = M.real_cli(spec, scratch, rng)
        run.count("specs_cli")
        if M.parse_plan(res.out) is not None:
            run.count("cli_plans_printed")
        verdict = M.judge_cli(ex, res, api_obs, spec)
        if verdict is not None:
            witness["observed"] = {"rc": res.rc, "stdout": res.out[-1500:], "stderr": res.err[-500:]}
    else:
        obs = M.real_api(spec, scratch) if path == "api" else M.real_yaml(spec, scratch, rng)
        run.count(f"specs_{path}")
        if obs.kind == "runs":
            run.count("returned_lists_compared")
            run.count("runs_compared", len(obs.runs) if isinstance(obs.runs, list) else 0)
        else:
            run.count("raised_" + obs.exc)
        verdict = M.judge(ex, obs, spec, path=path)
        if verdict is not None:
            witness["observed"] = obs.brief()
        api_obs = obs
    if verdict is not None:
        key, what = verdict
        run.violation(key, f"[{path}] {what}", witness)
    return ex, api_obs


def _decide_huge(run, M, where, spec, files, res, witness):
    kind = res.get("kind")
    if kind == "inconclusive" or kind == "memoryerror":
        run.note_inconclusive(f"huge case {witness['i']} ({where}): {res.get('why', 'MemoryError under RLIMIT_AS')}")
        run.count("huge_inconclusive")
        return
    run.count("huge_decided")
    run.count("monitor_steps_seen", res.get("steps", 0))
    run.count("monitor_draws_seen", res.get("draws", 0))
    hm = run.info.setdefault("huge_monitor", {}).setdefault(f"shard{run.shard[0]}", {})   # per shard: merge never sums
    hm["code_objects_monitored"] = res.get("monitored_code_objects", 0)
    hm["peak_bytes_max"] = max(hm.get("peak_bytes_max", 0), res.get("peak", 0))
    bud = res.get("budget", {})
    ex = M.expand_run_space(spec, files)
    if where == "control":
        if kind == "runs" and res.get("n") == ex.primary.total:
            run.count("monitor_controls_passed")
        else:
            # a legitimate under-cap expansion must fit the budget, otherwise the budget constants are wrong
            run.note_inconclusive(f"monitor control (under-cap, {ex.primary.total} runs) did not pass: {res}")
        return
    if kind == "abort":
        loc = M.where_materialised(spec, files)
        run.count(f"huge_aborted_{loc}")
        run.violation(
            f"cap_applied_after_materialisation_{loc}",
            f"over-cap spec (max_runs={spec['max_runs']}, input units={bud.get('units')}) still expanding after "
            f"{res.get('steps')} {'bytecodes' if bud.get('event') == 'INSTRUCTION' else 'lines'} / {res.get('draws')} product draws / peak {res.get('peak')} bytes "
            f"(budget {bud.get('steps')} / {bud.get('draws')} / {bud.get('bytes')}; tripped on {res.get('which')}): "
            f"the {loc.replace('_', ' ')} is materialised before max_runs is applied",
            dict(witness, observed={k: res.get(k) for k in ("kind", "which", "steps", "draws", "peak")}, budget=bud))
        return
    if kind == "exc":
        obs = M.Observed("exc", exc=res["exc"], msg=res.get("msg", ""))
    else:
        obs = M.Observed("runs", runs=[None] * res.get("n", 0), meta=None)
    if kind == "exc" and res["exc"] == M.MAXRUNS:
        run.count("huge_prompt_rejections")
        run.count(f"huge_prompt_{where}")
        ratio = max(res.get("steps", 0) / max(1, bud.get("steps", 1)), res.get("draws", 0) / max(1, bud.get("draws", 1)))
        hm["prompt_rejection_max_budget_fraction"] = round(max(hm.get("prompt_rejection_max_budget_fraction", 0.0), ratio), 4)
        return
    p = ex.primary
    if kind == "runs":
        run.violation(f"not_rejected_{p.kinds[0]}", f"over-cap huge spec returned {res.get('n')} runs", witness)
    else:
        v = M.judge(ex, obs, spec)
        if v is not None:
            run.violation(v[0], f"[huge] {v[1]}", witness)


def run(run):
    boot.boot()
    from vlib import runspace_model as M
    from vlib.verdict import canon_hash

    n = N_SPECS[run.tier]
    seed = run.seed * 1000 + run.shard[0]
    scratch = tempfile.mkdtemp(prefix="verif-c08-")
    g = M.SpecGen(seed)
    cstate = M.install_contract(run)
    try:
        for i in range(n):
            spec, files, mutation = g.spec()
            M.write_files(files, scratch)
            try:
                ex, api_obs = _decide_small(run, M, spec, files, scratch, "api")
                if i % 3 == 1:
                    _decide_small(run, M, spec, files, scratch, "yaml")
                if i % 5 == 2:
                    _decide_small(run, M, spec, files, scratch, "cli", api_obs)
            finally:
                M.remove_files(files, scratch)
            p = ex.primary
            if p.kind == "runs":
                run.count("model_valid")
                if p.total == spec["max_runs"]:
                    run.count("model_total_equals_max_runs")
                if any(len(bm.order_options) > 1 for bm in ex.blocks):
                    run.count("model_ctx_x_source_order_dontcare")
            else:
                run.count("model_rejects_" + p.kinds[0])
            for d in set(ex.dontcare):
                run.count("dontcare_" + d)
            run.count("mutation_" + mutation.split("+")[0])
            for b in spec["blocks"]:
                if b["source"]:
                    ft = files[b["source"]["file"]]
                    run.count(f"source_{ft['format']}_{ft['shape']}")
                    run.count(f"modes_block_{b['mode']}_source_{b['source']['mode']}")
            nontrivial = (len(spec["blocks"]) >= 2 or bool(files)) and (p.kind == "reject" or p.total >= 2)
            run.case(canon_hash({"spec": spec, "files": files}), nontrivial,
                     sample={"spec": spec, "files": files,
                             "reference": ({"runs": [M._norm_model(r) for r in M.model_runs(p)][:6], "total": p.total}
                                           if p.kind == "runs" else {"reject": p.kinds})} if i < 3 else None)

        # ---- huge over-cap specs: child process, logical-step / draw / memory budgets
        nh = N_HUGE[run.tier]
        cases, by_id = [], {}
        for i in range(nh):
            where, spec, files = _huge_case(seed, i)
            cases.append({"id": i, "spec": spec, "files": files, "event": STEP_EVENT[run.tier]})
            by_id[i] = (where, spec, files)
        results = M.run_huge_cases(cases, scratch, timeout=1800.0)
        for i in range(nh):
            where, spec, files = by_id[i]
            res = results.get(i, {"kind": "inconclusive", "why": "no result"})
            run.count(f"huge_{where}")
            _decide_huge(run, M, where, spec, files, res, {"huge_seed": seed, "i": i, "where": where})
            u = M.input_units(spec, files)
            run.case(canon_hash({"huge": [seed, i]}), where != "control",
                     sample={"huge": where, "max_runs": spec["max_runs"], "input_units": u,
                             "blocks": [[(k, len(v)) for k, v in b["context"]] for b in spec["blocks"]],
                             "result": {k: v for k, v in res.items() if k != "budget"}} if i < 3 else None)
    finally:
        M.uninstall_contract(cstate)
        shutil.rmtree(scratch, ignore_errors=True)
    run.count("contract_evaluations_expand_run_space", cstate["evaluations"])
    if run.tier == "thorough" and run.shard[0] == 0:
        from vlib import suite

        suite.run_suite_with_contracts(run, "runspace")   # the repository's own tests as extra workload for the contract
    run.count("contract_compared_expand_run_space", cstate["compared"])
    run.count("contract_skipped_expand_run_space", cstate["skipped"])
    if cstate.get("oracle_errors"):
        run.note_inconclusive(f"contract oracle raised: {cstate['oracle_errors'][:3]}")
    run.floor("specs_api", 500)
    run.floor("specs_yaml", 150)
    run.floor("cli_plans_printed", 40)
    run.floor("returned_lists_compared", 300)
    run.floor("contract_compared_expand_run_space", 300)
    for kind in ("missing_select_column", "rename_collision", "duplicate_key_in_block", "length_mismatch_key",
                 "length_mismatch_block", "duplicate_key_across_blocks", "length_mismatch_combine", "max_runs_exceeded"):
        run.floor("model_rejects_" + kind, 3)
    run.floor("model_total_equals_max_runs", 10)
    run.floor("huge_decided", 20)
    run.floor("monitor_controls_passed", 1)
    run.floor("monitor_steps_seen", 10_000)
    run.assumptions += M.ASSUMPTIONS


def replay(run, witness):
    boot.boot()
    from vlib import runspace_model as M

    scratch = tempfile.mkdtemp(prefix="verif-c08-")
    try:
        if "huge_seed" in witness:
            where, spec, files = _huge_case(witness["huge_seed"], witness["i"])
            res = M.run_huge_cases([{"id": 0, "spec": spec, "files": files, "event": STEP_EVENT[run.tier]}],
                                   scratch, timeout=900.0)[0]
            _decide_huge(run, M, where, spec, files, res, dict(witness))
            run.case({"huge": [witness["huge_seed"], witness["i"]]}, True,
                     sample={"huge": where, "result": {k: v for k, v in res.items() if k != "budget"}})
        else:
            spec, files, path = witness["spec"], witness["files"], witness.get("path", "api")
            M.write_files(files, scratch)
            if path == "contract":
                cstate = M.install_contract(run)
                try:
                    M.real_api(spec, scratch)
                finally:
                    M.uninstall_contract(cstate)
            elif path == "cli":
                _, api_obs = _decide_small(run, M, spec, files, scratch, "api")
                _decide_small(run, M, spec, files, scratch, "cli", api_obs)
            else:
                _decide_small(run, M, spec, files, scratch, path)
            run.case({"spec": spec, "files": files}, True, sample={"spec": spec, "files": files})
        run.case("replay-second-slot", True)
    finally:
        shutil.rmtree(scratch, ignore_errors=True)
