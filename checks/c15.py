"""C15 — every queued job's Future completes once, with that job's own result.

Workload: batches of 1..40 jobs with distinct pipelines/payloads (unique token per job in data, parameters and
context), 1..4 worker threads, randomised switch interval / enqueue pacing / yield injection at LINE events of
queue_orchestrator.py, worker.py and in_memory.py; a failing job (processor raises, unresolvable parameter, type
gate, unloadable YAML path) at every batch position; payload corner cases (empty collection, many context keys).

Oracle: client-boundary history (enqueue call/return, add_done_callback completion events, Future.result /
exception) against results computed beforehand by a direct run of each job's pipeline on its own payload.
"Never completes" is decided by quiescence (vlib.jobq.Quiescence), never by a timeout; the 120 s per-batch watchdog
only ever yields "inconclusive".

Harness substitutions (all from outside, nothing under the repository is edited):
  * orchestrator.job_queue is replaced after construction by a queue.Queue subclass (jobq.TapQueue) that counts the
    master's get() calls and caps the hard-coded 0.2 s poll timeout at 2..20 ms (the original 0.2 s is kept for a
    third of the small batches); worker_loop's poll_interval is its own parameter;
  * master and workers each get a recording proxy (jobq.TransportTap) around the one shared in-memory transport;
  * the name ``uuid`` in the queue_orchestrator namespace is shimmed so the id drawn by enqueue() is known;
  * every party gets an explicit Logger (no logs/ directory is created).
Schedule perturbation per batch: sys.setswitchinterval, seeded per-thread yields at LINE events, 0..3 "hot" lines
where every thread pauses 0.3 ms, optionally one "slow" thread that pauses 0.1 ms at every LINE event.

Systematic pass (vlib/jobsched.py, runs first): the same real master / worker / enqueue code as managed threads of the
deterministic scheduler vlib/sched.py (LINE yield points on queue_orchestrator.py and worker.py, queue / sleep / stop
event shimmed so nothing blocks for real, timed waits on a virtual clock with a budget of nondeterministic EARLY
expiries), bounded-preemption DFS + PCT + random walks over a small scenario family (1-3 jobs, 1-2 workers), logical
quiescence verdict per execution, every violating schedule replayable (witness mode "systematic").

Debugging aids: C15_DEBUG=1 (one line per batch), C15_ONLY=i,j (run only these batch indices), C15_WATCHDOG=seconds,
C15_SYSTEMATIC=0 (skip the systematic pass) / C15_SYSTEMATIC=only (run nothing else).
"""
from __future__ import annotations

import copy
import json
import math
import os
import random
import shutil
import sys
import tempfile
import threading
import time
from collections import Counter

from vlib import boot

LEVEL = "exploration"
RULE = ("seeded batches: n jobs (1..40) x w workers (1..4) x switch interval (log-uniform 1us..5ms) x enqueue pacing x "
        "yield probability x poll intervals; every job has a unique token in data, parameters and context; failing "
        "job kinds {boom, unresolvable, type_gate, yaml_unloadable} rotate over batch positions; distinct = hash of "
        "the batch spec (jobs, workers, schedule parameters); non-trivial = (>= 2 jobs and >= 2 workers) or a failing job. "
        "systematic pass: schedules of the real client/master/worker threads under a deterministic scheduler (LINE yield "
        "points of queue_orchestrator.py + worker.py; bounded-preemption DFS with a budget of early time-out expiries, PCT, "
        "random walks) over scenarios S1..S5 (1-3 jobs, 1-2 workers); distinct = hash of the executed (thread, line) "
        "sequence + scenario; non-trivial = a preemption, an early expiry, or a thread that ran again after another ran")
SHARDS = {"quick": 1, "thorough": 48}     # many small fresh processes (semantiva keeps every generated class alive)
SHARD_TIMEOUT = {"thorough": 2400}
N_BATCHES = {"quick": 50, "thorough": 80}     # per shard
WATCHDOG_S = float(os.environ.get("C15_WATCHDOG", "120"))   # per batch; firing => inconclusive, never a violation
FAIL_KINDS = ["boom", "unresolvable", "type_gate", "yaml_unloadable", "raise_odd", "construction"]
TOKEN_PREFIXES = ("tok_", "probe_", "final_", "label_", "sp_", "scaled_", "moved_")


# ------------------------------------------------------------------------------------------------ job generation
def _u(b: int, j: int) -> float:
    """Unique, exactly representable token of job j in batch b."""
    return 1000.0 + 64.0 * b + j + 0.125


def make_job(rng: random.Random, g, b: int, j: int, fail_kind=None, force=None) -> dict:
    u = _u(b, j)
    s = f"{b}_{j}"
    ctx = {f"tok_{s}": u}
    job = {"uid": s, "u": u, "via": "list", "many": 0, "fail_kind": fail_kind}
    f1 = 1.5 + (j % 7) * 0.25
    chain = [{"processor": "VMul", "parameters": {"factor": f1}},
             {"processor": "VAdd", "parameters": {"addend": u}},
             {"processor": "VValueProbe", "context_key": f"probe_{s}"}]
    if fail_kind is not None:
        job["kind"] = "fail_" + fail_kind
        data = u
        if fail_kind == "boom":
            nodes = list(chain)
            nodes.insert(rng.randrange(len(nodes) + 1), {"processor": "VBoom"})
        elif fail_kind == "raise_odd":
            # the pipeline raises an exception whose class does not take "one message string" (UnicodeDecodeError,
            # ExceptionGroup, OSError with errno/filename, a two-argument user exception, ...)
            from vlib.components import ODD_EXCEPTION_KINDS

            nodes = list(chain)
            nodes.insert(rng.randrange(len(nodes) + 1), {"processor": "VRaise", "parameters": {"exc": ODD_EXCEPTION_KINDS[(b + j) % len(ODD_EXCEPTION_KINDS)]}})
        elif fail_kind == "construction":
            # a well-formed list of node dicts whose Pipeline CONSTRUCTION raises (before any node runs)
            bad = [{"processor": "VMul", "parameters": {"factor": f1}, "derive": {"parameter_sweep": {"parameters": {"factor": "t"}, "variables": {}}}},
                   {"processor": "VMul", "parameters": {"factor": {1.5, 2.5}}},
                   {"processor": "ModelFittingContextProcessor", "parameters": {"fitting_model": "model:NoSuchModelAnywhere:degree=1"}},
                   {"processor": "VMul", "parameters": {"factor": f1}, "derive": {"parameter_sweep": {"parameters": {"factor": "t +"}, "variables": {"t": [1.0]}, "collection": "FloatDataCollection"}}}]
            nodes = list(chain)
            nodes.insert(rng.randrange(len(nodes) + 1), bad[(b + j) % len(bad)])
        elif fail_kind == "unresolvable":
            nodes = [chain[0], {"processor": "VAdd"}, chain[2]]          # addend neither configured nor in context
        elif fail_kind == "type_gate":
            if rng.random() < 0.5:
                nodes = [chain[0], {"processor": "VCollSum", "parameters": {"offset": u}}]
            else:
                data = [u, u + 1.0]
                nodes = [{"processor": "VMul", "parameters": {"factor": f1}}]
        elif fail_kind == "yaml_unloadable":
            nodes = list(chain)
            job["via"] = rng.choice(["yaml_missing", "yaml_garbage"])
        else:
            raise ValueError(fail_kind)
        job.update(nodes=nodes, data=data, ctx=ctx)
        return job
    kind = force or rng.choices(
        ["float_chain", "source", "collection", "empty_sum", "empty_ctx_only", "many_keys", "gen", "zero", "ctx_param"],
        [22, 12, 12, 5, 4, 8, 22, 5, 10])[0]
    job["kind"] = kind
    data = u
    if kind == "float_chain":
        nodes = list(chain)
        if rng.random() < 0.5:
            nodes.append({"processor": f"rename:probe_{s}:final_{s}"})
        if rng.random() < 0.3:
            nodes.append({"processor": "VAddNote", "parameters": {"addend": 0.5}})
    elif kind == "ctx_param":
        ctx["factor"] = u / 8.0
        ctx["addend"] = float(j)
        nodes = [{"processor": "VMul"}, {"processor": "VAdd"}, {"processor": "VScaledProbe", "context_key": f"sp_{s}",
                                                               "parameters": {"scale": 2.0}}]
    elif kind == "source":
        data = None if rng.random() < 0.5 else "NoData"
        nodes = [{"processor": "VSrc", "parameters": {"value": u}}, {"processor": "VAddNote", "parameters": {"addend": f1}},
                 {"processor": f"template:\"{s}-{{note}}\":label_{s}"}]
    elif kind == "collection":
        data = [u, u + 1.0, u + 2.0][: rng.randint(1, 3)]
        nodes = [{"processor": "slice:VMul:FloatDataCollection", "parameters": {"factor": f1}}]
        if rng.random() < 0.6:
            nodes.append({"processor": "VCollSum", "parameters": {"offset": u}})
    elif kind == "empty_sum":
        data = []
        nodes = [{"processor": "VCollSum", "parameters": {"offset": u}}, {"processor": "VValueProbe", "context_key": f"probe_{s}"}]
    elif kind == "empty_ctx_only":
        data = []
        ctx["base"] = u
        nodes = [{"processor": "VCtxScale", "parameters": {"k": 2.0}}, {"processor": f"rename:scaled:scaled_{s}"}]
    elif kind == "many_keys":
        job["many"] = rng.choice([40, 120, 300])
        ctx["base"] = u
        nodes = [{"processor": "VCtxScale"}, {"processor": f"delete:k{s}_3"}, {"processor": f"rename:k{s}_5:moved_{s}"},
                 {"processor": "VAdd", "parameters": {"addend": 1.0}}]
    elif kind == "zero":
        data = 0.0
        nodes = [{"processor": "VAdd", "parameters": {"addend": u}}, {"processor": "VValueProbe", "context_key": f"probe_{s}"}]
    elif kind == "gen":
        case = None
        for _ in range(8):
            try:
                case = g.pipeline(max_len=6, fault_bias=0.15)
                break
            except Exception:  # noqa: BLE001 - the generator itself rejects some ill-formed sweep configurations
                continue
        if case is None:
            case = {"nodes": list(chain), "ctx": {}, "data": u}
        nodes = case["nodes"]
        for k, v in case["ctx"].items():
            ctx.setdefault(k, v)
        data = case["data"]
        if isinstance(data, float):
            data = u
        elif isinstance(data, list) and data:
            data = [u + i for i in range(len(data))]
    else:
        raise ValueError(kind)
    if kind in ("float_chain", "source", "collection") and rng.random() < 0.2:
        job["via"] = "yaml"
    job.update(nodes=nodes, data=data, ctx=ctx)
    return job


def make_batch(rng: random.Random, g, b: int, n: int, fail_positions: dict, workers=None, points=()) -> dict:
    jobs = [make_job(rng, g, b, j, fail_kind=fail_positions.get(j)) for j in range(n)]
    mode = rng.choice(["burst", "trickle", "mixed", "gaps"])
    pacing = []
    for j in range(n):
        if mode == "burst":
            d = 0.0
        elif mode == "trickle":
            d = rng.expovariate(1 / 0.002)
        elif mode == "mixed":
            d = 0.0 if rng.random() < 0.8 else rng.uniform(0.005, 0.03)
        else:
            d = rng.choice([0.0, 0.0, 0.0005, 0.012, 0.05])
        pacing.append(round(min(d, 0.06), 6))
    switch = 10 ** rng.uniform(-6.0, math.log10(5e-3))
    small = n <= 8
    poll_master = rng.choice([None, 0.02, 0.002] if small else [0.01, 0.002, 0.002])
    nw = workers or rng.randint(1, 4)
    r = rng.random()
    slow = None if r < 0.5 else ("c15-master" if r < 0.6 else f"c15-w{rng.randrange(nw)}")
    return {"b": b, "jobs": jobs, "workers": nw, "slow": slow, "switch": switch, "poll_master": poll_master,
            "poll_worker": rng.choice([0.1, 0.01, 0.001]) if small else rng.choice([0.01, 0.001]),
            "p_yield": rng.choice([0.0, 0.01, 0.05, 0.2, 0.5]), "pacing": pacing, "pacing_mode": mode,
            "hot": [list(rng.choice(points)) for _ in range(rng.choice([0, 1, 1, 2, 3]))] if points else [],
            "seed": rng.getrandbits(31)}


# ------------------------------------------------------------------------------------------------ materialisation
def job_ctx(job: dict) -> dict:
    ctx = dict(job["ctx"])
    for i in range(job.get("many", 0)):
        ctx[f"k{job['uid']}_{i}"] = job["u"] + i
    return ctx


def job_data(job: dict):
    """Fresh real data object for the direct run / the queue (None = the caller passes no data)."""
    from semantiva.data_types import NoDataType
    from vlib import account

    d = job["data"]
    if d is None:
        return None
    if d == "NoData":
        return NoDataType()
    return account.to_real_data(d)


def job_cfg(job: dict, scratch: str, for_queue: bool = False):
    """What is handed to enqueue(): a list of node dicts or a path (or, for the observation only, a Pipeline)."""
    from vlib import gen

    via = job["via"]
    if via == "list":
        return copy.deepcopy(job["nodes"])
    if via == "instance":
        from semantiva import Pipeline

        return Pipeline(copy.deepcopy(job["nodes"])) if for_queue else copy.deepcopy(job["nodes"])
    path = os.path.join(scratch, f"job_{job['uid']}.yaml")
    if via == "yaml":
        with open(path, "w", encoding="utf-8") as fh:
            fh.write(gen.to_yaml(job["nodes"]))
    elif via == "yaml_garbage":
        with open(path, "w", encoding="utf-8") as fh:
            fh.write("pipeline: [unclosed\n  - : :\n")
    elif via == "yaml_missing":
        path = os.path.join(scratch, f"no_such_dir_{job['uid']}", "pipeline.yaml")
    return path


def direct_run(job: dict, scratch: str) -> dict:
    """The reference for one job: the same pipeline on the same payload, run directly through the public API."""
    from semantiva import Payload, Pipeline
    from semantiva.configurations.load_pipeline_from_yaml import load_pipeline_from_yaml
    from semantiva.context_processors.context_types import ContextType
    from semantiva.data_types import NoDataType
    from vlib import account
    from vlib.components import REC

    REC.clear()
    out = {"ok": True}
    try:
        cfg = job_cfg(job, scratch)
        if isinstance(cfg, str):
            cfg = load_pipeline_from_yaml(cfg)
        data = job_data(job)
        res = Pipeline(cfg).process(Payload(NoDataType() if data is None else data, ContextType(job_ctx(job))))
        out["data"] = account.plain(res.data)
        out["dtype"] = type(res.data).__name__
        out["ctx"] = account.plain(res.context.to_dict())
    except Exception as exc:  # noqa: BLE001
        out = {"ok": False, "exc": type(exc).__name__, "msg": str(exc)[:200]}
    out["leaves"] = [leaf_key(e) for e in REC.snapshot()]
    REC.clear()
    return out


def leaf_key(entry) -> str:
    from vlib.verdict import jdefault

    return json.dumps([entry[0], entry[1], entry[2]], sort_keys=True, default=jdefault)


def input_falsy(job: dict) -> bool:
    d = job["data"]
    if d is None or d == "NoData":
        return False
    try:
        return not bool(job_data(job))
    except Exception:
        return False


# ------------------------------------------------------------------------------------------------ one batch
class BatchOutcome:
    def __init__(self):
        self.findings: list = []        # (key, what, witness)
        self.inconclusive = None
        self.stats = Counter()
        self.order_hash = None


def run_batch(spec: dict, inj, scratch: str) -> BatchOutcome:
    from semantiva.context_processors.context_types import ContextType
    from semantiva.execution.executor.executor import SequentialSemantivaExecutor
    from semantiva.execution.job_queue.queue_orchestrator import QueueSemantivaOrchestrator
    from semantiva.execution.job_queue.worker import worker_loop
    from semantiva.execution.transport.in_memory import InMemorySemantivaTransport
    from vlib import account, jobq
    from vlib.components import REC
    from vlib.verdict import canon_hash

    out = BatchOutcome()
    t_begin = time.monotonic()
    t_enq = None
    jobs = spec["jobs"]
    n = len(jobs)
    bdir = tempfile.mkdtemp(prefix=f"b{spec['b']}_", dir=scratch)

    # ---- expected results, beforehand
    expected = [direct_run(job, bdir) for job in jobs]
    falsy = [input_falsy(job) for job in jobs]
    # classifier reference: what the same pipeline yields when the falsy input is replaced by NoDataType
    replaced = [direct_run(dict(job, data="NoData"), bdir) if falsy[j] else None for j, job in enumerate(jobs)]
    REC.clear()
    t_direct = time.monotonic()

    mon = jobq.Monitor()
    real = InMemorySemantivaTransport()
    silent = jobq.make_logger("c15-master-log")
    orch = QueueSemantivaOrchestrator(transport=jobq.TransportTap(real, mon, "master"), stop_event=None, logger=silent)
    orch.job_queue = jobq.TapQueue(mon, spec["poll_master"], hold_until_statuses=spec.get("hold_until_statuses", 0))   # attribute substitution: counts gets, caps poll
    stop_event = threading.Event()
    threads: dict = {}

    def guarded(role, fn, *a):
        def main():
            try:
                fn(*a)
            except BaseException as exc:  # noqa: BLE001 - a dying thread is an observation
                with mon.lock:
                    mon.thread_deaths[role] = exc
                mon.ev(role, "thread_died", None, type(exc).__name__)
        t = threading.Thread(target=main, name=role, daemon=True)
        threads[role] = t
        return t

    guarded(jobq.MASTER_NAME, orch.run_forever)
    roles = []
    handler = jobq.JobLogHandler(mon)
    for w in range(spec["workers"]):
        role = f"{jobq.WORKER_PREFIX}{w}"
        roles.append(role)
        wl = jobq.make_logger(f"c15-worker-log-{w}", handler)
        wtap = jobq.TransportTap(real, mon, role)
        wtap.hold_cfg_until = len(jobs) if spec.get("hold_until_statuses") else 0
        guarded(role, worker_loop, w, wtap, SequentialSemantivaExecutor(), stop_event, wl,
                spec["poll_worker"])

    shim, restore_uuid = jobq.install_uuid_shim()
    old_switch = sys.getswitchinterval()
    futures: list = [None] * n
    job_ids: list = [None] * n
    t_start = time.monotonic()
    deadline = t_start + WATCHDOG_S
    q = jobq.Quiescence(mon, orch, real, roles, threads, REC)
    q.uses_line_probe = inj.loop_line is not None and getattr(inj, "loop_probe_ok", True)

    def on_done(idx):
        def cb(fut):
            snap = {"tick": None}
            try:
                exc = fut.exception()
                if exc is not None:
                    snap.update(kind="exception", exc=type(exc).__name__, msg=str(exc)[:300])
                else:
                    res = fut.result()
                    data, ctx = res
                    snap.update(kind="result", data=account.plain(data), dtype=type(data).__name__,
                                ctx=account.plain(ctx.to_dict()), obj=id(res))
            except BaseException as e:  # noqa: BLE001
                snap.update(kind="unreadable", exc=type(e).__name__, msg=str(e)[:300])
            snap["tick"] = mon.ev(threading.current_thread().name, "future_done", job_ids[idx], idx)
            with mon.lock:
                mon.completions.setdefault(idx, []).append(snap)
        return cb

    try:
        inj.begin_batch(spec["seed"], spec["p_yield"], mon, hot=[tuple(h) for h in spec.get("hot", [])],
                        slow=spec.get("slow"))
        sys.setswitchinterval(spec["switch"])
        for t in threads.values():
            t.start()
        # ---- client: enqueue with pacing
        for j, job in enumerate(jobs):
            if spec["pacing"][j] > 0:
                time.sleep(spec["pacing"][j])
            cfg = job_cfg(job, bdir, for_queue=True)
            data = job_data(job)
            ctx = ContextType(job_ctx(job))
            mon.ev("client", "enqueue_call", None, j)
            shim.take()
            fut = orch.enqueue(cfg, data=data, context=ctx, return_future=True)
            job_ids[j] = shim.take()
            mon.ev("client", "enqueue_return", job_ids[j], j)
            futures[j] = fut
            fut.add_done_callback(on_done(j))
        t_enq = time.monotonic()
        # ---- wait for quiescence (not for a timeout)
        while not q.step():
            if time.monotonic() > deadline:
                out.inconclusive = (f"batch {spec['b']}: {WATCHDOG_S:.0f}s watchdog fired before quiescence was established "
                                    f"(phase {q.phase}, trace {''.join(q.trace[-12:])}); threads: {thread_positions(threads)}")
                break
            if q.phase in "EFG" and sys.getswitchinterval() != old_switch:
                # every job message has been consumed and every worker is idle for good: only the master still drains
                # status messages, nothing concurrent is left to perturb
                sys.setswitchinterval(old_switch)
            time.sleep(0.002)
    finally:
        sys.setswitchinterval(old_switch)
        t_q = time.monotonic()
        try:
            orch.stop()
        except Exception:
            pass
        stop_event.set()
        for t in threads.values():
            t.join(timeout=10.0)
        line_events, yields, order = inj.end_batch()
        restore_uuid()
    t_join = time.monotonic()
    out.timing = {"direct": round(t_direct - t_begin, 3), "enqueue": round(t_enq - t_start, 3), "quiesce": round(t_q - t_enq, 3),
                  "join": round(t_join - t_q, 3)}
    leaked = [r for r, t in threads.items() if t.is_alive()]
    out.stats["threads_not_stopped"] += len(leaked)
    out.stats["line_events"] += line_events
    out.stats["injected_yields"] += yields
    out.order_hash = canon_hash(order) if order else None
    with mon.lock:
        gets, hits = mon.master_gets, mon.loop_line_hits
        completions = {k: list(v) for k, v in mon.completions.items()}
        deaths = dict(mon.thread_deaths)
        events = list(mon.events)
        wlog = {k: list(v) for k, v in mon.worker_log.items()}
        published = {k: dict(v) for k, v in mon.published.items()}
        delivered = {k: dict(v) for k, v in mon.delivered.items()}
        w_jobs = dict(mon.w_jobs)
        w_sweeps = dict(mon.w_sweeps)
    out.stats["master_loop_iterations"] += gets
    out.stats["master_loop_line_hits"] += hits
    out.stats["worker_sweeps"] += sum(w_sweeps.values())
    out.stats["jobs_handed_to_workers"] += sum(w_jobs.values())
    out.stats["workers_that_ran_a_job"] += sum(1 for v in w_jobs.values() if v)
    out.stats["quiescence_established"] += 1 if q.established else 0
    out.stats["quiescence_restarts"] += q.trace.count("restart")
    if inj.loop_line is not None and abs(hits - gets) > 2:
        out.stats["loop_probe_disagrees_with_get_counter"] += 1
    out.loop_counts = (gets, hits)
    out.qtrace = "".join(q.trace)
    obs_leaves = Counter(leaf_key(e) for e in REC.snapshot())
    REC.clear()
    shutil.rmtree(bdir, ignore_errors=True)

    # ------------------------------------------------------------------ evaluation
    base_w = {"batch": spec_for_witness(spec), "quiescence": "".join(q.trace), "master_loop_iterations": gets,
              "wall_s": round(t_q - t_start, 3)}

    def job_events(j):
        jid = job_ids[j]
        return [list(e) for e in events if e[3] == jid or (e[1] == "client" and e[4] == j)][:40]

    def witness(j, **kw):
        w = dict(base_w, job_index=j, job=jobs[j], job_id=job_ids[j],
                 expected={k: v for k, v in expected[j].items() if k != "leaves"},
                 completions=completions.get(j, []), worker_log=wlog.get(job_ids[j] or "", []), history=job_events(j))
        w.update(kw)
        return w

    flagged = set()
    # master / worker thread deaths
    for role, exc in deaths.items():
        name = type(exc).__name__
        if role == jobq.MASTER_NAME:
            out.findings.append((f"master_thread_died_{name}", f"the master thread died with {name}: {exc}",
                                 dict(base_w, role=role, exc=repr(exc), pending=[j for j in range(n) if not futures[j].done()])))
        else:
            out.findings.append((f"worker_thread_died_{name}", f"worker thread {role} died with {name}: {exc}",
                                 dict(base_w, role=role, exc=repr(exc))))
    master_died = jobq.MASTER_NAME in deaths

    ids_index = {jid: j for j, jid in enumerate(job_ids) if jid}
    for j in range(n):
        fut, exp, job = futures[j], expected[j], jobs[j]
        comps = completions.get(j, [])
        if len(comps) > 1:
            flagged.add(j)
            out.findings.append(("future_completed_twice", f"job {j}: {len(comps)} completion events on one Future", witness(j)))
        if not fut.done():
            out.stats["futures_pending_at_quiescence" if q.established else "futures_pending_undecided"] += 1
            if not q.established or master_died:
                flagged.add(j)
                continue            # undecided (watchdog) or explained by the master's death (reported above)
            flagged.add(j)
            cls = never_classifier(job, exp, replaced[j], job_ids[j], published, delivered)
            out.findings.append((f"future_never_completes_{cls}",
                                 f"job {j} ({job['kind']}): all queues empty, all workers idle, master looped on, Future still pending"
                                 + (f"; direct run raises {exp['exc']}" if not exp["ok"] else f"; direct run returns {exp['data']!r}"),
                                 witness(j)))
            continue
        # client reads the Future (result / exception at the client boundary)
        try:
            exc = fut.exception(timeout=0)
            res = None if exc is not None else fut.result(timeout=0)
        except BaseException as e:  # noqa: BLE001
            exc, res = e, None
        if exc is not None:
            out.stats["futures_completed_exceptionally"] += 1
            others = [k for k, jid in enumerate(job_ids) if k != j and jid and jid in str(exc)]
            if others:
                flagged.add(j)
                out.findings.append(("cross_talk", f"job {j}: its Future received the failure report of job {others[0]}: {str(exc)[:160]}",
                                     witness(j, observed={"exception": type(exc).__name__, "msg": str(exc)[:300]}, other_job=others[0])))
            elif exp["ok"]:
                flagged.add(j)
                hyp = replaced[j]
                cls = ("falsy_payload_data_replaced" if hyp is not None and not hyp["ok"]
                       and (hyp["exc"] in str(exc) or hyp["exc"] == type(exc).__name__) else "unexpected_exception")
                out.findings.append((f"wrong_result_{cls}",
                                     f"job {j} ({job['kind']}): Future raised {type(exc).__name__}: {str(exc)[:160]} but the direct run "
                                     f"returns {exp['data']!r}", witness(j, observed={"exception": type(exc).__name__, "msg": str(exc)[:300]})))
            else:
                out.stats["failing_jobs_reported_exceptionally"] += 1
                if exp["exc"] in str(exc) or exp["exc"] == type(exc).__name__:
                    out.stats["failure_names_original_exception"] += 1
            continue
        out.stats["futures_completed_ok"] += 1
        snap = comps[0] if comps else None
        data, ctx = res
        obs = {"data": account.plain(data), "dtype": type(data).__name__, "ctx": account.plain(ctx.to_dict())}
        if snap is not None and snap.get("kind") == "result":
            # the value seen by the completion callback and the one read by the client later are the same objects;
            # a context still being mutated after completion shows up as a difference between the two snapshots
            if not (account.close(snap["data"], obs["data"]) and account.close(snap["ctx"], obs["ctx"])):
                flagged.add(j)
                out.findings.append(("result_mutated_after_completion",
                                     f"job {j}: (data, context) read at completion differs from the one read after quiescence",
                                     witness(j, observed=obs)))
                continue
        octx = dict(obs["ctx"])
        ann = octx.pop("job_id", None)
        foreign = sorted(k for k in octx if k.startswith(TOKEN_PREFIXES) and not k.endswith("_" + job["uid"]))
        if not exp["ok"]:
            flagged.add(j)
            if foreign:
                out.findings.append(("cross_talk", f"job {j}: its Future completed with foreign context keys {foreign[:4]}",
                                     witness(j, observed=obs, foreign_keys=foreign[:10])))
                continue
            key = ("wrong_result_falsy_payload_data_replaced" if matches_replaced(replaced[j], obs)
                   else "failing_job_future_not_exceptional")
            out.findings.append((key, f"job {j} ({job['kind']}): direct run raises {exp['exc']} but the Future completed with a result "
                                 f"{obs['data']!r} ({obs['dtype']})", witness(j, observed=obs)))
            continue
        same = (obs["dtype"] == exp["dtype"] and account.close(obs["data"], exp["data"]) and account.close(octx, exp["ctx"]))
        ann_ok = isinstance(ann, str) and (job_ids[j] is None or ann == job_ids[j])
        if same and ann_ok:
            out.stats["results_equal_direct_run"] += 1
            continue
        flagged.add(j)
        # classify from the witness
        other = None
        for k in range(n):
            if k == j or not expected[k]["ok"]:
                continue
            if (account.close(obs["data"], expected[k]["data"]) and account.close(octx, expected[k]["ctx"])):
                other = k
                break
        if other is None and isinstance(ann, str) and ann in ids_index and ids_index[ann] != j:
            other = ids_index[ann]
        if other is not None or foreign:
            out.findings.append(("cross_talk", f"job {j}: its Future received job {other}'s result / foreign context keys {foreign[:4]}",
                                 witness(j, observed=obs, other_job=other, foreign_keys=foreign[:10])))
        elif same and not ann_ok:
            out.findings.append(("wrong_result_job_id_annotation", f"job {j}: result equals the direct run but job_id annotation is {ann!r} "
                                 f"(assigned id {job_ids[j]!r})", witness(j, observed=obs)))
        else:
            cls = result_classifier(job, exp, obs, octx, replaced[j])
            out.findings.append((f"wrong_result_{cls}", f"job {j} ({job['kind']}): Future returned data={obs['data']!r} ({obs['dtype']}), "
                                 f"direct run returns {exp['data']!r} ({exp['dtype']}); context differs in "
                                 f"{sorted(set(octx) ^ set(exp['ctx']))[:6] or [k for k in octx if not account.close(octx[k], exp['ctx'].get(k))][:6]}",
                                 witness(j, observed=obs)))
    # exactly-once execution (leaf flight recorder): every leaf of every job ran as often as in the direct runs
    exp_leaves = Counter()
    owner: dict = {}
    for j in range(n):
        for lk in expected[j]["leaves"]:
            exp_leaves[lk] += 1
            owner.setdefault(lk, set()).add(j)
    out.stats["leaf_executions_observed"] += sum(obs_leaves.values())
    if q.established and not master_died and not deaths:
        extra = obs_leaves - exp_leaves
        missing = exp_leaves - obs_leaves
        for lk, c in extra.items():
            js = owner.get(lk, set())
            if (js and js <= flagged) or (not js and any(falsy[k] and k in flagged for k in range(n))):
                out.stats["leaf_differences_explained_by_flagged_jobs"] += 1
                continue            # consequence of a defect already reported for that job (e.g. replaced input data)
            out.findings.append(("job_executed_twice" if js else "foreign_leaf_execution",
                                 f"leaf {lk} ran {c} time(s) more in the queue run than in the direct runs of jobs {sorted(js)}",
                                 dict(base_w, leaf=lk, jobs=sorted(js), extra=c)))
            break
        for lk, c in missing.items():
            js = owner.get(lk, set())
            if js & flagged or any(falsy[k] for k in js):
                continue
            out.findings.append(("result_without_execution", f"leaf {lk} of jobs {sorted(js)} ran {c} time(s) less than in the direct runs "
                                 "although the Futures completed", dict(base_w, leaf=lk, jobs=sorted(js), missing=c)))
            break
    for k, v in published.items():
        out.stats[f"published_{k}"] += sum(v.values())
    for k, v in delivered.items():
        out.stats[f"delivered_{k}"] += sum(v.values())
    return out


def matches_replaced(hyp, obs) -> bool:
    """Does the observed result equal what the pipeline yields when the (falsy) input is replaced by NoDataType?"""
    from vlib import account

    if hyp is None or not hyp["ok"]:
        return False
    octx = {k: v for k, v in obs["ctx"].items() if k != "job_id"}
    return obs["dtype"] == hyp["dtype"] and account.close(obs["data"], hyp["data"]) and account.close(octx, hyp["ctx"])


def thread_positions(threads: dict) -> str:
    """Where every harness thread currently is (innermost frames), for the watchdog's inconclusive message."""
    import traceback

    frames = sys._current_frames()
    out = []
    for role, t in threads.items():
        f = frames.get(t.ident)
        if f is None:
            out.append(f"{role}: not running")
            continue
        st = traceback.extract_stack(f)[-3:]
        out.append(f"{role}: " + " < ".join(f"{os.path.basename(x.filename)}:{x.lineno}:{x.name}" for x in reversed(st)))
    return "; ".join(out)


def never_classifier(job, exp, hyp, jid, published, delivered) -> str:
    """Mechanism of a Future that can no longer complete, from the transport-boundary history of that job."""
    cfg_pub = published.get("cfg", {}).get(str(jid), 0)
    cfg_del = delivered.get("cfg", {}).get(str(jid), 0)
    st_pub = published.get("status", {}).get(str(jid), 0)
    if st_pub:
        return "status_not_matched_to_future"
    if cfg_pub and not cfg_del:
        return "job_message_lost"
    if not exp["ok"]:
        return "failing_job_not_reported"
    if hyp is not None and not hyp["ok"]:
        return "falsy_payload_data_replaced"       # the pipeline only fails because its input became NoDataType
    if cfg_del:
        return "status_not_published"
    return "other"


def result_classifier(job, exp, obs, octx, hyp) -> str:
    from vlib import account

    if matches_replaced(hyp, obs):
        return "falsy_payload_data_replaced"
    try:
        inp = job["data"]
        if obs["dtype"] != exp["dtype"] or not account.close(obs["data"], exp["data"]):
            if inp not in (None, "NoData") and account.close(obs["data"], inp):
                return "input_returned_unprocessed"
            return "data_differs"
    except Exception:
        pass
    return "context_differs"


def spec_for_witness(spec: dict) -> dict:
    return spec


# ------------------------------------------------------------------------------------------------ driver
def pick_fail_positions(rng, n: int, cover: Counter, b: int) -> dict:
    """A failing job at every batch position over the run: take the least-covered position < n."""
    r = rng.random()
    if r < 0.15:
        return {}
    k = 1 if r < 0.8 else min(n, rng.randint(2, 3))
    if n >= 16:
        # large batches are rare: use them to cover the high positions (several failing jobs, highest uncovered first)
        k = max(k, min(4, sum(1 for p in range(n) if cover[p] == 0)))
        pos = sorted(range(n), key=lambda p: (cover[p], -p))[:k]
    else:
        pos = sorted(range(n), key=lambda p: (cover[p], rng.random()))[:k]
    out = {}
    for p in pos:
        cover[p] += 1
        out[p] = FAIL_KINDS[(b + p) % len(FAIL_KINDS)] if rng.random() < 0.7 else rng.choice(FAIL_KINDS)
    return out


def batch_size(rng, b: int) -> int:
    if b == 0:
        return 40
    if b == 1:
        return 1
    r = rng.random()
    if r < 0.2:
        return rng.randint(1, 3)
    if r < 0.7:
        return rng.randint(4, 15)
    return rng.randint(16, 40)


def report(run, spec, out, tag=None):
    for key, what, wit in out.findings:
        run.violation(key, what, wit)
    if out.inconclusive:
        run.note_inconclusive(out.inconclusive)
    for k, v in out.stats.items():
        run.count(k, v)


def same_path_rewritten(run, scratch, seed):
    """A campaign that re-uses ONE configuration path: the YAML at that path is rewritten between jobs (each job is
    enqueued only after the previous Future completed, so which content a job means is unambiguous).  Every Future must
    carry the result of the pipeline the file held when its job was enqueued."""
    import threading

    from semantiva.context_processors.context_types import ContextType
    from semantiva.execution.executor.executor import SequentialSemantivaExecutor
    from semantiva.execution.job_queue.queue_orchestrator import QueueSemantivaOrchestrator
    from semantiva.execution.job_queue.worker import worker_loop
    from semantiva.execution.transport.in_memory import InMemorySemantivaTransport
    from vlib import account, gen, jobq

    path = os.path.join(scratch, "campaign.yaml")
    transport = InMemorySemantivaTransport()
    orch = QueueSemantivaOrchestrator(transport=transport, stop_event=None, logger=jobq.make_logger("c15.samepath.master"))
    orch.job_queue = jobq.TapQueue(jobq.Monitor(), 0.005)       # cap the hard-coded 0.2 s poll
    stop = threading.Event()
    threads = [threading.Thread(target=orch.run_forever, daemon=True, name="c15-sp-master"),
               threading.Thread(target=worker_loop, args=(0, transport, SequentialSemantivaExecutor(), stop, jobq.make_logger("c15.samepath.w0"), 0.002),
                                daemon=True, name="c15-sp-w0")]
    for t in threads:
        t.start()
    rng = random.Random(seed)
    try:
        for step in range(5):
            factor = 1.5 + step + rng.choice([0.0, 0.25])
            nodes = [{"processor": "VSrc", "parameters": {"value": 4.0 + step}}, {"processor": "VMul", "parameters": {"factor": factor}}]
            if step == 3:
                nodes = nodes[:1]                                    # a shorter pipeline at the same path
            with open(path, "w", encoding="utf-8") as fh:
                fh.write(gen.to_yaml(nodes))
            expected = (4.0 + step) * (factor if step != 3 else 1.0)
            fut = orch.enqueue(path, data=None, context=ContextType({}), return_future=True)
            try:
                data, _ctx = fut.result(timeout=WATCHDOG_S)
            except TimeoutError:
                run.note_inconclusive("same-path scenario: watchdog fired")
                return
            except Exception as exc:  # noqa: BLE001
                run.violation("wrong_result_same_path_rewritten", f"step {step}: the job of the rewritten configuration file failed: {type(exc).__name__}: {exc}",
                              {"mode": "same_path", "step": step, "nodes": nodes})
                return
            run.count("same_path_rewritten_jobs")
            got = account.plain(data)
            if not account.close(got, expected):
                run.violation("wrong_result_same_path_rewritten",
                              f"step {step}: the configuration file at one path was rewritten before this job was enqueued; its Future returned {got!r}, "
                              f"the pipeline in the file returns {expected!r}", {"mode": "same_path", "step": step, "nodes": nodes, "observed": got, "expected": expected})
                return
    finally:
        stop.set()
        orch.stop()
        for t in threads:
            t.join(timeout=5)


def scale_down(run, scratch, seed):
    """A pool of three workers on one shared transport; after a first batch ONE worker is retired (its own stop event:
    scale-down, or a worker that died) and the orchestrator keeps being used.  Every Future of the second batch must
    still complete with its own job's result."""
    import threading

    from semantiva.context_processors.context_types import ContextType
    from semantiva.execution.executor.executor import SequentialSemantivaExecutor
    from semantiva.execution.job_queue.queue_orchestrator import QueueSemantivaOrchestrator
    from semantiva.execution.job_queue.worker import worker_loop
    from semantiva.execution.transport.in_memory import InMemorySemantivaTransport
    from vlib import account, gen, jobq

    transport = InMemorySemantivaTransport()
    orch = QueueSemantivaOrchestrator(transport=transport, stop_event=None, logger=jobq.make_logger("c15.scale.master"))
    orch.job_queue = jobq.TapQueue(jobq.Monitor(), 0.005)
    master = threading.Thread(target=orch.run_forever, daemon=True, name="c15-sd-master")
    stops = [threading.Event() for _ in range(3)]
    workers = [threading.Thread(target=worker_loop, args=(i, transport, SequentialSemantivaExecutor(), stops[i], jobq.make_logger(f"c15.scale.w{i}"), 0.002),
                                daemon=True, name=f"c15-sd-w{i}") for i in range(3)]
    master.start()
    for t in workers:
        t.start()
    rng = random.Random(seed)
    retired = rng.randrange(3)

    def batch(tag, n):
        futs = []
        for j in range(n):
            v, f = 2.0 + j + rng.choice([0.0, 0.5]), 1.5 + 0.25 * j
            path = os.path.join(scratch, f"sd_{tag}_{j}.yaml")
            with open(path, "w", encoding="utf-8") as fh:
                fh.write(gen.to_yaml([{"processor": "VSrc", "parameters": {"value": v}}, {"processor": "VMul", "parameters": {"factor": f}}]))
            futs.append((j, v * f, orch.enqueue(path, data=None, context=ContextType({}), return_future=True)))
        for j, expected, fut in futs:
            try:
                data, _ctx = fut.result(timeout=WATCHDOG_S / 4)
            except TimeoutError:
                if not master.is_alive():
                    run.violation("future_never_completes_after_a_worker_was_retired",
                                  f"batch {tag}: job {j} never completed: the master thread died after worker {retired} of 3 was retired "
                                  f"(surviving workers alive: {[t.is_alive() for k, t in enumerate(workers) if k != retired]})",
                                  {"mode": "scale_down", "batch": tag, "job": j, "retired_worker": retired})
                else:
                    run.note_inconclusive(f"scale-down scenario: watchdog fired in batch {tag} with the master alive")
                return False
            except Exception as exc:  # noqa: BLE001
                run.violation("wrong_result_after_a_worker_was_retired", f"batch {tag}: job {j} failed: {type(exc).__name__}: {exc}",
                              {"mode": "scale_down", "batch": tag, "job": j, "retired_worker": retired})
                return False
            got = account.plain(data)
            run.count("scale_down_jobs")
            if not account.close(got, expected):
                run.violation("wrong_result_after_a_worker_was_retired", f"batch {tag}: job {j} returned {got!r}, its pipeline returns {expected!r}",
                              {"mode": "scale_down", "batch": tag, "job": j, "retired_worker": retired})
                return False
        return True

    try:
        if batch("a", 6):
            stops[retired].set()
            workers[retired].join(timeout=5)
            run.count("scale_down_worker_retired", 0 if workers[retired].is_alive() else 1)
            batch("b", 4)
    finally:
        for e in stops:
            e.set()
        orch.stop()
        for t in [master] + workers:
            t.join(timeout=5)


def run(run):
    boot.boot()
    from vlib import gen, jobq
    from vlib.verdict import canon_hash

    seed = run.seed * 1000 + run.shard[0]
    rng = random.Random(seed)
    scratch = tempfile.mkdtemp(prefix="verif-c15-")
    g = gen.Gen(seed + 7, scratch)
    sysmode = os.environ.get("C15_SYSTEMATIC", "1")
    try:
        same_path_rewritten(run, scratch, seed)
    except Exception as exc:  # noqa: BLE001
        run.note_inconclusive(f"same-path scenario failed: {type(exc).__name__}: {exc}")
    try:
        scale_down(run, scratch, seed)
    except Exception as exc:  # noqa: BLE001
        run.note_inconclusive(f"scale-down scenario failed: {type(exc).__name__}: {exc}")
    def systematic_pass(scratch):
        # runs AFTER the perturbation-based batches: its few thousand executions leave thousands of generated classes behind
        # (finding F17), which slows every later Pipeline construction in this process - the status-backlog batch needs the
        # workers to finish a burst within one master poll
        # systematic pass first: it installs / removes its own sys.monitoring tool and module shims (never at the same
        # time as the YieldInjector below) and restores every module attribute before the perturbation-based batches
        from vlib import jobsched

        try:
            jobsched.run_pass(run, scratch)
        except Exception as exc:  # noqa: BLE001 - a harness failure must not take the perturbation-based part down
            import traceback

            run.note_inconclusive(f"systematic pass failed: {type(exc).__name__}: {exc} :: {traceback.format_exc()[-600:]}")
        except BaseException:
            raise
        run.floor("systematic_executions", 500)
        run.assumptions += [
            "systematic pass: interleavings are enumerated at the LINE yield points of queue_orchestrator.py and worker.py; "
            "a transport operation, a Pipeline run, a Future completion (incl. callbacks) and a log call are atomic steps",
            "systematic pass: a row of the systematic_dfs_* tables (scenario x class of preempted thread x preemption bound x "
            "early-expiry budget) is exhaustive iff systematic_dfs_exhaustive_shards == systematic_dfs_shards; other rows are "
            "prefixes of the enumeration cut at the schedule cap. Alternatives are enumerated until the client has returned "
            "and every Future is done (or quiescence is declared with Futures pending); the continuation to quiescence and "
            "the loops' run-out follow a fixed rule. With preemption bound 1 the union of the client / master / worker rows is "
            "the unrestricted bound-1 tree; with bound 2 both preemptions hit the same class of thread",
            "systematic pass: with early-expiry budget 0 a timed wait (master poll, worker sleep) only expires when no thread "
            "can run, so a polling thread never runs while another is inside a job; rows with budget >= 1 cover that",
            "systematic pass: 'never completes' = client returned from every enqueue and every live master/worker thread "
            "woke up from its idle point by time-out twice in a row (once if every Future is done) while the global progress "
            "counter (queue put/get, transport publish/delivery, Future completion) did not move",
        ]
    if sysmode == "only":
        try:
            systematic_pass(scratch)
        finally:
            shutil.rmtree(scratch, ignore_errors=True)
        run.case("systematic-only-slot", True)
        return
    inj = jobq.YieldInjector().install()
    cover: Counter = Counter()
    workers_hist: Counter = Counter()
    kinds: Counter = Counter()
    orders = set()
    t0 = time.time()
    try:
        for b in range(N_BATCHES[run.tier]):
            n = batch_size(rng, b)
            backlog = (b == 1)
            if backlog:
                n = rng.randint(36, 40)
            fails = pick_fail_positions(rng, n, cover, b)
            spec = make_batch(rng, g, b, n, fails, workers=4 if (b == 0 or backlog) else None, points=inj.points)
            if backlog:
                # status backlog: a burst of 36..40 jobs with the master's ORIGINAL 0.2 s poll — once the job queue is
                # empty the master sleeps in its poll while the workers finish, so dozens of statuses wait at one tick
                spec.update(poll_master=None, pacing=[0.0] * n, pacing_mode="burst", p_yield=0.0, slow=None, hot=[],
                            poll_worker=0.001, hold_until_statuses=n - 2)
                # made deterministic: the workers start taking jobs only when all are published, and the master stays in its
                # poll (as if descheduled there) until all but two statuses are waiting
                run.count("status_backlog_batches")
            only = os.environ.get("C15_ONLY")          # debugging aid: run only the named batch indices
            if only and str(b) not in only.split(","):
                continue
            tb = time.time()
            out = run_batch(spec, inj, scratch)
            if os.environ.get("C15_DEBUG"):
                print(f"batch {b}: n={n} w={spec['workers']} switch={spec['switch']:.2e} p={spec['p_yield']} hot={spec['hot']} "
                      f"slow={spec['slow']} pm={spec['poll_master']} pw={spec['poll_worker']} pace={spec['pacing_mode']} wall={time.time() - tb:.2f}s "
                      f"iters={out.loop_counts} trace={out.qtrace} timing={out.timing}", flush=True)
            report(run, spec, out)
            if out.inconclusive:
                watchdogs = run.counters.get("watchdog_batches", 0) + 1
                run.counters["watchdog_batches"] = watchdogs
                if watchdogs >= 2:
                    # the quiescence monitor cannot decide on this tree (e.g. it cannot see the transport): stop here, the
                    # verdict is inconclusive either way — do not spend 120 s on each of the remaining batches
                    run.note_inconclusive("two batches ended by the watchdog: remaining batches skipped")
                    break
            workers_hist[str(spec["workers"])] += 1
            for job in spec["jobs"]:
                kinds[job["kind"]] += 1
            if out.order_hash:
                orders.add(out.order_hash)
            run.count("batches")
            run.count("jobs", n)
            run.count("failing_jobs", len(fails))
            nontrivial = (n >= 2 and spec["workers"] >= 2) or bool(fails)
            run.case(canon_hash(spec), nontrivial,
                     sample={"jobs": n, "workers": spec["workers"], "switch_interval": spec["switch"], "p_yield": spec["p_yield"],
                             "pacing": spec["pacing_mode"], "poll_master": spec["poll_master"], "failing": fails,
                             "hot_lines": spec["hot"], "slow_thread": spec["slow"],
                             "kinds": sorted({j["kind"] for j in spec["jobs"]}), "loop_iterations": out.loop_counts[0]}
                     if b < 3 else None)
        if run.shard[0] == 0:
            run.info["observation_pipeline_instance_job"] = observe_pipeline_instance(inj, scratch)
    finally:
        inj.uninstall()
        shutil.rmtree(scratch, ignore_errors=True)
    if sysmode != "0":
        scratch2 = tempfile.mkdtemp(prefix="verif-c15-sys-")
        try:
            systematic_pass(scratch2)
        finally:
            shutil.rmtree(scratch2, ignore_errors=True)
    run.info["workers_histogram"] = dict(workers_hist)
    run.info["job_kinds"] = dict(kinds)
    run.info["failing_position_histogram"] = {str(k): v for k, v in sorted(cover.items())}
    run.info["distinct_yield_orders"] = len(orders)       # hash of the first 400 (thread, code, line) yield events of a batch; summed over shards
    run.info["master_poll"] = ("orchestrator.job_queue replaced by a queue.Queue subclass that caps the hard-coded 0.2 s get() "
                               "timeout (None = original 0.2 s kept for some small batches)")
    run.info["loop_probe"] = {"while_line_of_run_forever": str(inj.loop_line), "shards_with_probe": 1 if inj.loop_line is not None else 0}
    run.floor("batches", 5)
    run.floor("failing_jobs", 5)
    run.floor("quiescence_established", 5)
    run.floor("master_loop_iterations", 50)
    run.floor("line_events", 1000)
    run.floor("jobs_handed_to_workers", 10)
    run.assumptions += [
        "expected (data, context) of a job = direct Pipeline(cfg).process(Payload(data, ContextType(ctx))) in the same process; "
        "the only permitted difference is the context key job_id (a string; equal to the id drawn by enqueue)",
        "a failing job may complete its Future with any exception type",
        "in-memory transport, SequentialSemantivaExecutor, worker threads in one process; a single client thread enqueues",
        "quiescence reads the transport's _queues mapping and the orchestrator's job_queue; if they cannot be read the batch "
        "is inconclusive, never violated",
    ]


def observe_pipeline_instance(inj, scratch) -> str:
    """Non-deciding observation: enqueue() documents a Pipeline instance as an accepted pipeline_cfg."""
    try:
        job = {"uid": "obs", "u": 7.125, "via": "instance", "many": 0, "fail_kind": None, "kind": "pipeline_instance",
               "nodes": [{"processor": "VMul", "parameters": {"factor": 2.0}}], "data": 7.125, "ctx": {"tok_obs": 7.125}}
        spec = {"b": 9999, "jobs": [job], "workers": 1, "switch": 0.005, "poll_master": 0.002, "poll_worker": 0.001,
                "p_yield": 0.0, "pacing": [0.0], "pacing_mode": "burst", "seed": 1}
        out = run_batch(spec, inj, scratch)
        keys = sorted({k for k, _, _ in out.findings})
        return "Future completed with the direct-run result" if not keys else "; ".join(keys)
    except Exception as exc:  # noqa: BLE001
        return f"observation failed: {type(exc).__name__}: {exc}"


def replay(run, witness):
    boot.boot()
    from vlib import jobq

    if witness.get("mode") == "systematic":
        from vlib import jobsched

        jobsched.replay(run, witness)
        return
    if witness.get("mode") == "scale_down":
        scratch = tempfile.mkdtemp(prefix="verif-c15-")
        try:
            scale_down(run, scratch, run.seed * 1000)
            run.case("scale-down", True, sample={"mode": "scale_down"})
            run.case("replay-second-slot", True)
        finally:
            shutil.rmtree(scratch, ignore_errors=True)
        return
    if witness.get("mode") == "same_path":
        scratch = tempfile.mkdtemp(prefix="verif-c15-")
        try:
            same_path_rewritten(run, scratch, run.seed * 1000)
            run.case("same-path", True, sample={"mode": "same_path"})
            run.case("replay-second-slot", True)
        finally:
            shutil.rmtree(scratch, ignore_errors=True)
        return
    spec = witness["batch"]
    scratch = tempfile.mkdtemp(prefix="verif-c15-")
    inj = jobq.YieldInjector().install()
    try:
        for attempt in range(3):
            out = run_batch(spec, inj, scratch)
            report(run, spec, out)
            run.count("batches")
            if out.findings:
                break
        run.case(spec, True, sample={"jobs": len(spec["jobs"]), "workers": spec["workers"]})
        run.case("replay-second-slot", True)
    finally:
        inj.uninstall()
        shutil.rmtree(scratch, ignore_errors=True)
