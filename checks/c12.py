"""C12 — equal ExpressionSigV1 signatures imply equal values; commuted / re-associated forms agree; semantic
single-point mutations are reflected.

Observed at: the real ``semantiva.metadata.semantic_id.normalize_expression_sig_v1`` (every signature in this check
comes from calling it), the sweep class metadata ``get_metadata()["preprocessor"]["param_expressions"][p]["sig"]`` of
classes built by the real ``ParametricSweepFactory.create`` and ``parameters_sig`` in ``build_inspection_payload``.

Oracles (vlib/exprs.py, no code shared with semantiva):
  1. equal signature => equal value: every enumerated expression is bucketed by its real signature; every member of a
     bucket is evaluated against the bucket representative on 8 exact (int / Fraction) assignments (and, when both are
     in the polynomial fragment, compared exactly through their expanded polynomial normal forms).
  2. invariance: every operand permutation / re-association of every maximal + chain and * chain must keep the signature.
  3. discrimination: every single-point mutant whose value differs from the original on some assignment must change it.
  4. the signature published by a real sweep class / the inspection payload equals normalize_expression_sig_v1(expr).
"""
from __future__ import annotations

import json
import random
import zlib

from vlib import boot
from vlib import exprs as X

LEVEL = "exploration"
RULE = ("exhaustive enumeration by size (size = number of tree nodes) of numeric expressions over variables a,b,c, "
        "constants 0..3, + - * // %, ** with constant exponent 0..3, unary -, abs/min/max, 6 comparisons, 4 comparison "
        "chains, if-else (quick: size<=4, thorough: size<=5 sharded by index modulo 16), plus the polynomial fragment (a,b,c,1,2,+ - *,unary -) for the next two sizes (quick: 5..6, thorough: 6..7), plus a seeded random sample of "
        "sizes 6..11; every expression is sent through the real normalize_expression_sig_v1, bucketed by signature, "
        "permuted/re-associated and mutated. distinct = the expression source; non-trivial = at least 3 nodes and at "
        "least one variable")
SHARDS = {"quick": 1, "thorough": 16}
SHARD_TIMEOUT = {"thorough": 2400}

NMAX = {"quick": (4, 6), "thorough": (5, 7)}   # (full alphabet up to, polynomial fragment up to)
N_RANDOM = {"quick": 1500, "thorough": 12000}            # per shard
RANDOM_SIZES = (6, 7, 8, 9, 10, 11)
VARIANT_CAP = {"quick": 40, "thorough": 150}             # chain variants per chain when not all are produced
N_INSPECT = {"quick": 150, "thorough": 120}              # per shard
PER_KEY_REPORTS = 3          # replay files per mechanism key and process (1 when sharded)
CACHE_MAX = 400000


class State:
    def __init__(self, run, real_sig):
        self.run = run
        self.real_sig = real_sig
        self.reported: dict[str, int] = {}
        self.key_cache: dict[str, str] = {}
        self.val_cache: dict = {}

    def sig(self, source: str):
        self.run.count("sig_calls")
        return self.real_sig(source)

    def values(self, t) -> tuple:
        v = self.val_cache.get(t)
        if v is None:
            if len(self.val_cache) >= CACHE_MAX:
                self.val_cache.clear()
            v = self.val_cache[t] = X.values(t)
        return v

    @staticmethod
    def key(sig) -> str:
        if isinstance(sig, dict) and set(sig) == {"format", "ast"} and isinstance(sig["ast"], str):
            return "%s|%s" % (sig["format"], sig["ast"])
        return json.dumps(sig, sort_keys=True, default=repr)

    def sig_key(self, source: str) -> str:
        """Signature (as a string key) of ``source``; one real call per distinct source (bounded memo: mutants and
        chain variants are very often other members of the enumeration)."""
        k = self.key_cache.get(source)
        if k is None:
            if len(self.key_cache) >= CACHE_MAX:
                self.key_cache.clear()
            k = self.key_cache[source] = self.key(self.sig(source))
        else:
            self.run.count("sig_memo_hits")
        return k

    def report(self, key: str, what: str, witness: dict) -> None:
        self.run.count("viol_" + key)
        n = self.reported.get(key, 0)
        self.reported[key] = n + 1
        if n < (PER_KEY_REPORTS if self.run.shard[1] == 1 else 1):
            self.run.violation(key, what, witness)
        else:
            self.run.count("violations_not_reported_duplicate_key")


# ------------------------------------------------------------------ oracle 1
def oracle1_pair(st: State, rep, member, sigkey: str, vrep=None) -> bool:
    """Both trees have the signature ``sigkey``. Returns True when a violation was reported."""
    run = st.run
    vrep = vrep if vrep is not None else st.values(rep)
    vm = st.values(member)
    d, decided = X.first_difference(vrep, vm)
    run.count("pairs_evaluated")
    run.count("pair_assignments_decided", decided)
    if decided == 0:
        run.count("pairs_undecided_on_all_assignments")
    pr, pm = X.poly(rep), X.poly(member)
    env = va = vb = None
    if pr is not None and pm is not None:
        # polynomial fragment: equality for every assignment is decided exactly by the expanded normal form
        run.count("pairs_decided_by_polynomial_normal_form")
        if pr == pm:
            if d is not None:
                run.note_inconclusive("harness defect: equal normal forms but different values: %s / %s"
                                      % (X.src(rep), X.src(member)))
            return False
        if d is None:
            sep = X.separating_assignment(rep, member)
            if sep is not None:
                env, va, vb = sep
    elif d is None:
        return False
    if d is not None:
        env, va, vb = X.ASSIGNMENTS[d], vrep[d], vm[d]
    reason = X.classify_diff(rep, member)
    where = ("evaluate to %s and %s for %s" % (X.show_value(va), X.show_value(vb), X.show_env(env)) if env is not None
             else "have different polynomial normal forms %s / %s" % (X.poly_str(pr), X.poly_str(pm)))
    st.report(
        "equal_sig_different_value_" + reason,
        "%s and %s have the same ExpressionSigV1 but %s" % (X.src(rep), X.src(member), where),
        {"oracle": "equal_sig", "a": X.to_json(rep), "b": X.to_json(member), "a_src": X.src(rep),
         "b_src": X.src(member), "signature": sigkey, "assignment": X.show_env(env) if env else None,
         "a_value": X.show_value(va) if env else None, "b_value": X.show_value(vb) if env else None,
         "difference": reason})
    return True


def check_buckets(st: State, buckets: dict, label: str) -> None:
    run = st.run
    for key, members in buckets.items():
        run.count("buckets_" + label)
        if len(members) < 2:
            continue
        run.count("buckets_multi_" + label)
        rep = members[0]
        vrep = st.values(rep)
        for m in members[1:]:
            oracle1_pair(st, rep, m, key, vrep)


# ------------------------------------------------------------------ oracle 2
def oracle2(st: State, t, key: str, vt, rng, cap: int) -> bool:
    """All chain variants of ``t`` must have signature ``key``. Returns whether the variant set was complete."""
    run = st.run
    variants, complete = X.chain_variants(t, rng, cap)
    if not variants:
        return complete
    run.count("expressions_with_chain_variants")
    for kind, op, v, same_order in variants:
        vs = X.src(v)
        k2 = st.sig_key(vs)
        run.count("permutation_variants_checked")
        run.count("variants_" + kind)
        # self-check of the oracle's premise: a permuted / re-associated form has the same exact value
        d, _ = X.first_difference(vt, st.values(v))
        if d is not None:
            run.note_inconclusive("harness defect: chain variant %s of %s has a different value" % (vs, X.src(t)))
            continue
        if k2 == key:
            continue
        if kind == "mixed":
            # attribute deterministically: does the shape alone (original operand order) already change the signature?
            kind = "reassoc" if st.sig_key(X.src(same_order)) != key else "reorder"
        name = ("commutative_reorder_changes_sig_" if kind == "reorder" else "reassociation_changes_sig_") + X.OPNAME[op]
        st.report(name,
                  "%s and its %s %s have different ExpressionSigV1" % (
                      X.src(t), "operand permutation" if kind == "reorder" else "re-association", vs),
                  {"oracle": "invariance", "a": X.to_json(t), "b": X.to_json(v), "a_src": X.src(t), "b_src": vs,
                   "a_sig": key, "b_sig": k2, "kind": kind, "op": X.OPNAME[op]})
    return complete


# ------------------------------------------------------------------ oracle 3
def oracle3_one(st: State, t, key: str, vt, kind: str, m, pt=None) -> None:
    run = st.run
    run.count("mutants_generated")
    vm = st.values(m)
    d, decided = X.first_difference(vt, vm)
    pm = X.poly(m) if pt is not None else None
    env = va = vb = None
    if pt is not None and pm is not None:
        # polynomial fragment: semantic difference decided exactly by the expanded normal form
        run.count("mutants_decided_by_polynomial_normal_form")
        if pt == pm:
            if d is not None:
                run.note_inconclusive("harness defect: equal normal forms but different values: %s / %s"
                                      % (X.src(t), X.src(m)))
            run.count("mutants_semantically_equal")
            return
    elif d is None:
        run.count("mutants_not_distinguished_by_assignments" if decided else "mutants_undecided")
        return
    ms = X.src(m)
    k2 = st.sig_key(ms)
    run.count("mutants_semantically_different_checked")
    run.count("mutants_checked_" + kind.split("_")[0])
    if k2 != key:
        return
    if d is not None:
        env, va, vb = X.ASSIGNMENTS[d], vt[d], vm[d]
    else:
        sep = X.separating_assignment(t, m)
        if sep is not None:
            env, va, vb = sep
    where = ("evaluate to %s and %s for %s" % (X.show_value(va), X.show_value(vb), X.show_env(env)) if env is not None
             else "have different polynomial normal forms")
    st.report("mutation_not_reflected_" + kind,
              "%s and its mutant %s %s but have the same ExpressionSigV1" % (X.src(t), ms, where),
              {"oracle": "discrimination", "a": X.to_json(t), "b": X.to_json(m), "a_src": X.src(t), "b_src": ms,
               "kind": kind, "signature": key, "assignment": X.show_env(env) if env else None,
               "a_value": X.show_value(va) if env else None, "b_value": X.show_value(vb) if env else None})


def oracle3(st: State, t, key: str, vt) -> None:
    pt = X.poly(t)
    for kind, m in X.mutants(t):
        oracle3_one(st, t, key, vt, kind, m, pt)


# ------------------------------------------------------------------ oracle 4 (real sweep class / inspection payload)
def inspect_one(st: State, t, via_payload: bool, tools) -> None:
    run = st.run
    source = X.src(t)
    expected = st.sig(source)
    factory, seq, mul, coll, build_payload, evaluator = tools
    variables = {"a": seq([1, 2]), "b": seq([3]), "c": seq([5, 7])}
    try:
        cls = factory.create(element=mul, element_kind="DataOperation", collection_output=coll,
                             vars=variables, parametric_expressions={"factor": source})
        got = cls.get_metadata()["preprocessor"]["param_expressions"]["factor"]["sig"]
    except Exception as exc:  # the factory refusing a grammar expression is C11's business, not C12's
        run.count("inspection_factory_refused_" + type(exc).__name__)
        return
    run.count("inspection_sig_checked")
    if got != expected:
        st.report("inspection_sig_differs",
                  "sweep class metadata sig for %s is %r, normalize_expression_sig_v1 gives %r" % (source, got, expected),
                  {"oracle": "inspection", "a": X.to_json(t), "a_src": source, "via_payload": False,
                   "observed": got, "expected": expected})
    if via_payload:
        nodes = [{"processor": "FloatValueDataSource", "parameters": {"value": 1.0}},
                 {"processor": "FloatMultiplyOperation",
                  "derive": {"parameter_sweep": {"parameters": {"factor": source},
                                                 "variables": {"a": [1, 2], "b": [3], "c": [5, 7]},
                                                 "collection": "FloatDataCollection"}}}]
        try:
            payload = build_payload(nodes)
            got2 = (payload["pipeline_spec_canonical"]["nodes"][1]["preprocessor_metadata"]
                    ["derive"]["parameter_sweep"]["parameters_sig"]["factor"])
        except Exception as exc:
            run.count("inspection_payload_failed_" + type(exc).__name__)
            got2 = None
        if got2 is not None:
            run.count("inspection_payload_sig_checked")
            if got2 != expected:
                st.report("inspection_sig_differs",
                          "inspection payload parameters_sig for %s is %r, normalize_expression_sig_v1 gives %r" % (
                              source, got2, expected),
                          {"oracle": "inspection", "a": X.to_json(t), "a_src": source, "via_payload": True,
                           "observed": got2, "expected": expected})
    if via_payload:
        # several swept parameters on one node, declared in non-alphabetical order: each parameter's reported signature
        # must be the signature of ITS expression (a signature attached to another parameter is an equal signature for
        # two sweeps that compute different values)
        recent = st.__dict__.setdefault("recent_sources", [])
        recent.append(source)
        del recent[:-3]
        if len(recent) == 3 and len(set(recent)) == 3:
            exprs = dict(zip(("r", "q", "p") if st.run.counters.get("multi_param_payload_checked", 0) % 2 else ("q", "r", "p"), recent))
            nodes = [{"processor": "FloatValueDataSource", "parameters": {"value": 1.0}},
                     {"processor": "VPoly",
                      "derive": {"parameter_sweep": {"parameters": dict(exprs), "variables": {"a": [1, 2], "b": [3], "c": [5, 7]},
                                                     "collection": "FloatDataCollection"}}}]
            try:
                payload = build_payload(nodes)
                psig = payload["pipeline_spec_canonical"]["nodes"][1]["preprocessor_metadata"]["derive"]["parameter_sweep"]["parameters_sig"]
            except Exception as exc:
                run.count("multi_param_payload_failed_" + type(exc).__name__)
                psig = None
            if psig is not None:
                run.count("multi_param_payload_checked")
                for pname, psrc in exprs.items():
                    if psig.get(pname) != st.sig(psrc):
                        st.report("inspection_sig_attached_to_other_parameter",
                                  "sweep over parameters %s: parameters_sig[%r] is %r, the signature of its expression %s is %r"
                                  % (list(exprs), pname, psig.get(pname), psrc, st.sig(psrc)),
                                  {"oracle": "inspection_multi", "exprs": exprs, "parameter": pname})
                        break
    # self-check of the exact evaluator against the real ExpressionEvaluator on the integer assignments
    try:
        fn = evaluator.compile(source, set(X.VARS))
    except Exception:
        run.count("evaluator_refused")
        return
    for env in X.ASSIGNMENTS[:7]:
        mine = X.evaluate(t, env)
        if mine == X.UNDECIDED:
            continue
        try:
            real = ("val", fn(**env))
        except ZeroDivisionError:
            real = ("exc", "ZeroDivisionError")
        except Exception:
            continue
        if real[0] == "val" and (isinstance(real[1], (float, complex)) or not isinstance(real[1], int)):
            run.count("evaluator_crosscheck_skipped_inexact")
            continue
        run.count("evaluator_crosscheck")
        if real != mine:
            run.note_inconclusive("harness defect: exact evaluator gives %s, real ExpressionEvaluator %s for %s at %s"
                                  % (mine, real, source, env))


def study_pass(st: State, trees, tools) -> None:
    """A parameter study: ONE node-configuration template is reused and its sweep expression is edited in place
    between builds; every derived node is kept.  Afterwards (i.e. after the whole history) each kept node must still
    report the signature of the expression it was built from, and nodes reporting equal signatures must compute equal
    values.  Nothing the caller does to its own configuration objects after a build may reach a built node."""
    run = st.run
    from semantiva.examples.test_utils import FloatDataType
    from semantiva.pipeline.node_preprocess import preprocess_node_config

    build_payload = tools[4]
    params = {"factor": None}
    template = {"processor": "FloatMultiplyOperation",
                "derive": {"parameter_sweep": {"parameters": params, "variables": {"a": [1, 2], "b": [3], "c": [5, 7]},
                                               "collection": "FloatDataCollection"}}}
    kept = []
    for t in trees:
        source = X.src(t)
        params["factor"] = source
        try:
            cfg = preprocess_node_config(template)
        except Exception as exc:
            run.count("study_build_refused_" + type(exc).__name__)
            continue
        kept.append((t, source, cfg))
    params["factor"] = "a - a"          # the caller moves on
    by_sig: dict = {}
    for t, source, cfg in kept:
        try:
            payload = build_payload([cfg])
            got = payload["pipeline_spec_canonical"]["nodes"][0]["preprocessor_metadata"]["derive"]["parameter_sweep"]["parameters_sig"]["factor"]
        except Exception as exc:
            run.count("study_payload_failed_" + type(exc).__name__)
            continue
        run.count("study_nodes_checked")
        expected = st.sig(source)
        if got != expected:
            st.report("reported_sig_changes_when_caller_edits_its_config",
                      "a sweep node built from %s reports signature %r after the caller re-used and edited the configuration "
                      "mapping it was built from; normalize_expression_sig_v1(%s) is %r" % (source, got, source, expected),
                      {"oracle": "study", "a": X.to_json(t), "a_src": source, "observed": got, "expected": expected})
            continue
        try:
            out = cfg["processor"]().process(FloatDataType(1.0))
            vals = tuple(float(x.data) for x in out)
        except Exception as exc:
            run.count("study_run_failed_" + type(exc).__name__)
            continue
        prev = by_sig.setdefault(json.dumps(got, sort_keys=True, default=str), (source, vals, t))
        if prev[1] != vals:
            st.report("equal_reported_sig_different_sweep_values",
                      "sweep nodes built from %s and %s report the same signature but compute %s and %s" % (prev[0], source, prev[1][:4], vals[:4]),
                      {"oracle": "study", "a": X.to_json(prev[2]), "b": X.to_json(t), "a_src": prev[0], "b_src": source})
        else:
            run.count("study_value_agreements")


def _tools():
    from semantiva.data_processors.parametric_sweep_factory import ParametricSweepFactory, SequenceSpec
    from semantiva.examples.test_utils import FloatDataCollection, FloatMultiplyOperation
    from semantiva.inspection.builder import build_inspection_payload
    from semantiva.utils.safe_eval import ExpressionEvaluator

    return (ParametricSweepFactory, SequenceSpec, FloatMultiplyOperation, FloatDataCollection,
            build_inspection_payload, ExpressionEvaluator())


def _real_sig():
    from semantiva.metadata.semantic_id import normalize_expression_sig_v1

    return normalize_expression_sig_v1


# ------------------------------------------------------------------ run
def run(run):
    boot.boot()
    st = State(run, _real_sig())
    si, sn = run.shard
    rng = random.Random(run.seed * 1000 + si)
    nfull, npoly = NMAX[run.tier]
    cap = VARIANT_CAP[run.tier]

    # phase A: every enumerated expression gets its real signature (every shard computes all of them; a bucket is
    # owned by the shard crc32(signature) % n, an expression by the shard index % n).
    # enumeration = full alphabet for sizes 1..nfull  +  polynomial fragment for sizes nfull+1..npoly
    by_full = X.enumerate_sizes(nfull, X.FULL)
    by_poly = X.enumerate_sizes(npoly - 1, X.POLY)
    blocks = [("full", sz, by_full[sz]) for sz in sorted(by_full)]
    blocks += [("polynomial", sz, X.iter_size(sz, by_poly, X.POLY)) for sz in range(nfull + 1, npoly + 1)]
    buckets: dict[str, list] = {}
    owned = []
    per_size: dict[str, int] = {}
    idx = 0
    for label, sz, trees in blocks:
        for t in trees:
            key = st.sig_key(X.src(t))
            if zlib.crc32(key.encode()) % sn == si:
                buckets.setdefault(key, []).append(t)
            if idx % sn == si:
                owned.append((t, key))
                name = "%s_size_%d" % (label, sz)
                per_size[name] = per_size.get(name, 0) + 1
            idx += 1
    total_enumerated = idx

    # phase B: oracle 1 on the buckets this shard owns
    check_buckets(st, buckets, "enumerated")
    n_buckets = len(buckets)
    n_multi = sum(1 for m in buckets.values() if len(m) >= 2)
    largest = max((len(m) for m in buckets.values()), default=0)
    del buckets

    # phase C: oracles 2 and 3 on the expressions this shard owns
    variants_complete = True
    for j, (t, key) in enumerate(owned):
        s = X.src(t)
        vt = st.values(t)
        nontrivial = X.size(t) >= 3 and X.has_var(t)
        run.case(s, nontrivial, sample={"expr": s, "size": X.size(t), "sig": key} if (j % 997 == 500) else None)
        variants_complete &= oracle2(st, t, key, vt, rng, cap)
        oracle3(st, t, key, vt)

    # phase D: seeded random larger expressions (oracles 1-3; buckets are local to the shard)
    rbuckets: dict[str, list] = {}
    rper_size: dict[str, int] = {}
    randoms = []
    seen = set()
    for j in range(N_RANDOM[run.tier]):
        sz = RANDOM_SIZES[j % len(RANDOM_SIZES)]
        t = X.random_expr(rng, sz)
        if t in seen:
            run.count("random_duplicates_skipped")
            continue
        seen.add(t)
        s = X.src(t)
        key = st.sig_key(s)
        rbuckets.setdefault(key, []).append(t)
        randoms.append(t)
        rper_size[str(sz)] = rper_size.get(str(sz), 0) + 1
        vt = st.values(t)
        run.case(s, X.has_var(t), sample={"expr": s, "size": sz, "sig": key} if j in (7, 8) else None)
        run.count("random_expressions")
        oracle2(st, t, key, vt, rng, cap)
        oracle3(st, t, key, vt)
    check_buckets(st, rbuckets, "random")

    # phase E: the signature a real sweep class / the inspection payload exposes
    tools = _tools()
    pool = [t for t, _ in owned if X.size(t) >= 3]
    picks = [pool[rng.randrange(len(pool))] for _ in range(N_INSPECT[run.tier] * 2 // 3)] if pool else []
    picks += [randoms[rng.randrange(len(randoms))] for _ in range(N_INSPECT[run.tier] // 3)] if randoms else []
    for j, t in enumerate(picks):
        inspect_one(st, t, via_payload=(j % 3 == 0), tools=tools)
    # phase F: history — the caller re-uses and edits its configuration objects between builds
    study_pass(st, picks[:40], tools)

    run.info["alphabet_full"] = X.alphabet_doc(X.FULL)
    run.info["alphabet_polynomial_fragment"] = X.alphabet_doc(X.POLY)
    run.info["size_definition"] = ("number of tree nodes: leaves + unary/binary operators + calls + comparison (a chain "
                                   "counts once) + if-else")
    run.info["assignments"] = [X.show_env(e) for e in X.ASSIGNMENTS]
    run.info["enumeration"] = ("full alphabet: every expression of size 1..%d; polynomial fragment: every expression "
                               "of size %d..%d" % (nfull, nfull + 1, npoly))
    run.info["expressions_per_size"] = per_size
    run.info["random_expressions_per_size"] = rper_size
    run.info["signature_buckets"] = n_buckets
    run.info["signature_buckets_with_2_or_more_members"] = n_multi
    run.info["largest_bucket_by_shard"] = {"shard%d" % si: str(largest)}
    c = run.counters
    run.info["pairs_evaluated"] = c.get("pairs_evaluated", 0)
    run.info["permutations_checked"] = c.get("permutation_variants_checked", 0)
    run.info["mutants_with_semantic_difference_checked"] = c.get("mutants_semantically_different_checked", 0)
    run.info["alphabet_trimmed"] = ("no for sizes <= %d; sizes %d..%d only over the polynomial fragment (variables a,b,c, "
                                    "constants 1,2, + - *, unary -)" % (nfull, nfull + 1, npoly))
    # complete = every expression of the stated enumeration was enumerated and owned by exactly
    # one shard, all its chain variants and all its single-point mutants were produced
    run.exhaustive = bool(variants_complete and sum(per_size.values()) == len(range(si, total_enumerated, sn)))
    run.info["exhaustive_scope"] = ("enumerated part only (full alphabet sizes 1..%d, polynomial fragment sizes %d..%d, all "
                                    "chain variants, all single-point mutants of each); the random sample of sizes "
                                    "%d..%d is not exhaustive"
                                    % (nfull, nfull + 1, npoly, RANDOM_SIZES[0], RANDOM_SIZES[-1]))
    run.floor("sig_calls", 1000)
    run.floor("buckets_multi_enumerated", 20)
    run.floor("pairs_evaluated", 50)
    run.floor("permutation_variants_checked", 100)
    run.floor("mutants_semantically_different_checked", 1000)
    run.floor("inspection_sig_checked", 20)
    run.floor("inspection_payload_sig_checked", 5)
    run.floor("study_nodes_checked", 5)
    run.floor("evaluator_crosscheck", 50)
    run.assumptions += [
        "values are compared in exact arithmetic (int / bool / fractions.Fraction); x ** negative integer is the exact "
        "reciprocal; assignments on which an expression needs a non-integer exponent or exceeds 4096 bits are skipped",
        "inside the polynomial fragment (+ - * unary -, ** constant) equality for every assignment is decided exactly by "
        "the expanded normal form; outside it a pair is 'semantically different' only when one of the 8 assignments "
        "shows it, and mutants they do not distinguish are not checked",
        "string / tuple / float constants are outside the property's numeric scope and are not generated",
    ]


# ------------------------------------------------------------------ replay
def replay(run, witness):
    boot.boot()
    st = State(run, _real_sig())
    a = X.from_json(witness["a"])
    kind = witness.get("oracle")
    run.case(X.src(a), True, sample={"expr": X.src(a)})
    ka = st.sig_key(X.src(a))
    if kind == "inspection":
        run.case("replay-second-slot", True)
        inspect_one(st, a, via_payload=True, tools=_tools())
        return
    if kind == "study":
        run.case("replay-second-slot", True)
        study_pass(st, [a] + ([X.from_json(witness["b"])] if witness.get("b") else []), _tools())
        return
    b = X.from_json(witness["b"])
    run.case(X.src(b), True, sample={"expr": X.src(b)})
    kb = st.sig_key(X.src(b))
    if kind == "equal_sig":
        if ka == kb:
            oracle1_pair(st, a, b, ka)
    elif kind == "invariance":
        if ka != kb:
            d, _ = X.first_difference(st.values(a), st.values(b))
            if d is None:
                name = ("commutative_reorder_changes_sig_" if witness.get("kind") == "reorder"
                        else "reassociation_changes_sig_") + witness.get("op", "")
                st.report(name, "%s and %s have different ExpressionSigV1" % (X.src(a), X.src(b)), witness)
    elif kind == "discrimination":
        oracle3_one(st, a, ka, st.values(a), witness.get("kind", "unknown"), b, X.poly(a))
