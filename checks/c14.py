"""C14 — in-memory transport delivers every message exactly once, in channel order (DESIGN §4 C14, §2.6).

Technique: runtime monitoring of the REAL ``semantiva.execution.transport.in_memory`` code executed by REAL threads
under a deterministic token-passing scheduler (vlib/sched.py).  Yield points are ``sys.monitoring`` LINE events or
INSTRUCTION events (publish / defaultdict factory / subscription iterator; see ``plan``) on every code object of
in_memory.py; the module's ``threading`` attribute is replaced by a shim so that lock contention is a
scheduler-visible "blocked on L" (and ``deque`` by a counting subclass for an informational lock-discipline counter).
Tiers: see ``plan`` (DFS rows, each exhaustive to its preemption bound) and ``run`` (PCT / uniform random / stress).

How the transport API is driven (no real time-outs anywhere): ``subscribe(pattern)`` returns a subscription whose
``__iter__`` is a NON-blocking generator (it pops matching messages until one scan finds nothing, then returns), so a
polling consumer is simply ``for _ in range(polls): for m in sub: log(m.data)``; a callback subscriber
(``subscribe(pattern, callback=...)``) starts a thread through the shim which iterates once and exits.  The final
drain is a ``subscribe("*")`` created BEFORE the concurrent phase and iterated after every thread finished; whatever a
second, fresh ``subscribe("*")`` still finds afterwards was not visible to the existing subscription.

Oracle (history checker, unambiguous histories): every message's data is ``(publisher, channel, seq)``.
conservation (published multiset == delivered multiset), per-consumer monotone seq per (publisher, channel),
``fnmatch(channel, pattern)`` for every delivery, no unexpected exception / no deadlock in any thread.
"""
from __future__ import annotations

import sys
import threading
import time
from collections import Counter
from fnmatch import fnmatch

from vlib import boot, sched

LEVEL = "exploration"
RULE = ("schedules of real threads over the real in-memory transport: bounded-preemption DFS (stateless "
        "re-execution, every scheduling decision at every LINE/INSTRUCTION yield point of in_memory.py enumerated up "
        "to the preemption bound), PCT random priorities and uniform random walks, over a fixed scenario family "
        "(1-3 publishers x 0-2 polling or callback subscribers + final drain; existing / lazily created / shared "
        "channels; exact and wildcard patterns). distinct = hash of the executed (thread, position) sequence + scenario + granularity; "
        "non-trivial = at least one preemption, or some thread ran again after another thread ran")
SHARDS = {"quick": 1, "thorough": 16}
SHARD_TIMEOUT = {"quick": 1800, "thorough": 3600}
_T0 = time.time()
SOFT_BUDGET_S = {"quick": 900, "thorough": 1800}      # random exploration stops widening after this (verdict unaffected)

WATCHDOG_S = 120.0

# code objects that stay at LINE granularity in "instr" mode (everything else, i.e. publish, the defaultdict
# factory lambda, the subscription iterator and any helper a modified tree adds, gets INSTRUCTION events)
LINE_ONLY = {
    "InMemorySubscription.__init__", "InMemorySubscription.__aiter__", "InMemorySubscription.close",
    "InMemorySemantivaTransport.__init__", "InMemorySemantivaTransport.connect", "InMemorySemantivaTransport.close",
    "InMemorySemantivaTransport.subscribe", "InMemorySemantivaTransport.subscribe.<locals>._runner",
}


# ------------------------------------------------------------------------------------------ scenario family
def P(name, *channels):
    return {"name": name, "kind": "pub", "channels": list(channels)}


def C(name, pattern, polls=2):
    return {"name": name, "kind": "sub", "pattern": pattern, "polls": polls}


def L(name, pattern, polls=3, how="break"):
    """Polling consumer (the queue master's style): ``polls`` times {subscribe, take at most one message, stop early
    by ``break`` + close() or by close() inside the loop}; what it leaves behind must stay intact and in order."""
    return {"name": name, "kind": "poll", "pattern": pattern, "polls": polls, "how": how}


def K(name, pattern):
    return {"name": name, "kind": "cb", "pattern": pattern}


def KC(name, pattern):
    """Callback subscriber whose owner closes the subscription from its own thread right after subscribing, while the
    delivery thread is scanning / popping: whatever the delivery thread already took must still be delivered."""
    return {"name": name, "kind": "cbclose", "pattern": pattern}


def S(name, threads, pre=(), preload=()):
    n = len(threads) + sum(1 for t in threads if t["kind"] in ("cb", "cbclose"))
    return {"name": name, "pre": list(pre), "preload": list(preload), "threads": threads, "nthreads": n}


SCENARIOS = [
    # ---- two application threads
    S("2pub_fresh_shared_1msg", [P("P0", "n.x"), P("P1", "n.x")]),
    S("2pub_fresh_shared_2msg", [P("P0", "n.x", "n.x"), P("P1", "n.x", "n.x")]),
    S("2pub_existing_shared_2msg", [P("P0", "a.x", "a.x"), P("P1", "a.x", "a.x")], pre=["a.x"]),
    S("2pub_fresh_distinct", [P("P0", "n.x"), P("P1", "n.y")]),
    S("2pub_mixed_existing_fresh", [P("P0", "a.x", "n.y"), P("P1", "n.y", "a.x")], pre=["a.x"]),
    S("1pub_1sub_exact_existing", [P("P0", "a.x", "a.x"), C("C0", "a.x")], pre=["a.x"]),
    S("1pub_1sub_wild_fresh", [P("P0", "n.x", "n.y"), C("C0", "n.*")]),
    S("2sub_preloaded", [C("C0", "a.x", 1), C("C1", "a.*", 1)], preload=["a.x"]),
    S("1pub_1sub_wildcard_channel_name", [P("P0", "job.*", "job.1"), C("C0", "job.1")]),
    # channel names that are prefixes of one another / patterns that do not end in '*' / character classes
    S("1pub_1sub_prefix_channel_names", [P("P0", "jobs.1", "jobs.10"), C("C0", "jobs.1", 1)]),
    S("1pub_1sub_suffix_pattern", [P("P0", "j.7.cfg", "j.7.cfg.bak"), C("C0", "j.*.cfg", 1)]),
    S("1pub_1sub_charclass_pattern", [P("P0", "a.x", "a.z"), C("C0", "a.[xy]", 1)]),
    # polling consumers that stop early while more messages of the channel are pending, then come back
    S("1pub_1poller_break_existing", [P("P0", "a.x", "a.x", "a.x"), L("L0", "a.x", 3, "break")], pre=["a.x"]),
    S("1pub_1poller_close_inside_fresh", [P("P0", "n.x", "n.x", "n.x"), L("L0", "n.*", 3, "close")]),
    S("2poller_preloaded_backlog", [L("L0", "a.x", 2, "break"), L("L1", "a.*", 2, "close")],
      preload=["a.x", "a.x", "a.x", "a.x"]),
    S("1callback_sub_closed_by_owner_backlog", [KC("K0", "a.x")], preload=["a.x", "a.x"]),
    # ---- three application threads
    S("1pub_1callback_sub_closed_by_owner", [P("P0", "a.x", "a.x"), KC("K0", "a.*")], preload=["a.x"]),
    S("1pub_1poller_1sub_backlog", [P("P0", "a.x", "a.x"), L("L0", "a.x", 2, "break"), C("C0", "a.?", 1)],
      preload=["a.x", "a.x", "a.x"]),
    S("2pub_fresh_shared_1sub_wild", [P("P0", "n.x"), P("P1", "n.x"), C("C0", "n.*")]),
    S("2pub_existing_1sub_exact", [P("P0", "a.x", "a.x"), P("P1", "a.x"), C("C0", "a.x")], pre=["a.x"]),
    S("2pub_two_channels_1sub_wild", [P("P0", "a.x", "a.y"), P("P1", "a.y", "a.x"), C("C0", "a.*")], pre=["a.x"]),
    S("3pub_fresh_shared", [P("P0", "n.x"), P("P1", "n.x"), P("P2", "n.x")]),
    S("3pub_existing_2msg", [P("P0", "a.x", "a.x"), P("P1", "a.x", "a.x"), P("P2", "a.x", "a.x")], pre=["a.x"]),
    S("1pub_2sub_same_channel", [P("P0", "a.x", "a.x"), C("C0", "a.x"), C("C1", "a.?", 1)], pre=["a.x"]),
    # ---- four application threads
    S("2pub_1callback_sub", [P("P0", "a.x"), P("P1", "n.y"), K("K0", "*")], pre=["a.x"]),
    S("2pub_2sub_mixed", [P("P0", "a.x", "n.y"), P("P1", "n.y", "a.x"), C("C0", "a.x"), C("C1", "*", 1)],
      pre=["a.x"]),
    S("3pub_fresh_shared_1sub", [P("P0", "n.x"), P("P1", "n.x"), P("P2", "n.x"), C("C0", "n.x")]),
    S("2pub_2sub_wildcard_channel_name", [P("P0", "job.*"), P("P1", "job.1"), C("C0", "job.1", 1),
                                           C("C1", "job.?", 1)]),
    # ---- five application threads
    S("3pub_2sub", [P("P0", "a.x"), P("P1", "a.x", "n.y"), P("P2", "n.y"), C("C0", "a.*", 1), C("C1", "n.y", 1)],
      pre=["a.x"]),
]
SCN_BY_NAME = {s["name"]: s for s in SCENARIOS}


# ------------------------------------------------------------------------------------------ harness
class _Discipline:
    """Informational only (never a violation: under the GIL an unlocked deque.append is not observable in any
    history, and the property is about deliveries, not about locks).  ``in_memory.deque`` is replaced by a subclass
    that counts mutations performed while the lock created together with that deque is not held by the caller."""

    def __init__(self, tls):
        import collections

        disc = self
        self.tls = tls
        self.mutations = 0
        self.unlocked = 0

        def guard(dq):
            disc.mutations += 1
            lk = dq._verif_lock
            if lk is not None:
                t = sched._ctx()[1]
                if lk._owner is not (t if t is not None else "unmanaged"):
                    disc.unlocked += 1

        class MonitoredDeque(collections.deque):
            _verif_lock = None

            def __init__(self, *a, **k):
                super().__init__(*a, **k)
                tls.last_deque = self

            def append(self, x):
                guard(self)
                return super().append(x)

            def appendleft(self, x):
                guard(self)
                return super().appendleft(x)

            def popleft(self):
                guard(self)
                return super().popleft()

            def pop(self):
                guard(self)
                return super().pop()

        self.cls = MonitoredDeque

    def pair(self, lock):
        dq = getattr(self.tls, "last_deque", None)
        if dq is not None:
            dq._verif_lock = lock          # `(deque(), threading.Lock())`: created together => belong together
            self.tls.last_deque = None


class Exec:
    """Result of one execution."""
    __slots__ = ("sch", "scn", "gran", "attempted", "published", "logs", "patterns", "late", "exceptions",
                 "creations", "findings", "wall")

    @property
    def deterministic(self):
        return self.sch.deterministic


class Harness:
    def __init__(self, gran: str):
        boot.boot()
        from semantiva.execution.transport import in_memory as im

        self.im = im
        self.gran = gran
        self.tls = threading.local()
        self.creations: list = []
        self.shim = sched.ThreadingShim(on_lock_created=self._created)
        self.disc = _Discipline(self.tls)
        self.codes = sched.code_objects(im)
        self.instr = sched.Instrumentation(
            self.codes, instruction_for=(lambda c: c.co_qualname not in LINE_ONLY) if gran == "instr" else None)
        self._saved = None
        self.default_steps: dict[str, int] = {}

    def _created(self, lock):
        self.creations.append(getattr(self.tls, "op", None))
        self.disc.pair(lock)

    def __enter__(self):
        self._saved = (self.im.threading, self.im.deque)
        self.im.threading = self.shim
        self.im.deque = self.disc.cls
        self.instr.install()
        return self

    def __exit__(self, *a):
        self.instr.uninstall()
        self.im.threading, self.im.deque = self._saved

    # -- one execution
    def execute(self, scn, chooser) -> Exec:
        t0 = time.perf_counter()
        tls = self.tls
        self.creations = []
        tr = self.im.InMemorySemantivaTransport()
        tr.connect()
        ex = Exec()
        ex.scn, ex.gran = scn, self.gran
        attempted, published = ex.attempted, ex.published = [], []
        logs, patterns = ex.logs, ex.patterns = {}, {}
        ex.exceptions, ex.late, ex.findings = [], [], []
        mseq: dict = {}

        def m_publish(ch):
            k = mseq.get(ch, 0)
            mseq[ch] = k + 1
            d = ("M", ch, k)
            tls.op = ch
            attempted.append(d)
            tr.publish(ch, d, {})
            published.append(d)
            tls.op = None

        try:
            for ch in scn["pre"]:                 # channel exists (and is empty) before the concurrent phase
                m_publish(ch)
                logs["D.pre:" + ch] = [m.data for m in tr.subscribe(ch)]
                patterns["D.pre:" + ch] = ch
            for ch in scn["preload"]:             # channel exists and holds one undelivered message
                m_publish(ch)
            early = tr.subscribe("*")             # the final-drain subscription exists before anything concurrent
        except Exception as e:  # noqa: BLE001
            ex.exceptions.append(("main-setup", e))
            early = None

        def pub_body(name, channels):
            def body():
                seqs: dict = {}
                for ch in channels:
                    k = seqs.get(ch, 0)
                    seqs[ch] = k + 1
                    d = (name, ch, k)
                    tls.op = ch
                    attempted.append(d)
                    tr.publish(ch, d, {})
                    published.append(d)
                    tls.op = None
            return body

        def sub_body(name, pattern, polls):
            log = logs[name] = []
            patterns[name] = pattern

            def body():
                sub = tr.subscribe(pattern)
                for _ in range(polls):
                    for m in sub:
                        log.append(m.data)
            return body

        def poll_body(name, pattern, polls, how):
            log = logs[name] = []
            patterns[name] = pattern

            def body():
                for _ in range(polls):
                    sub = tr.subscribe(pattern)
                    if how == "break":
                        for m in sub:
                            log.append(m.data)
                            break
                        sub.close()
                    else:
                        for m in sub:
                            log.append(m.data)
                            sub.close()
            return body

        def cbclose_body(name, pattern):
            log = logs[name] = []
            patterns[name] = pattern

            def body():
                sub = tr.subscribe(pattern, callback=lambda m: log.append(m.data))
                sub.close()
            return body

        def cb_body(name, pattern):
            log = logs[name] = []
            patterns[name] = pattern

            def body():
                tr.subscribe(pattern, callback=lambda m: log.append(m.data))
            return body

        s = sched.Scheduler(chooser, watchdog_s=WATCHDOG_S)
        ex.sch = s
        for th in scn["threads"]:
            if th["kind"] == "pub":
                s.spawn(th["name"], pub_body(th["name"], th["channels"]))
            elif th["kind"] == "sub":
                s.spawn(th["name"], sub_body(th["name"], th["pattern"], th["polls"]))
            elif th["kind"] == "cbclose":
                s.spawn(th["name"], cbclose_body(th["name"], th["pattern"]))
            elif th["kind"] == "poll":
                s.spawn(th["name"], poll_body(th["name"], th["pattern"], th["polls"], th["how"]))
            else:
                s.spawn(th["name"], cb_body(th["name"], th["pattern"]))
        s.run()
        for t in s.threads:
            if t.exc is not None:
                ex.exceptions.append((t.name, t.exc))
        if s.deterministic and s.deadlock is None and early is not None:
            try:
                logs["D.final"] = [m.data for m in early]
                patterns["D.final"] = "*"
                ex.late = [m.data for m in tr.subscribe("*")]
            except Exception as e:  # noqa: BLE001
                ex.exceptions.append(("main-drain", e))
        ex.creations = Counter(c for c in self.creations if c is not None)
        if s.deterministic:
            ex.findings = oracle(ex)
        ex.wall = time.perf_counter() - t0
        return ex

    def steps_estimate(self, scn) -> int:
        n = self.default_steps.get(scn["name"])
        if n is None:
            ex = self.execute(scn, sched.ReplayChooser([]))
            n = self.default_steps[scn["name"]] = max(2, len(ex.sch.trace))
        return n

    def readable_trace(self, s, limit=4000):
        names = [t.name for t in s.threads]
        out = []
        for v in s.trace[:limit]:
            out.append(f"{names[v >> 24]} {self.instr.describe(v & 0xFFFFFF)}")
        return out


def rle(names):
    out, last, n = [], None, 0
    for x in names:
        if x == last:
            n += 1
        else:
            if last is not None:
                out.append(f"{last}*{n}")
            last, n = x, 1
    if last is not None:
        out.append(f"{last}*{n}")
    return " ".join(out)


# ------------------------------------------------------------------------------------------ oracle + classifier
def oracle(ex: Exec):
    """Returns [(mechanism_key, what)] — at most one entry per key for one execution."""
    scn = ex.scn
    found: dict[str, list] = {}

    def add(key, what):
        found.setdefault(key, []).append(what)

    if ex.sch.deadlock is not None:
        add("thread_deadlock", f"every live thread blocked on a transport lock: {ex.sch.deadlock}")
    for name, e in ex.exceptions:
        add(f"thread_exception_{type(e).__name__}", f"thread {name}: {type(e).__name__}: {e}")
    if ex.sch.deadlock is not None:
        return [(k, f"{v[0]}" + (f" (+{len(v) - 1} more)" if len(v) > 1 else "")) for k, v in found.items()]

    existing = set(scn["pre"]) | set(scn["preload"])
    attempted = set(ex.attempted)
    delivered: Counter = Counter()
    for cons, items in ex.logs.items():
        pat = ex.patterns[cons]
        last: dict = {}
        for d in items:
            if d not in attempted:
                add("message_not_published", f"consumer {cons} received {d!r} which nobody published")
                continue
            p, ch, k = d
            delivered[d] += 1
            if not fnmatch(ch, pat):
                add("pattern_mismatch", f"consumer {cons} (pattern {pat!r}) received {d!r} from channel {ch!r}")
            prev = last.get((p, ch))
            if prev is not None and k < prev:
                add("order_violation", f"consumer {cons} received seq {k} after seq {prev} of publisher {p} on {ch!r}")
            if prev is None or k > prev:
                last[(p, ch)] = k
    late = Counter(d for d in ex.late)
    for d in late:
        if d not in attempted:
            add("message_not_published", f"late drain found {d!r} which nobody published")
    for d in ex.published:
        c = delivered.get(d, 0)
        if c == 0:
            p, ch, k = d
            if late.get(d):
                add("message_lost_not_visible_to_existing_subscription",
                    f"{d!r} published but never delivered by the '*' subscription that existed before the publish "
                    f"(a fresh subscription created afterwards still finds it)")
            elif ch not in existing and ex.creations.get(ch, 0) >= 2:
                add("message_lost_lazy_channel_creation_race",
                    f"{d!r} published (publish() returned) but delivered to nobody: channel {ch!r} did not exist and "
                    f"its (deque, lock) was created {ex.creations[ch]}x by racing first publishes; the later store "
                    f"replaced the queue this message was appended to")
            else:
                add("message_lost_other", f"{d!r} published (publish() returned) but delivered to nobody")
        if c + late.get(d, 0) > 1:
            add("message_duplicated", f"{d!r} delivered {c + late.get(d, 0)} times")
    return [(k, v[0] + (f" (+{len(v) - 1} more in this schedule)" if len(v) > 1 else "")) for k, v in found.items()]


# ------------------------------------------------------------------------------------------ accounting
class Acct:
    def __init__(self, run):
        self.run = run
        self.hashes: set = set()
        self.max_pre = 0
        self.samples = 0
        self.reported: set = set()

    def account(self, H: Harness, ex: Exec, strategy: str, bound=None):
        run, s, scn = self.run, ex.sch, ex.scn
        run.count("schedules_executed")
        run.count(f"schedules_{strategy}")
        if s.watchdog_fired:
            run.count("watchdog_activations")
            run.note_inconclusive(f"watchdog fired in scenario {scn['name']} ({strategy}); run is non-deterministic")
            return None
        if s.diverged is not None:
            run.count("schedule_divergences")
            run.note_inconclusive(f"schedule diverged in scenario {scn['name']} ({strategy}): {s.diverged}")
            return None
        if s.deadlock is not None:
            run.count("scheduler_deadlocks")
        h = s.interleaving_hash(f"{scn['name']}|{ex.gran}")
        nontrivial = s.preemptions >= 1 or s.interleaved()
        self.hashes.add(h)
        run.count("yield_points", len(s.trace))
        run.count("scheduling_decisions", len(s.schedule))
        run.count("lock_block_handovers", s.blocks)
        run.count("preemptions_total", s.preemptions)
        run.count("%s_schedules_with_preemptions_%s" % (strategy, s.preemptions if s.preemptions < 4 else "4plus"))
        if strategy == "dfs":
            self.max_pre = max(self.max_pre, s.preemptions)
        run.count("messages_published", len(ex.published))
        run.count("messages_delivered", sum(len(v) for v in ex.logs.values()))
        run.count("deliveries_checked_fnmatch", sum(len(v) for v in ex.logs.values()))
        sample = None
        if self.samples < 6 and nontrivial and (self.samples % 2 == 0 or ex.findings):
            self.samples += 1
            sample = {"scenario": scn["name"], "granularity": ex.gran, "strategy": strategy,
                      "preemptions": s.preemptions, "schedule_rle": rle(s.names()),
                      "delivered": {k: v for k, v in ex.logs.items()}, "findings": [k for k, _ in ex.findings]}
        run.case(h, nontrivial, sample=sample)
        for key, what in ex.findings:
            run.count(f"finding_{key}")
            rk = (key, scn["name"], ex.gran, strategy if run.shard[1] == 1 else "")
            if rk in self.reported:          # same mechanism, same scenario: counted above, one witness is enough
                run.count("findings_same_key_and_scenario_not_rereported")
                continue
            self.reported.add(rk)
            names = s.names()
            run.violation(key, f"[{scn['name']}/{ex.gran}/{strategy}] {what}; schedule {rle(names)}", {
                "scenario": scn, "granularity": ex.gran, "strategy": strategy, "bound": bound,
                "schedule": names, "schedule_rle": rle(names), "preemptions": s.preemptions,
                "interleaving": h, "trace": H.readable_trace(s),
                "published": ex.published, "delivered": ex.logs, "late_drain": ex.late,
                "lock_creations_per_channel": dict(ex.creations),
                "expected": "published multiset == delivered multiset; per-consumer monotone seq; fnmatch; no exception",
                "observed": {k: w for k, w in ex.findings},
            })
        return h


def bump(run, table, key, n=1):
    d = run.info.setdefault(table, {})
    d[key] = d.get(key, 0) + n


def explore_dfs(run, acct, H, scn, bound, max_schedules=None):
    key = f"{scn['name']}|threads={scn['nthreads']}|{H.gran}|bound={bound}"
    salt = sum(key.encode()) % max(1, run.shard[1])          # rotates the subtree->shard assignment between rows
    dfs = sched.DFS(bound, shard=run.shard, max_schedules=max_schedules, salt=salt)
    seen = set()
    losing = 0
    for chooser in dfs:
        ex = H.execute(scn, chooser)
        if not ex.deterministic:
            dfs.aborted = True
        if dfs.is_spine and run.shard[0] != 0:
            continue                      # discovery run every shard needs; shard 0 accounts for it
        h = acct.account(H, ex, "dfs", bound)
        if h is not None:
            seen.add(h)
            if ex.findings:
                losing += 1
    bump(run, "dfs_schedules", key, dfs.executed - (dfs.spine_executed if run.shard[0] != 0 else 0))
    bump(run, "dfs_distinct_interleavings", key, len(seen))
    bump(run, "dfs_schedules_with_findings", key, losing)
    bump(run, "dfs_exhaustive_shards", key, 1 if dfs.exhausted else 0)
    bump(run, "dfs_shards", key, 1)
    if not dfs.exhausted:
        run.exhaustive = False
        run.count("dfs_rows_not_exhaustive")
    return dfs


def explore_random(run, acct, H, rng, n_total, strategy, offset=0):
    i0, n = run.shard
    for i in range(n_total):
        if i % n != i0:
            continue
        if time.time() - _T0 > SOFT_BUDGET_S[run.tier]:
            # a loaded machine: the random walks stop widening; what was explored is what the evidence reports
            run.count(f"random_schedules_not_run_time_budget_{strategy}", len(range(i, n_total, n)))
            break
        scn = SCENARIOS[(i + offset) % len(SCENARIOS)]
        if strategy == "pct":
            depth = 1 + (i // len(SCENARIOS)) % 3
            chooser = sched.PCTChooser(rng, depth, H.steps_estimate(scn))
        else:
            chooser = sched.RandomChooser(rng)
        ex = H.execute(scn, chooser)
        acct.account(H, ex, strategy)


# ------------------------------------------------------------------------------------------ free-running stress
def async_cancellation(run):
    """The subscription's asynchronous iterator under task cancellation (asyncio is one thread: the interleavings are
    the event-loop turns).  A consumer iterating with ``async for`` is cancelled after n loop turns, for every n; what it
    did not receive must still be in the channel, nothing may be lost or duplicated, order is kept."""
    import asyncio

    boot.boot()
    from semantiva.execution.transport.in_memory import InMemorySemantivaTransport

    async def scenario(n_turns, n_msgs):
        tr = InMemorySemantivaTransport()
        tr.connect()
        sent = [("A", "a.x", k) for k in range(n_msgs)]
        for d in sent:
            tr.publish("a.x", d, {})
        got = []

        async def consumer():
            sub = tr.subscribe("a.*")
            async for m in sub:
                got.append(m.data)
                await asyncio.sleep(0)

        task = asyncio.ensure_future(consumer())
        for _ in range(n_turns):
            await asyncio.sleep(0)
        task.cancel()
        try:
            await task
        except asyncio.CancelledError:
            pass
        rest = [m.data for m in tr.subscribe("*")]
        return sent, got, rest

    for n_msgs in (1, 3, 5):
        for n_turns in range(0, 3 * n_msgs + 4):
            sent, got, rest = asyncio.run(scenario(n_turns, n_msgs))
            run.count("async_cancellation_scenarios")
            allseen = got + rest
            if sorted(allseen) != sorted(sent):
                lost = sorted(set(sent) - set(allseen))
                dup = sorted({d for d in allseen if allseen.count(d) > 1})
                run.violation("message_lost_async_iteration_cancelled" if lost else "message_duplicated_async_iteration_cancelled",
                              f"async consumer cancelled after {n_turns} event-loop turns with {n_msgs} messages queued: lost {lost}, duplicated {dup}",
                              {"mode": "async_cancellation", "turns": n_turns, "messages": n_msgs, "consumer_got": got, "left_in_channel": rest})
                return
            if [d[2] for d in got] != sorted(d[2] for d in got) or [d[2] for d in rest] != sorted(d[2] for d in rest):
                run.violation("order_violation_async_iteration", f"async consumer / remaining channel out of publication order: {got} / {rest}",
                              {"mode": "async_cancellation", "turns": n_turns, "messages": n_msgs})
                return


def stress(run, rounds, n_pub=10, n_con=6, msgs=40):
    """Real preemption (switch interval 1 us), no scheduler, same oracle. Sanity backstop only."""
    boot.boot()
    from semantiva.execution.transport import in_memory as im

    tls = threading.local()
    created: list = []
    shim = sched.CountingThreading(on_lock_created=lambda lk: created.append(getattr(tls, "op", None)))
    saved, old_si = im.threading, sys.getswitchinterval()
    im.threading = shim
    sys.setswitchinterval(1e-6)
    try:
        for r in range(rounds):
            del created[:]
            tr = im.InMemorySemantivaTransport()
            pre = ["a.0", "a.1"]
            fresh = [f"n.{j}" for j in range(6)]
            for ch in pre:
                tr.publish(ch, ("M", ch, 0), {})
                assert [m.data for m in tr.subscribe(ch)] == [("M", ch, 0)]
            early = tr.subscribe("*")
            chans = pre + fresh
            pats = ["*", "a.*", "n.*", "n.0", "a.1", "n.?"]
            published, logs, patterns, excs = [], {}, {}, []
            barrier = threading.Barrier(n_pub + n_con)
            done = threading.Event()

            def pub(name, rot):
                mine = []
                try:
                    barrier.wait()
                    seqs: dict = {}
                    for k in range(msgs):
                        ch = fresh[(k + rot) % len(fresh)] if k < len(fresh) else chans[(k * 7 + rot) % len(chans)]
                        q = seqs.get(ch, 0)
                        seqs[ch] = q + 1
                        d = (name, ch, q)
                        tls.op = ch
                        tr.publish(ch, d, {})
                        mine.append(d)
                except BaseException as e:  # noqa: BLE001
                    excs.append((name, e))
                published.append(mine)

            def con(name, pat):
                log = logs[name] = []
                patterns[name] = pat
                try:
                    barrier.wait()
                    sub = tr.subscribe(pat)
                    while True:
                        fin = done.is_set()
                        for m in sub:
                            log.append(m.data)
                        if fin:
                            break
                except BaseException as e:  # noqa: BLE001
                    excs.append((name, e))

            pubs = [threading.Thread(target=pub, args=(f"P{i}", i % 3)) for i in range(n_pub)]
            cons = [threading.Thread(target=con, args=(f"C{i}", pats[i % len(pats)])) for i in range(n_con)]
            for t in pubs + cons:
                t.start()
            for t in pubs:
                t.join()
            done.set()                               # consumers do one more complete scan after this, then stop
            for t in cons:
                t.join()
            ex = Exec()
            ex.scn = {"name": "free_running_stress", "pre": pre, "preload": []}
            ex.gran = "free"
            ex.published = [d for mine in published for d in mine]
            ex.attempted = ex.published
            ex.logs, ex.patterns, ex.exceptions = logs, patterns, excs
            logs["D.final"] = [m.data for m in early]
            patterns["D.final"] = "*"
            ex.late = [m.data for m in tr.subscribe("*")]
            ex.creations = Counter(c for c in created if c is not None)

            class _S:
                deadlock = None
            ex.sch = _S()
            run.count("stress_rounds")
            run.count("stress_threads", n_pub + n_con)
            run.count("stress_messages_published", len(ex.published))
            run.count("stress_messages_delivered", sum(len(v) for v in logs.values()))
            for key, what in oracle(ex):
                run.count(f"finding_{key}")
                run.violation(key, f"[free-running stress round {r}] {what}", {
                    "scenario": ex.scn, "strategy": "free_running", "published_n": len(ex.published),
                    "lock_creations_per_channel": dict(ex.creations), "observed": what,
                    "note": "real preemption; not replayable by schedule"})
    finally:
        sys.setswitchinterval(old_si)
        im.threading = saved


# ------------------------------------------------------------------------------------------ tiers
def plan(tier):
    """[(granularity, scenario, preemption bound)] — the DFS rows of a tier (each row is exhaustive to its bound).

    quick:    LINE bound 2 (two threads) / 1 (three to five threads); INSTRUCTION bound 1 (two and three threads)
    thorough: LINE bound 3 / 2 / 2 / 1 for 2 / 3 / 4 / 5 threads; INSTRUCTION bound 3 / 2 / 1 / 1
    """
    rows = []
    for scn in SCENARIOS:
        n = scn["nthreads"]
        if tier == "quick":
            rows.append(("line", scn, 2 if n == 2 else 1))
            if n <= 3:
                rows.append(("instr", scn, 1))
        else:
            rows.append(("line", scn, 3 if n == 2 else 2 if n <= 4 else 1))
            rows.append(("instr", scn, 3 if n == 2 else 2 if n == 3 else 1))
    return rows


def pin_cpu(run):
    """Token passing runs one thread at a time: one core per process avoids cross-core wake-ups (speed only)."""
    import os

    try:
        cpus = sorted(os.sched_getaffinity(0))
        if os.getloadavg()[0] > len(cpus) / 2:
            run.info["cpu_pinning"] = "off (machine loaded: a pinned process cannot move to an idle core)"
            return
        base = os.getppid() if run.shard[1] > 1 else os.getpid()     # spread concurrent checks over the cores
        os.sched_setaffinity(0, {cpus[(base + run.shard[0]) % len(cpus)]})
    except (AttributeError, OSError):
        pass


def run(run):
    import random

    boot.boot()
    pin_cpu(run)
    rng = random.Random(run.seed * 1000 + run.shard[0])
    acct = Acct(run)
    run.exhaustive = True
    rows = plan(run.tier)
    n_rand = {"quick": (2000, 600), "thorough": (12500, 12500)}[run.tier]
    for gran in ("line", "instr"):
        t0 = time.time()
        with Harness(gran) as H:
            for g, scn, bound in rows:
                if g == gran:
                    explore_dfs(run, acct, H, scn, bound)
            run.info[f"phase_wall_dfs_{gran}_s"] = round(time.time() - t0, 1)
            if run.tier == "quick":
                # ~2000 PCT schedules at LINE granularity, 600 uniform random walks at INSTRUCTION granularity
                explore_random(run, acct, H, rng, n_rand[0] if gran == "line" else n_rand[1],
                               "pct" if gran == "line" else "random", offset=run.seed)
            else:
                explore_random(run, acct, H, rng, n_rand[0], "pct", offset=run.seed)
                explore_random(run, acct, H, rng, n_rand[1], "random", offset=run.seed)
            # informational lock-discipline counters (see _Discipline)
            run.count("queue_mutations_observed", H.disc.mutations)
            run.count("queue_mutations_without_channel_lock_informational", H.disc.unlocked)
    if run.shard[0] == 0:
        async_cancellation(run)     # the asynchronous iterator under cancellation at every event-loop turn (deterministic)
    if run.tier == "thorough":
        stress(run, rounds=16)      # 16 shards x 16 rounds x 10 publishers x 40 messages ~ 1e5 messages, 16 threads
    for k in ("watchdog_activations", "scheduler_deadlocks", "schedule_divergences"):
        run.count(k, 0)                      # explicit zeros in the evidence
    run.count("distinct_interleavings_this_process", len(acct.hashes))
    bump(run, "dfs_max_preemptions_seen_by_shards", str(acct.max_pre))
    if run.counters.get("watchdog_activations", 0) or run.counters.get("schedule_divergences", 0):
        run.exhaustive = False
    run.floor("schedules_executed", 500)
    run.floor("yield_points", 10000)
    run.floor("messages_delivered", 200)
    run.floor("lock_block_handovers", 1)
    run.assumptions += [
        "interleavings are enumerated at the yield points of in_memory.py only (LINE, or INSTRUCTION for publish / "
        "factory / iterator code); C-level operations (deque.append/popleft, dict store, list(dict.items())) are "
        "atomic under the GIL and are treated as atomic steps",
        "locks the transport creates come from in_memory.threading (the shim); a lock obtained any other way would "
        "only be covered by the watchdog fallback (activations are counted and must be 0 for the exhaustive flag)",
        "a row of the dfs_* tables is exhaustive to its preemption bound iff dfs_exhaustive_shards == dfs_shards; "
        "the 5-thread scenario is only explored to preemption bound 1 by DFS (plus PCT/random walks)",
        "queue_mutations_without_channel_lock_informational is evidence only: an unlocked deque.append/popleft is "
        "reported as a violation only when it becomes visible in a history (loss, duplicate, order, exception)",
    ]


def replay(run, witness):
    boot.boot()
    if witness.get("mode") == "async_cancellation":
        async_cancellation(run)
        run.case("async-cancellation", True)
        run.case("replay-second-slot", True)
        return
    scn = witness["scenario"]
    if witness.get("strategy") == "free_running":
        run.note_inconclusive("free-running stress witnesses are not replayable by schedule")
        return
    acct = Acct(run)
    with Harness(witness.get("granularity", "line")) as H:
        ex = H.execute(scn, sched.ReplayChooser(witness["schedule"]))
        acct.account(H, ex, "replay", witness.get("bound"))
        print(f"replayed {len(ex.sch.schedule)} decisions, preemptions={ex.sch.preemptions}, "
              f"same interleaving: {ex.sch.interleaving_hash(scn['name'] + '|' + ex.gran) == witness.get('interleaving')}")
        print("findings:", ex.findings)
        # second distinct slot so that a replay is not reported as 'too few cases'
        ex2 = H.execute(scn, sched.ReplayChooser([]))
        run.case("replay-serial-" + ex2.sch.interleaving_hash(), True)
        run.case("replay-" + witness.get("interleaving", "x"), True)
