"""C13 — trace aggregation is order-independent and right for every partial trace.

Real traces only (single runs with every failure kind; run-space launches with a failing run at every index, file
and directory output).  For each trace: every prefix in global emission order (crash at any line) is compared with
a small reference verdict over the *set* of records; random permutations, reversed / sorted-by-type orders, k-way
interleavings of the per-run files and random subsets must give identical RunCompleteness / LaunchCompleteness;
every aggregator is finalised twice and both results must be equal.
"""
from __future__ import annotations

import dataclasses
import json
import random
import shutil
import tempfile

from vlib import boot

LEVEL = "fault_enumeration"
RULE = ("traces produced by the real runtime (C06-style faulted single runs; C09-style launches with failing run at every "
        "index, file/dir mode); per trace: every prefix length, 20 random permutations + reversed + sorted-by-type, random "
        "k-way interleavings of per-run files, 30 random subsets x 2 permutations; distinct = hash of (trace shape, prefix "
        "length | order kind); non-trivial = the ingested set has >= 3 records")
SHARDS = {"quick": 4, "thorough": 16}
SHARD_TIMEOUT = {"quick": 600, "thorough": 3000}
N_TRACES = {"quick": (40, 15), "thorough": (150, 50)}   # (single-run traces, launches) per shard


def verdicts(records, contracts):
    """Ingest in the given order, finalise everything -> JSON-able dict (also finalises twice)."""
    from semantiva.trace.aggregation.aggregator import TraceAggregator

    agg = TraceAggregator()
    agg.ingest_many(records)
    runs, launches = agg.finalize_all()
    out = {"runs": {r.run_id: dataclasses.asdict(r) for r in runs},
           "launches": {f"{l.run_space_launch_id}#{l.run_space_attempt}": dataclasses.asdict(l) for l in launches}}
    # the roll-up a caller gets for ONE launch attempt must be the one finalize_all reports for it
    for l in launches:
        one = dataclasses.asdict(agg.finalize_launch(l.run_space_launch_id, l.run_space_attempt))
        if json.dumps(one, sort_keys=True, default=str) != json.dumps(dataclasses.asdict(l), sort_keys=True, default=str):
            out.setdefault("finalize_launch_differs_from_finalize_all", []).append(f"{l.run_space_launch_id}#{l.run_space_attempt}")
    runs2, launches2 = agg.finalize_all()
    out2 = {"runs": {r.run_id: dataclasses.asdict(r) for r in runs2},
            "launches": {f"{l.run_space_launch_id}#{l.run_space_attempt}": dataclasses.asdict(l) for l in launches2}}
    return out, out2


def reference(records):
    """Documented verdicts from the SET of records (prefix of a runtime trace)."""
    runs: dict = {}
    launches: dict = {}
    for r in records:
        t = r.get("record_type")
        if t in ("pipeline_start", "pipeline_end"):
            e = runs.setdefault(r["run_id"], {"start": False, "end": False, "nodes": set(), "canon": None, "launch": None})
            if t == "pipeline_start":
                e["start"] = True
                e["canon"] = [n["node_uuid"] for n in (r.get("pipeline_spec_canonical") or {}).get("nodes", [])]
                if r.get("run_space_launch_id") is not None:
                    e["launch"] = f"{r['run_space_launch_id']}#{r.get('run_space_attempt')}"
            else:
                e["end"] = True
        elif t == "ser":
            ident = r.get("identity", {})
            e = runs.setdefault(ident["run_id"], {"start": False, "end": False, "nodes": set(), "canon": None, "launch": None})
            e["nodes"].add(ident["node_id"])
        elif t in ("run_space_start", "run_space_end"):
            key = f"{r['run_space_launch_id']}#{r['run_space_attempt']}"
            le = launches.setdefault(key, {"start": False, "end": False, "planned": None})
            if t == "run_space_start":
                le["start"] = True
                le["planned"] = r.get("run_space_planned_run_count")
            else:
                le["end"] = True
    out = {"runs": {}, "launches": {}}
    for rid, e in runs.items():
        status = "complete" if (e["start"] and e["end"]) else "partial"
        problems = ([] if e["start"] else ["missing_pipeline_start"]) + ([] if e["end"] else ["missing_pipeline_end"])
        missing = sorted(set(e["canon"]) - e["nodes"]) if e["canon"] else []
        out["runs"][rid] = {"status": status, "problems": problems, "missing_nodes": missing, "orphan_nodes": []}
    for key, le in launches.items():
        mine = [rid for rid, e in runs.items() if e["launch"] == key]
        counts = {"complete": 0, "partial": 0, "invalid": 0}
        for rid in mine:
            counts[out["runs"][rid]["status"]] += 1
        complete = le["start"] and le["end"] and not counts["partial"] and not counts["invalid"]
        problems = ([] if le["start"] else ["missing_run_space_start"]) + ([] if le["end"] else ["missing_run_space_end"])
        out["launches"][key] = {"status": "complete" if complete else "partial", "problems": problems,
                                "runs_total": len(mine), "runs_by_status": counts, "planned_run_count": le["planned"]}
    return out


def compare_with_reference(run, got, ref, witness, what):
    for rid, r in ref["runs"].items():
        g = got["runs"].get(rid)
        if g is None:
            run.violation("run_missing_from_aggregate", f"{what}: run {rid} has records but no verdict", witness)
            continue
        for f in ("status", "problems", "missing_nodes", "orphan_nodes"):
            if (sorted(g[f]) if isinstance(g[f], list) else g[f]) != (sorted(r[f]) if isinstance(r[f], list) else r[f]):
                run.violation(f"run_verdict_wrong:{f}", f"{what}: run verdict {f}={g[f]!r}, documented {r[f]!r}", dict(witness, got=g, expected=r))
    for key, l in ref["launches"].items():
        g = got["launches"].get(key)
        if g is None:
            run.violation("launch_missing_from_aggregate", f"{what}: launch {key} has records but no verdict", witness)
            continue
        if g["status"] != l["status"] or sorted(g["problems"]) != sorted(l["problems"]):
            run.violation("launch_verdict_wrong:status", f"{what}: launch status/problems {g['status']}/{g['problems']}, documented {l['status']}/{l['problems']}",
                          dict(witness, got=g, expected=l))
        s = g.get("summary", {})
        if s.get("runs_total") != l["runs_total"] or s.get("runs_by_status") != l["runs_by_status"]:
            run.violation("launch_rollup_wrong", f"{what}: roll-up {s.get('runs_total')}/{s.get('runs_by_status')}, counts of its runs' verdicts {l['runs_total']}/{l['runs_by_status']}",
                          dict(witness, got=g, expected=l))
        if s.get("planned_run_count") != l["planned_run_count"]:
            run.violation("launch_planned_count_wrong", f"{what}: planned_run_count {s.get('planned_run_count')} vs {l['planned_run_count']}", dict(witness, got=g))


def rollup_consistency(run, got, records, witness, what) -> None:
    """For ANY record set: a launch's roll-up (runs_total, runs_by_status) equals the counts of the verdicts the same
    aggregate gives to the runs whose pipeline_start links them to that launch attempt."""
    link = {}
    for r in records:
        if r.get("record_type") == "pipeline_start" and r.get("run_space_launch_id") is not None:
            link[r["run_id"]] = f"{r['run_space_launch_id']}#{r.get('run_space_attempt')}"
    for key, g in got["launches"].items():
        mine = [rid for rid, k in link.items() if k == key]
        counts = {"complete": 0, "partial": 0, "invalid": 0}
        for rid in mine:
            st = (got["runs"].get(rid) or {}).get("status")
            if st in counts:
                counts[st] += 1
        s_ = g.get("summary", {})
        run.count("rollup_consistency_checked")
        if s_.get("runs_total") != len(mine) or s_.get("runs_by_status") != counts:
            run.violation("launch_rollup_differs_from_its_runs_verdicts",
                          f"{what}: roll-up {s_.get('runs_total')}/{s_.get('runs_by_status')} but the same aggregate gives its {len(mine)} runs the verdicts {counts} "
                          f"(launch status {g.get('status')}, problems {g.get('problems')})", dict(witness, got=g))


def kway(files_records: list, rng) -> list:
    """Random interleaving preserving each file's own order."""
    idx = [0] * len(files_records)
    out = []
    live = [i for i, f in enumerate(files_records) if f]
    while live:
        i = rng.choice(live)
        out.append(files_records[i][idx[i]])
        idx[i] += 1
        if idx[i] >= len(files_records[i]):
            live.remove(i)
    return out


def exercise(run, records, files_records, label, rng):
    """All C13 oracles on one real trace (records in global emission order)."""
    from vlib.verdict import canon_hash

    shape = [r.get("record_type") for r in records]
    witness = {"trace": label, "shape": shape}
    # ---- every prefix (crash at any line)
    for k in range(1, len(records) + 1):
        prefix = records[:k]
        got, got2 = verdicts(prefix, None)
        run.count("aggregator_runs")
        run.count("prefixes_checked")
        if {k_: v_ for k_, v_ in got.items() if k_ in ("runs", "launches")} != got2:
            run.violation("finalize_twice_differs", f"{label}: finalising twice gives different verdicts at prefix {k}", dict(witness, prefix=k))
        if got.get("finalize_launch_differs_from_finalize_all"):
            run.violation("finalize_launch_differs_from_finalize_all",
                          f"{label}: finalize_launch(id, attempt) and the entry finalize_all() reports for the same attempt differ at prefix {k}: "
                          f"{got['finalize_launch_differs_from_finalize_all']}", dict(witness, prefix=k))
        compare_with_reference(run, got, reference(prefix), dict(witness, prefix=k), f"{label} prefix {k}/{len(records)}")
        run.case(canon_hash([shape, "prefix", k]), k >= 3)
    # ---- one long-lived aggregator fed record by record and finalised after every record (live monitoring):
    # the verdict after k records must be the documented verdict of the k-record prefix
    from semantiva.trace.aggregation.aggregator import TraceAggregator

    live = TraceAggregator()
    for k, rec in enumerate(records, 1):
        live.ingest(rec)
        runs_l, launches_l = live.finalize_all()
        got_live = {"runs": {r.run_id: dataclasses.asdict(r) for r in runs_l},
                    "launches": {f"{l.run_space_launch_id}#{l.run_space_attempt}": dataclasses.asdict(l) for l in launches_l}}
        run.count("aggregator_runs")
        run.count("incremental_finalisations")
        fresh, _ = verdicts(records[:k], None)
        fresh.pop("finalize_launch_differs_from_finalize_all", None)
        if json.dumps(got_live, sort_keys=True, default=str) != json.dumps(fresh, sort_keys=True, default=str):
            field = _first_field_diff(fresh, got_live)
            run.violation(f"incremental_verdict_stale:{field}",
                          f"{label}: an aggregator finalised after every record gives a different verdict at record {k} than a fresh aggregator fed the same {k} records (field {field})",
                          dict(witness, prefix=k))
            break
    # ---- crash points of OTHER file orders (directory mode: a reader may meet the per-run files before the run-space
    # file): every prefix of a k-way interleaving is a union of per-file prefixes
    if len(files_records) > 1:
        for w in range(4):
            inter = kway(files_records, rng) if w else [r for recs in sorted(files_records, key=lambda f: f[0].get("record_type", "").startswith("run_space")) for r in recs]
            for k in range(1, len(inter) + 1):
                gotk, _ = verdicts(inter[:k], None)
                gotk.pop("finalize_launch_differs_from_finalize_all", None)
                run.count("aggregator_runs")
                run.count("kway_prefixes_checked")
                rollup_consistency(run, gotk, inter[:k], dict(witness, prefix=k, file_order=w), f"{label} file-order {w} prefix {k}/{len(inter)}")
    # ---- order independence on the full set and on subsets
    sets = [("full", records)]
    for _ in range(30):
        sub = [r for r in records if rng.random() < rng.choice([0.3, 0.6, 0.85])]
        if sub:
            sets.append(("subset", sub))
    for kind, recs in sets:
        base, _ = verdicts(recs, None)
        base.pop("finalize_launch_differs_from_finalize_all", None)
        orders = []
        nperm = 20 if kind == "full" else 2
        for _ in range(nperm):
            p = list(recs)
            rng.shuffle(p)
            orders.append(("permutation", p))
        if kind == "full":
            orders.append(("reversed", list(reversed(recs))))
            orders.append(("sorted_by_type", sorted(recs, key=lambda r: r.get("record_type", ""))))
            if len(files_records) > 1:
                for _ in range(20):
                    orders.append(("kway_interleaving", kway(files_records, rng)))
        for oname, order in orders:
            got, got2 = verdicts(order, None)
            got.pop("finalize_launch_differs_from_finalize_all", None)
            run.count("aggregator_runs")
            run.count(f"orders_{oname}")
            if got != got2:
                run.violation("finalize_twice_differs", f"{label}: finalising twice differs ({kind}, {oname})", witness)
            rollup_consistency(run, got, order, dict(witness, kind=kind, order=oname), f"{label} ({kind}, {oname})")
            if json.dumps(got, sort_keys=True, default=str) != json.dumps(base, sort_keys=True, default=str):
                field = _first_field_diff(base, got)
                run.violation(f"order_dependent_verdict:{field}", f"{label}: verdict depends on ingestion order ({kind}, {oname}): field {field}",
                              dict(witness, kind=kind, order=[r.get("record_type") for r in order], emission=got and base))
            run.case(canon_hash([shape, kind, oname, [r.get("record_type") for r in order][:12]]), len(order) >= 3)


def _first_field_diff(a, b):
    for level in ("runs", "launches"):
        for k in set(a[level]) | set(b[level]):
            x, y = a[level].get(k), b[level].get(k)
            if x != y:
                if x is None or y is None:
                    return f"{level}.presence"
                for f in x:
                    if x.get(f) != y.get(f):
                        return f"{level}.{f}"
    return "unknown"


def run(run):
    boot.boot()
    from vlib import cli, gen, refmodel as rm, tracecheck as tc
    from vlib.verdict import canon_hash
    from checks import c06

    seed = run.seed * 1000 + run.shard[0]
    rng = random.Random(seed)
    scratch = tempfile.mkdtemp(prefix="verif-c13-")
    g = gen.Gen(seed, scratch)
    n_single, n_launch = N_TRACES[run.tier]
    try:
        # ---- single runs (all failure kinds, as in C06)
        done = 0
        singles: list = []
        while done < n_single:
            base = g.pipeline(max_len=5, fault_bias=0.0)
            try:
                mb = rm.run_pipeline(base["nodes"], base["data"], base["ctx"])
            except rm.ConfigRejected:
                continue
            if not mb.ok or mb.dontcare:
                continue
            kind = c06.KINDS[done % len(c06.KINDS)]
            i = rng.randint(0, len(base["nodes"]))
            nodes = c06.variant(base, mb.nodes, kind, i, g)
            tr = tc.traced_run(nodes, base["data"], base["ctx"], detail="hash", mode=rng.choice(["file", "dir"]), scratch=scratch)
            shutil.rmtree(tr.tdir, ignore_errors=True)
            if not tr.records:
                continue
            done += 1
            singles.append(tr.records)
            run.count("single_run_traces")
            run.count(f"single_kind_{kind}")
            exercise(run, tr.records, [tr.records], f"single:{kind}", rng)
        # ---- several independent traces (separate driver instances: their lifecycle seq numbers collide) in ONE
        # aggregator: every run's verdict must equal its verdict in isolation, for concatenations and interleavings
        for gi in range(0, len(singles) - 2, 3):
            group = singles[gi:gi + 3]
            alone = {}
            for recs in group:
                v, _ = verdicts(recs, None)
                alone.update(v["runs"])
            orders = [("concatenated", [r for recs in group for r in recs]),
                      ("concatenated_reversed_files", [r for recs in reversed(group) for r in recs])]
            for _ in range(6):
                orders.append(("kway_interleaving", kway(group, rng)))
            allrecs = [r for recs in group for r in recs]
            for _ in range(4):
                p_ = list(allrecs)
                rng.shuffle(p_)
                orders.append(("permutation", p_))
            for oname, order in orders:
                got, _ = verdicts(order, None)
                run.count("aggregator_runs")
                run.count("multi_trace_ingestions")
                if json.dumps(got["runs"], sort_keys=True, default=str) != json.dumps(alone, sort_keys=True, default=str):
                    field = _first_field_diff({"runs": alone, "launches": {}}, {"runs": got["runs"], "launches": {}})
                    run.violation(f"verdict_depends_on_other_traces_in_aggregator:{field}",
                                  f"{len(group)} independent single-run traces in one aggregator ({oname}): a run's verdict differs from its verdict in isolation (field {field})",
                                  {"shapes": [[r.get("record_type") for r in recs] for recs in group], "order": oname})
                    break
                run.case(canon_hash(["multi", gi, oname, [r.get("record_type") for r in order][:10]]), True)
        # ---- launches (failing run at every index, file and directory output)
        for li in range(n_launch):
            n_runs = rng.randint(2, 5)
            fail_at = rng.choice([None] + list(range(n_runs)))
            case = cli.launch_case(g, fail_at=fail_at, n_runs=n_runs)
            mode = ("file", "dir")[li % 2]
            wd = tempfile.mkdtemp(prefix="launch-", dir=scratch)
            res = cli.run_launch(case, wd, trace_mode=mode, detail="hash")
            records = cli.global_order(res["files"])
            per_file = [recs for _p, recs in sorted(res["files"].items()) if recs]
            shutil.rmtree(wd, ignore_errors=True)
            if not records:
                run.count("launch_without_trace")
                continue
            run.count("launch_traces")
            run.count(f"launch_mode_{mode}")
            run.count("launch_failing" if case["first_fail"] is not None else "launch_clean")
            exercise(run, records, per_file, f"launch:{mode}:fail_at={case['first_fail']}", rng)
        # ---- retries: TWO attempts of the SAME launch id in one aggregator (attempt 1 crashed or failed, attempt 2 is
        # the retry `--run-space-launch-id X --run-space-attempt 2`): every (launch id, attempt) has its own roll-up
        for ri in range(max(1, n_launch // 3)):
            lid = f"retry-{seed}-{ri}"
            all_records, per_file_all = [], []
            for attempt, fail_at in ((1, rng.choice([0, 1])), (2, rng.choice([None, None, 1]))):
                case = cli.launch_case(g, fail_at=fail_at, n_runs=rng.randint(2, 4))
                wd = tempfile.mkdtemp(prefix="retry-", dir=scratch)
                res = cli.run_launch(case, wd, trace_mode=("file", "dir")[(ri + attempt) % 2], detail="hash",
                                     extra_argv=["--run-space-launch-id", lid, "--run-space-attempt", str(attempt)])
                recs = cli.global_order(res["files"])
                if attempt == 1 and len(recs) > 3 and rng.random() < 0.5:
                    recs = recs[: rng.randint(2, len(recs) - 1)]        # attempt 1 crashed: only a prefix reached the disk
                all_records += recs
                per_file_all += [r for _p, r in sorted(res["files"].items()) if r] if len(recs) == len(cli.global_order(res["files"])) else [recs]
                shutil.rmtree(wd, ignore_errors=True)
            if all_records:
                run.count("retry_launch_pairs")
                exercise(run, all_records, per_file_all, f"retry:{lid}", rng)
        run.info["sample_traces"] = "see samples"
        if not run.samples:
            run.samples.append({"note": "shapes of the real traces are in the witnesses; e.g. single-run trace = pipeline_start, ser*, pipeline_end"})
    finally:
        shutil.rmtree(scratch, ignore_errors=True)
    run.floor("aggregator_runs", 500)
    run.floor("prefixes_checked", 100)
    run.floor("launch_traces", 2)
    run.floor("single_run_traces", 5)
    run.assumptions += ["reference verdict: complete iff both lifecycle edges seen, else partial naming the missing edge; missing nodes = canonical nodes without SER; "
                        "launch roll-up = counts of its runs' verdicts (docs/source/trace_aggregator_v1.rst)",
                        "for arbitrary subsets only order-independence is checked (nodes without any lifecycle edge: documentation and code disagree on partial vs invalid)"]


def replay(run, witness):
    run.note_inconclusive("C13 witnesses are derived from freshly produced traces; re-run the check with the same VERIF_SEED to reproduce")
    run.case("replay", True)
    run.case("replay2", True)
