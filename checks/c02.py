"""C02 — static inspection is sound: accepted configurations do not fail on flow at run time, and the
per-node facts inspection reports (created/suppressed keys, parameter origins, unknown parameters) are true.

Observed at: build_pipeline_inspection / validate_pipeline / build_inspection_payload output vs. outcome and
per-node context diff of the real run (same-run sys.monitoring node probe; reference model for the *cause* of a
run-time failure, never message parsing).
"""
from __future__ import annotations

import copy
import shutil
import tempfile

from vlib import boot

LEVEL = "exploration"
RULE = ("templates aimed at the key-flow/type-flow analysis (use-before-create, create-and-require in one node, "
        "delete-then-require, delete-recreate-require, type change across context-only nodes, sweep-published keys "
        "consumed downstream, defaults shadowed by producers, from_context chains) mixed with the C01 generator; each "
        "configuration is inspected+validated, then run with exactly the reported required keys and with random supersets; "
        "distinct = hash of nodes; non-trivial = inspection accepted it and >= 2 nodes ran, or it has an unknown parameter")
SHARDS = {"quick": 8, "thorough": 48}  # fresh processes: per-run class generation in semantiva makes a long-lived process quadratically slower
SHARD_TIMEOUT = {"thorough": 2400}
N_CASES = {"quick": 300, "thorough": 400}  # per shard

FLOW = {"unresolvable_param", "type_gate", "construction"}


def value_for_key(key, models, scratch, g):
    for nm in models:
        if nm.sweep is not None and key in nm.sweep["from_ctx"]:
            return [g.val() for _ in range(g.rng.randint(1, 3))]
    if key == "path":
        return f"{scratch}/{g.fresh('req')}.txt"
    if key in ("tag", "label"):
        return "tg"
    if key == "n":
        return 2
    if key.endswith("_values") or key in ("seq", "each"):
        return [g.val(), g.val()]
    return g.val()


def initial_data(models):
    for nm in models:
        if nm.role == "ctx":
            continue
        return {"NoData": "NoData", "Float": 1.5, "Coll": [1.0, 2.0], "Any": "NoData"}.get(nm.in_type, "NoData")
    return "NoData"


def classify_flow_failure(m, models):
    """Structural (mechanism) description of why an accepted configuration failed."""
    k = m.fail_index
    nm = models[k]
    if m.fail_kind == "unresolvable_param":
        nt = m.nodes[-1]
        missing = [n for n, d in nm.params if n not in nm.config and n not in nt.ctx_before and d is not None and n not in nt.origins]
        name = missing[0] if missing else "?"
        later = any(name in mm.created for mm in models[k + 1:])
        same = name in nm.created
        earlier_deleted = any(name in mm.suppressed for mm in models[:k])
        earlier_created = any(name in mm.created for mm in models[:k])
        if same and not earlier_created:
            return "required_key_created_by_same_node"
        if earlier_deleted and earlier_created:
            return "required_key_deleted_after_creation"
        if earlier_deleted:
            return "required_key_deleted_earlier"
        if later:
            return "required_key_created_only_later"
        return "required_key_not_reported"
    if m.fail_kind == "type_gate":
        j = k - 1
        crossed = False
        while j >= 0 and models[j].role == "ctx":
            crossed = True
            j -= 1
        if j < 0:
            return "type_gate_first_data_node"
        if crossed:
            return "type_mismatch_across_context_only_node"
        if models[j].out_type is None:
            return "type_mismatch_after_passthrough_node"
        return "type_mismatch_adjacent"
    return f"construction_{m.fail_detail}"


def check_case(run, nodes, pattern, g, scratch):
    from semantiva.exceptions import PipelineConfigurationError
    from semantiva.inspection import build_inspection_payload, build_pipeline_inspection, validate_pipeline
    from vlib import account, refmodel as rm

    try:
        models = rm.describe(nodes)
    except rm.ConfigRejected:
        run.count("model_rejected_config")
        return None
    if any(nm.comp is not None and nm.comp.fault == "badtype" for nm in models):
        run.count("skipped_lying_component")  # a component that lies about its output type is not inspection's fault
        return None
    witness = {"nodes": nodes, "pattern": pattern}
    insp = build_pipeline_inspection(copy.deepcopy(nodes))
    run.count("inspections")
    try:
        validate_pipeline(insp)
        accepted = True
    except PipelineConfigurationError as exc:
        accepted = False
        witness["validation_error"] = str(exc)[:300]
    try:
        payload = build_inspection_payload(copy.deepcopy(nodes), inspection=insp)
        required = list(payload["required_context_keys"])
    except Exception as exc:  # payload building is allowed to fail only for rejected configurations
        required = sorted(insp.required_context_keys)
        if accepted:
            run.violation("payload_raises_for_accepted_config", f"build_inspection_payload raised {type(exc).__name__}: {exc}", witness)
    run.count("accepted" if accepted else "rejected")
    data = initial_data(models)
    ctx0 = {k: value_for_key(k, models, scratch, g) for k in required}
    witness.update({"required_reported": required, "data": data})

    # ---------------- unknown parameters: same names at inspection and at run time
    insp_unknown = [(ni.index - 1, sorted(i["name"] for i in ni.invalid_parameters)) for ni in insp.nodes if ni.invalid_parameters]
    model_unknown = [(nm.index, sorted(nm.unknown_params)) for nm in models if nm.construction_error == "unknown_param"]
    if insp_unknown or model_unknown:
        run.count("unknown_param_cases")
        r = account.real_run(nodes, data, ctx0, scratch=scratch)
        rt_names = sorted(getattr(r.exc, "invalid", {}).keys()) if (not r.ok and r.exc_name == "InvalidNodeParameterError") else None
        first_insp = insp_unknown[0][1] if insp_unknown else None
        if rt_names is not None and first_insp != rt_names and not any(names == rt_names for _, names in insp_unknown):
            run.violation("unknown_parameter_names_differ", f"inspection reports unknown parameters {insp_unknown} but the run rejects {rt_names}",
                          dict(witness, inspection=insp_unknown, runtime=rt_names))
        if rt_names is None and insp_unknown and r.stage != "build" and (r.ok or r.exc_name != "InvalidNodeParameterError"):
            # inspection says unknown parameter, run time did not reject it
            if not any(nm.construction_error and nm.construction_error != "unknown_param" for nm in models):
                run.violation("unknown_parameter_only_at_inspection", f"inspection reports unknown parameters {insp_unknown}, the run did not reject them ({r.exc_name})",
                              dict(witness, inspection=insp_unknown))
        if rt_names is not None and not insp_unknown:
            run.violation("unknown_parameter_only_at_runtime", f"run rejects unknown parameters {rt_names}, inspection reports none", dict(witness, runtime=rt_names))
        if accepted and (insp_unknown or rt_names):
            run.violation("accepted_with_unknown_parameter", "validation accepted a configuration with unknown parameters", witness)
        return {"accepted": accepted, "nodes_ran": 0, "unknown": True}
    if not accepted:
        return {"accepted": False, "nodes_ran": 0}

    # ---------------- (a) accepted + required keys supplied (exactly, and supersets) => no flow-class failure
    contexts = [("exact", ctx0)]
    for _ in range(2 if run.tier == "quick" else 3):
        sup = dict(ctx0)
        for k in g.rng.sample(["factor", "addend", "value", "base", "k", "scale", "a", "b", "offset", "seed", "zz"], g.rng.randint(1, 3)):
            sup.setdefault(k, g.val())
        contexts.append(("superset", sup))
    ran = 0
    exact_probe = None
    for label, ctx in contexts:
        with account.NodeProbe() as probe:
            r = account.real_run(nodes, data, ctx, scratch=scratch)
        run.count("runs")
        run.count("node_probe_hits", probe.hits)
        if label == "exact":
            exact_probe, exact_real = probe, r
            ran = len([x for x in probe.node_records() if x["outcome"] == "returned"])
        if r.ok:
            run.count("runs_ok")
            continue
        m = rm.run_pipeline(nodes, data, ctx)
        if m.ok or m.fail_kind not in FLOW:
            alt = rm.run_pipeline(nodes, data, ctx, absent_delete="noop") if m.dontcare else None
            run.count("runs_failed_nonflow_or_model_disagrees")
            if m.ok and not m.dontcare and "KeyError" in (r.exc_mro or []) and not any(
                    (mm.comp is not None and mm.comp.fault) for mm in models):
                # the documented semantics let this accepted configuration run to the end with these keys, yet the run
                # stopped on a KeyError (the class every "key missing / parameter unresolvable" failure has): a required
                # key that inspection did not report
                run.violation("accepted_config_fails_missing_key_not_reported",
                              f"inspection+validation accepted the configuration and the context supplies every reported required key ({label}); "
                              f"the documented semantics succeed, but the run raised {r.exc_name}: {str(r.exc)[:160]}",
                              dict(witness, ctx=ctx, ctx_label=label))
            continue
        # the documented semantics prescribe a flow-class failure here and the run did fail
        idx = account.failing_index_by_prefix(nodes, data, ctx, scratch=scratch) if m.fail_kind != "construction" else m.fail_index
        if idx != m.fail_index:
            run.count("runs_failed_model_index_disagrees")
            continue
        if m.dontcare and any(i == m.fail_index for _, i in m.dontcare) and models[m.fail_index].shorthand[0] == "delete":
            run.count("delete_of_absent_key_dontcare")  # documentation: "if the key is present ... it is removed"
            continue
        mech = classify_flow_failure(m, models)
        if mech == "type_gate_first_data_node":
            run.count("first_node_type_gate_skipped")
            continue
        run.violation(f"accepted_config_fails_{m.fail_kind}:{mech}",
                      f"inspection+validation accepted the configuration and the context supplies every reported required key ({label}), "
                      f"but the run fails at node {idx} with a flow-class cause ({m.fail_kind}; {r.exc_name}: {str(r.exc)[:120]})",
                      dict(witness, ctx=ctx, ctx_label=label, fail_index=idx, fail_kind=m.fail_kind, mechanism=mech))

    # ---------------- (b) per-node facts with exactly the required keys
    if exact_probe is None or exact_probe.hits == 0:
        run.count("node_probe_missing")
        return {"accepted": True, "nodes_ran": ran}
    recs = exact_probe.node_records()
    m = rm.run_pipeline(nodes, data, ctx0)
    for i, rec in enumerate(recs):
        if rec["outcome"] != "returned" or i >= len(insp.nodes):
            break
        ni = insp.nodes[i]
        nm = models[i]
        before, after = rec["ctx_before"] or {}, rec["ctx_after"] or {}
        appeared = {k for k in after if k not in before}
        changed = {k for k in after if k in before and not account.close(after[k], before[k])}
        disappeared = {k for k in before if k not in after}
        rep_created, rep_supp = set(ni.created_keys), set(ni.suppressed_keys)
        run.count("node_facts_checked")
        kind = _kind(nm)
        if (appeared | changed) - rep_created:
            run.violation(f"unreported_created_key@{kind}", f"node {i} wrote keys {sorted((appeared | changed) - rep_created)} that inspection does not report as created",
                          dict(witness, ctx=ctx0, node=i, reported_created=sorted(rep_created), appeared=sorted(appeared), changed=sorted(changed)))
        missing = {k for k in rep_created - rep_supp if k not in after}
        if missing and nm.slicer and rec["data_in"] == []:
            run.count("slicer_over_empty_collection_creates_nothing")  # element-wise mapping over zero elements
            missing = set()
        if missing:
            run.violation(f"reported_created_key_absent@{kind}", f"node {i} is said to create {sorted(missing)} but the keys are absent after it ran",
                          dict(witness, ctx=ctx0, node=i, reported_created=sorted(rep_created), after_keys=sorted(after)))
        if disappeared - rep_supp:
            run.violation(f"unreported_suppressed_key@{kind}", f"node {i} removed keys {sorted(disappeared - rep_supp)} that inspection does not report as suppressed",
                          dict(witness, ctx=ctx0, node=i))
        still = {k for k in rep_supp - rep_created if k in after}
        if still:
            run.violation(f"reported_suppressed_key_still_present@{kind}", f"node {i} is said to suppress {sorted(still)} but the keys are still present",
                          dict(witness, ctx=ctx0, node=i))
        # the value the leaf really received must be the value held by the REPORTED origin
        if i < len(m.nodes) and m.nodes[i].failed is None and nm.recorded and nm.sweep is None and not nm.slicer:
            lo, hi = m.nodes[i].leaf_range
            if hi - lo == 1 and hi <= len(exact_real.leaves) and exact_real.leaves[lo][0] == nm.comp.name:
                passed = exact_real.leaves[lo][2]
                for name, value in passed.items():
                    if name in (nodes[i].get("parameters") or {}):
                        held, where = (nodes[i]["parameters"][name], "config")
                    elif name in ni.context_params:
                        if name not in before:
                            continue
                        held, where = before[name], "context"
                    elif name in ni.default_params:
                        held, where = ni.default_params[name], "default"
                    else:
                        continue
                    run.count("leaf_values_checked_against_reported_origin")
                    if not account.close(account.plain(value), account.plain(held)):
                        run.violation(f"parameter_value_not_from_reported_origin:{where}",
                                      f"node {i} parameter '{name}': inspection reports origin {where} (holding {held!r}) but the leaf received {value!r}",
                                      dict(witness, ctx=ctx0, node=i, parameter=name, reported=where, held=repr(held), passed=repr(value)))
        # parameter origins
        if i < len(m.nodes) and m.nodes[i].failed is None:
            for name, (okind, oprod) in m.nodes[i].origins.items():
                run.count("param_origins_checked")
                if name in ni.context_params:
                    ridx = ni.context_params[name]
                    rep = ("context", "initial" if ridx is None else ridx - 1)
                elif name in (nodes[i].get("parameters") or {}):
                    rep = ("config", None)
                elif name in ni.default_params:
                    rep = ("default", None)
                elif name in ni.config_params:
                    rep = ("config", None)
                else:
                    rep = ("unreported", None)
                if rep != (okind, oprod):
                    # cross-check the account against the real run: who last changed the key before node i?
                    real_prod = "initial" if name in ctx0 else None
                    for j in range(i):
                        bj, aj = recs[j]["ctx_before"] or {}, recs[j]["ctx_after"] or {}
                        if name in aj and (name not in bj or not account.close(aj[name], bj[name])):
                            real_prod = j
                    if okind == "context" and real_prod != oprod and not (rep[0] == "context" and rep[1] == real_prod):
                        run.count("origin_account_ambiguous")
                        if rep[0] == "context" and rep[1] == real_prod:
                            continue
                    run.violation(f"parameter_origin_reported_{rep[0]}_actual_{okind}" + ("_other_producer" if rep[0] == okind else ""),
                                  f"node {i} parameter '{name}': inspection reports origin {rep}, the value actually comes from {(okind, oprod)}",
                                  dict(witness, ctx=ctx0, node=i, parameter=name, reported=rep, actual=(okind, oprod)))
    return {"accepted": True, "nodes_ran": ran}


_SERIES_KEYS = {"x_values", "y_values", "t_values", "grid", "x", "res", "y", "t"}


def same_object_case(run, g, scratch, i):
    """The documented workflow inspects a configuration object and then runs that very object (``semantiva run`` does).
    Inspection is a static analysis: it must not change what the object means.  Differential oracle, no model needed:
    (1) a second inspection of the inspected object reports the same required / created keys, (2) running the inspected
    object gives what running a fresh copy gives (outcome, exception class, final context, data).  A mismatch is only
    reported when two fresh copies agree with each other (the pipeline is reproducible)."""
    from semantiva.inspection import build_pipeline_inspection, validate_pipeline
    from semantiva.pipeline.pipeline import Pipeline
    from vlib import account, rewrite

    case = rewrite.config_case(g, i)
    nodes = copy.deepcopy(case["nodes"])
    if g.chance(0.6):
        fn = rewrite.fitting_node(g)
        r = g.rng.random()
        if r < 0.45:
            fn["parameters"].pop("x_values", None), fn["parameters"].pop("y_values", None)
            fn["parameters"].update(independent_var_key=g.rng.choice(["t_values", "grid", "x"]), dependent_var_key=g.rng.choice(["res", "y"]))
            if g.chance(0.5):
                fn["parameters"]["context_key"] = g.rng.choice(["fit.coeffs", "fit_out"])
        elif r < 0.9:
            fn["parameters"]["context_key"] = g.rng.choice(["fit.coeffs", "fit_out", "line_fit"])
        nodes.insert(g.rng.randint(0, len(nodes)), fn)
    inspected = copy.deepcopy(nodes)
    try:
        insp1 = build_pipeline_inspection(inspected)
        validate_pipeline(insp1)
        if any(ni.invalid_parameters for ni in insp1.nodes):
            raise ValueError("invalid parameters")
    except Exception:  # rejected configurations are outside the property
        run.count("same_object_rejected")
        return
    run.count("same_object_cases")
    facts1 = (sorted(insp1.required_context_keys), [(sorted(ni.created_keys), sorted(ni.suppressed_keys)) for ni in insp1.nodes])
    witness = {"nodes": nodes, "kind": "same_object"}
    try:
        insp2 = build_pipeline_inspection(inspected)
        facts2 = (sorted(insp2.required_context_keys), [(sorted(ni.created_keys), sorted(ni.suppressed_keys)) for ni in insp2.nodes])
    except Exception as exc:
        facts2 = f"raised {type(exc).__name__}: {exc}"[:200]
    if facts1 != facts2:
        run.violation("inspected_object_second_inspection_differs",
                      f"inspecting the same configuration object twice reports different facts: {str(facts1)[:200]} vs {str(facts2)[:200]}", witness)
        return
    ctx = dict(case.get("ctx") or {})
    for k in facts1[0]:
        if k not in ctx:
            ctx[k] = [0.0, 1.0, 2.0, 3.0] if k in _SERIES_KEYS else ([1.0, 3.0, 5.0, 7.5] if k.endswith("_values") else g.val())
    for k in ("x_values", "t_values", "grid", "x", "t"):
        if k in ctx and k in facts1[0]:
            ctx[k] = [0.0, 1.0, 2.0, 3.0]
    for k in ("y_values", "res", "y"):
        if k in ctx and k in facts1[0]:
            ctx[k] = [1.0, 3.0, 5.0, 7.5]
    data = case.get("data")

    def outcome(r):
        return (r.ok, r.exc_name if not r.ok else None, r.stage if not r.ok else None, repr(r.ctx) if r.ok else None, repr(r.data) if r.ok else None)

    fresh = outcome(account.real_run(nodes, data, ctx, scratch=scratch))
    try:
        pipe = Pipeline(inspected)
        mine = outcome(account.real_run(nodes, data, ctx, scratch=scratch, pipeline=pipe))
    except Exception as exc:
        mine = (False, type(exc).__name__, "build", None, None)
    run.count("same_object_runs")
    if fresh[0]:
        run.count("same_object_fresh_run_ok")
    if mine == fresh:
        return
    again = outcome(account.real_run(nodes, data, ctx, scratch=scratch))
    if again != fresh:
        run.count("same_object_pipeline_not_reproducible_skipped")
        return
    what = "outcome" if mine[:3] != fresh[:3] else ("context" if mine[3] != fresh[3] else "data")
    run.violation(f"inspected_object_runs_differently:{what}",
                  f"inspection+validation accepted the configuration; running the inspected object gives {str(mine)[:160]} "
                  f"but a fresh copy of the same configuration gives {str(fresh)[:160]} (context supplies every reported required key)",
                  dict(witness, ctx=ctx, data=data))


def cli_flow_case(run, g, scratch):
    """The same soundness clause at the CLI: an accepted configuration whose required keys are all supplied (some via
    --context, some via the run space) must complete EVERY planned run — also when a node suppresses a supplied key."""
    from vlib import cli

    rng = g.rng
    n = rng.randint(2, 4)
    nodes = [{"processor": "VSrc"}, {"processor": "VMul"}]
    sup = rng.choice(["rename:factor:used_factor", "delete:factor", "rename:value:seen_value", None])
    if sup:
        nodes.append({"processor": sup})
    if g.chance(0.5):
        nodes.append({"processor": "VAddNote"})
    nodes.append({"processor": "VNullSink"})
    via_context = rng.choice(["factor", "value"])
    other = "value" if via_context == "factor" else "factor"
    run_space = {"combine": "combinatorial", "max_runs": 50,
                 "blocks": [{"mode": "by_position", "context": {other: [g.val() for _ in range(n)]}}]}
    wd = tempfile.mkdtemp(prefix="cliflow-", dir=scratch)
    ypath = wd + "/p.yaml"
    cli.write_yaml(ypath, nodes, run_space, None)
    from vlib.components import REC

    REC.clear()
    res = cli.run_cli(["run", ypath, "-q", "--context", f"{via_context}=2.5"], cwd=wd)
    runs_done = sum(1 for l in REC.snapshot() if l[0] == "VNullSink")
    run.count("cli_flow_launches")
    run.count("cli_flow_runs_completed", runs_done)
    if res.rc != 0 or runs_done != n:
        run.violation("cli_accepted_config_fails_in_later_run" + (":supplied_key_suppressed_by_node" if sup else ""),
                      f"`semantiva run` accepted the configuration (all required keys supplied) but completed {runs_done} of {n} runs, exit {res.rc}: {res.err[-200:]}",
                      {"nodes": nodes, "run_space": run_space, "argv_context": f"{via_context}=2.5", "rc": res.rc, "stderr": res.err[-300:]})
    shutil.rmtree(wd, ignore_errors=True)


def _kind(nm):
    from vlib.diffrun import node_kind

    return node_kind(nm)


def run(run):
    boot.boot()
    from vlib import gen
    from vlib.verdict import canon_hash

    seed = run.seed * 1000 + run.shard[0]
    scratch = tempfile.mkdtemp(prefix="verif-c02-")
    g = gen.Gen(seed, scratch)
    try:
        for i in range(N_CASES[run.tier]):
            fc = gen.flow_case(g)
            res = check_case(run, fc["nodes"], fc["pattern"], g, scratch)
            if res is None:
                continue
            run.count(f"pattern_{fc['pattern'].split('+')[0]}")
            nontrivial = (res["accepted"] and res["nodes_ran"] >= 2) or bool(res.get("unknown"))
            run.case(canon_hash(fc["nodes"]), nontrivial, sample={"pattern": fc["pattern"], "nodes": fc["nodes"], "accepted": res["accepted"]} if i < 4 else None)
            if i % 25 == 0:
                cli_flow_case(run, g, scratch)
            if i % 4 == 0:
                same_object_case(run, g, scratch, i)
    finally:
        shutil.rmtree(scratch, ignore_errors=True)
    run.floor("accepted", 50)
    run.floor("node_facts_checked", 100)
    run.floor("node_probe_hits", 100)
    run.floor("same_object_fresh_run_ok", 10)
    run.assumptions += ["the cause of a run-time failure is taken from the reference model (vlib/refmodel.py), tied to the real semantics by C01",
                        "initial data is chosen compatible with the first data node (the property quantifies over contexts, not over ill-typed initial data)"]


def replay(run, witness):
    boot.boot()
    from vlib import gen

    scratch = tempfile.mkdtemp(prefix="verif-c02-")
    try:
        g = gen.Gen(run.seed, scratch)
        check_case(run, witness["nodes"], witness.get("pattern", "replay"), g, scratch)
        run.case(witness["nodes"], True, sample=witness["nodes"])
        run.case("replay-second-slot", True)
    finally:
        shutil.rmtree(scratch, ignore_errors=True)
