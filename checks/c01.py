"""C01 — pipeline execution matches the documented dual-channel node semantics.

Oracle: vlib.refmodel.run_pipeline (independent reference interpreter) on the same (nodes, data, ctx).
Observed at: return value / raised exception of Pipeline(nodes).process(Payload(data, context)), the
leaf flight-recorder, black-box prefix replay (failing node index), and an icontract postcondition on the
real resolve_runtime_value (precedence config > context > default on every call it sees).
"""
from __future__ import annotations

import shutil
import tempfile

from vlib import boot

LEVEL = "exploration"
RULE = ("seeded generator of node sequences (len 1..8) over the component library x parameter placements "
        "{config, initial context, produced earlier, default, missing} x initial contexts; each case is run "
        "through the public API (python list or YAML file) and compared with the reference interpreter. "
        "distinct = canonical hash of (nodes, ctx, data); non-trivial = >=3 nodes executed or a failure, "
        "and at least one parameter resolved from context or default")
SHARDS = {"quick": 1, "thorough": 48}   # many small fresh processes (memory/speed, see check driver)
SHARD_TIMEOUT = {"thorough": 3000}
N_CASES = {"quick": 1500, "thorough": 1500}  # per shard


from vlib.diffrun import compare  # noqa: E402


def run(run):
    boot.boot()
    from vlib import contracts, gen, refmodel as rm
    from vlib.verdict import canon_hash

    n = N_CASES[run.tier]
    seed = run.seed * 1000 + run.shard[0]
    scratch = tempfile.mkdtemp(prefix="verif-c01-")
    g = gen.Gen(seed, scratch)
    cstate = contracts.install_resolution_contract(run)
    try:
        for i in range(n):
            case = g.pipeline()
            if i % 10 == 7:
                # a one-shot stream handed from one node to the next through the context (a generator made by node k, read by
                # node k+1, then dropped): the reader must receive the WHOLE stream - nothing else in the run may consume it
                case = dict(case, nodes=list(case["nodes"]))
                pos = g.rng.randint(1, len(case["nodes"]))
                case["nodes"][pos:pos] = [{"processor": "VCtxMakeIter", "parameters": {"n": g.rng.randint(1, 4)}},
                                          {"processor": "VCtxIterSum"}, {"processor": "delete:items"}]
                run.count("cases_with_one_shot_stream")
            via_yaml = (i % 2 == 1)
            m = compare(run, case, via_yaml, scratch)
            if m is None:
                continue
            origins = [o[0] for nt in m.nodes for o in nt.origins.values()]
            nontrivial = (len(m.nodes) >= 3 or not m.ok) and any(o in ("context", "default") for o in origins)
            for o in origins:
                run.count(f"param_origin_{o}")
            for nm in m.models:
                run.count(f"node_role_{nm.role}")
                if nm.sweep:
                    run.count("sweep_nodes")
                if nm.slicer:
                    run.count("slicer_nodes")
            run.case(canon_hash(case), nontrivial,
                     sample={"nodes": case["nodes"], "ctx": case["ctx"], "data": case["data"],
                             "reference": {"ok": m.ok, "fail_index": m.fail_index, "fail_kind": m.fail_kind,
                                           "data": m.data}} if i < 3 else None)
    finally:
        contracts.uninstall(cstate)
        shutil.rmtree(scratch, ignore_errors=True)
    run.count("contract_evaluations_resolve_runtime_value", cstate["evaluations"])
    if run.tier == "thorough" and run.shard[0] == 0:
        from vlib import suite

        suite.run_suite_with_contracts(run, "resolution")
    run.floor("pipelines_run", 50)
    run.floor("contract_evaluations_resolve_runtime_value", 50)
    run.floor("failing_runs", 5)
    run.assumptions += ["the reference interpreter (vlib/refmodel.py) states the documented semantics",
                        "component library = repository examples + vlib.components (loaded as an extension)"]


def replay(run, witness):
    boot.boot()
    scratch = tempfile.mkdtemp(prefix="verif-c01-")
    try:
        compare(run, witness["case"], witness.get("via_yaml", False), scratch)
        run.case(witness["case"], True, sample=witness["case"])
        run.case("replay-second-slot", True)
    finally:
        shutil.rmtree(scratch, ignore_errors=True)
