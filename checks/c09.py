"""C09 — a run-space launch equals its independent runs and is linked by stable IDs.

End-to-end through the real CLI (semantiva.cli.main in-process for volume; `python -m semantiva.cli` subprocesses
for a sample and for exit codes); traces parsed by vlib.tracecheck; plan computed by an own small expansion.
"""
from __future__ import annotations

import copy
import json
import os
import random
import re
import shutil
import tempfile

from vlib import boot

LEVEL = "exploration"
RULE = ("generated (pipeline, run_space) pairs (2..12 planned runs) x failing run at every index (a VBoom whose fuse comes "
        "from the run context) x file/directory trace output x launch-id options {explicit, idempotency key twice, generated} "
        "x attempts 1..3; each run compared with a standalone run given that run's context; cosmetic rewrites and single-point "
        "mutations of the run_space block; source files rewritten/touched/changed; distinct = hash of (nodes, run_space, "
        "fail index, mode, id option); non-trivial = >= 2 planned runs")
SHARDS = {"quick": 8, "thorough": 16}
SHARD_TIMEOUT = {"quick": 900, "thorough": 3000}
N_LAUNCHES = {"quick": 6, "thorough": 30}   # per shard
FK = ("run_space_launch_id", "run_space_attempt", "run_space_index", "run_space_context")
SPEC_RE = re.compile(r"Run-Space Config ID:\s*(\S+)")


def norm_for_standalone(rec: dict) -> dict:
    from vlib import tracecheck as tc

    r = tc.normalise(rec)
    for k in FK:
        r.pop(k, None)
    return r


def check_launch(run, case, workdir, mode, idopt, attempt, subprocess_=False):
    from vlib import account, cli

    plan, first_fail = case["plan"], case["first_fail"]
    argv = []
    explicit = None
    if idopt == "explicit":
        explicit = f"launch-{random.Random(len(plan) * 31 + attempt).randrange(10**9)}"
        argv += ["--run-space-launch-id", explicit]
    elif idopt == "idempotency":
        argv += ["--run-space-idempotency-key", "key-A"]
    if attempt != 1:
        argv += ["--run-space-attempt", str(attempt)]
    for k, v in (case.get("cli_context") or {}).items():
        argv += ["--context", f"{k}={json.dumps(v)}"]
    res = cli.run_launch(case, workdir, trace_mode=mode, detail="all", extra_argv=argv, subprocess_=subprocess_)
    run.count("launches")
    run.count("launches_subprocess" if subprocess_ else "launches_inprocess")
    records = cli.global_order(res["files"])
    run.count("trace_records", len(records))
    witness = {"nodes": case["nodes"], "run_space": case["run_space"], "first_fail": first_fail, "mode": mode, "idopt": idopt,
               "attempt": attempt, "rc": res["res"].rc, "stderr": res["res"].err[-300:], "types": [r.get("record_type") for r in records]}

    def viol(key, msg, **extra):
        run.violation(key, msg, dict(witness, **extra))

    for p in res["problems"]:
        viol("trace_file_damaged", p)
    # ---- exit code
    want_rc = 0 if first_fail is None else 4
    if first_fail is not None and case.get("fail_with") == "exit":
        # the failing run calls sys.exit(9): which non-zero code the CLI ends with is not documented
        if res["res"].rc in (0, None):
            viol("exit_code_wrong", f"exit code {res['res'].rc} although run {first_fail} called sys.exit(9)")
    elif res["res"].rc != want_rc:
        viol("exit_code_wrong", f"exit code {res['res'].rc}, expected {want_rc} ({'all runs completed' if first_fail is None else 'run %d fails' % first_fail})")
    # ---- bracket
    starts = [r for r in records if r.get("record_type") == "run_space_start"]
    ends = [r for r in records if r.get("record_type") == "run_space_end"]
    if len(starts) != 1 or len(ends) != 1:
        viol("launch_bracket_count" + ("_on_failure" if first_fail is not None else ""), f"{len(starts)} run_space_start and {len(ends)} run_space_end records")
    elif records[0] is not starts[0] or records[-1] is not ends[0]:
        viol("launch_bracket_position", "run_space_start/run_space_end do not bracket the launch")
    pstarts = [r for r in records if r.get("record_type") == "pipeline_start"]
    expect_started = len(plan) if first_fail is None else first_fail + 1
    if len(pstarts) != expect_started:
        viol("runs_started_count", f"{len(pstarts)} runs started, plan prescribes {expect_started} ({len(plan)} planned, first failing run {first_fail})")
    launch_id = starts[0].get("run_space_launch_id") if starts else None
    if starts:
        s = starts[0]
        if s.get("run_space_planned_run_count") != len(plan) or s.get("run_space_total_runs") != len(plan):
            viol("planned_count_untruthful", f"run_space_start planned={s.get('run_space_planned_run_count')} total={s.get('run_space_total_runs')}, plan has {len(plan)}")
        if s.get("run_space_attempt") != attempt:
            viol("attempt_wrong", f"run_space_start attempt {s.get('run_space_attempt')} vs {attempt}")
        if explicit and s.get("run_space_launch_id") != explicit:
            viol("explicit_launch_id_ignored", f"launch id {s.get('run_space_launch_id')} vs requested {explicit}")
    if ends:
        summ = ends[0].get("summary") or {}
        completed = len(plan) if first_fail is None else first_fail
        if summ.get("planned_runs") != len(plan) or summ.get("completed_runs") != completed:
            viol("completed_count_untruthful", f"run_space_end summary {summ}, truth planned={len(plan)} completed={completed}")
        if first_fail is not None and case.get("fail_with") == "exit":
            # sys.exit() inside a run: the property asks for the closing record and truthful counts; the summary's status
            # word for this kind of abort is not documented (absent on this tree) - only a claim of success would be untruthful
            if summ.get("status") in ("ok", "completed", "success"):
                viol("launch_status_untruthful", f"run_space_end status {summ.get('status')!r} although run {first_fail} called sys.exit(9)")
        elif (first_fail is not None) != (summ.get("status") == "failed"):
            viol("launch_status_untruthful", f"run_space_end status {summ.get('status')!r}, first failing run {first_fail}")
        if ends[0].get("run_space_launch_id") != launch_id:
            viol("launch_id_not_shared", "run_space_end carries a different launch id")
    # ---- every pipeline_start: launch id, attempt, 0-based index, context; plan order
    for i, ps in enumerate(pstarts):
        run.count("pipeline_starts_checked")
        if ps.get("run_space_launch_id") != launch_id or ps.get("run_space_attempt") != attempt:
            viol("pipeline_start_fk_wrong", f"run {i}: launch id/attempt {ps.get('run_space_launch_id')}/{ps.get('run_space_attempt')}")
        if ps.get("run_space_index") != i:
            viol("run_index_wrong", f"run {i} carries run_space_index {ps.get('run_space_index')} (0-based index expected)")
        if i < len(plan) and not account.close(ps.get("run_space_context"), dict(case.get("cli_context") or {}, **plan[i])):
            viol("plan_order_or_context_wrong", f"run {i} context {ps.get('run_space_context')} vs plan[{i}] {plan[i]}")
    return res, records, launch_id, starts[0].get("run_space_spec_id") if starts else None, (starts[0].get("run_space_inputs_id") if starts else None)


def split_runs(records):
    runs, cur = [], None
    for r in records:
        t = r.get("record_type")
        if t == "pipeline_start":
            cur = [r]
            runs.append(cur)
        elif t in ("ser", "pipeline_end") and cur is not None:
            cur.append(r)
    return runs


def compare_with_standalone(run, case, launch_records, launch_dir, scratch, mode):
    """Run i of the launch must equal a standalone run given run i's context (SER content and sink files)."""
    from vlib import cli, tracecheck as tc

    runs = split_runs(launch_records)
    expected_files: dict = {}
    for i, recs in enumerate(runs):
        ctx = dict(case.get("cli_context") or {}, **case["plan"][i])
        wd = tempfile.mkdtemp(prefix="standalone-", dir=scratch)
        tdir = os.path.join(wd, "trace_out")
        os.makedirs(tdir)
        out_path = os.path.join(tdir, "one.ser.jsonl")
        ypath = os.path.join(wd, "standalone.yaml")
        cli.write_yaml(ypath, case["nodes"], None, {"driver": "jsonl", "output_path": out_path, "options": {"detail": "all"}})
        argv = ["run", ypath, "-q"]
        for k, v in ctx.items():
            argv += ["--context", f"{k}={json.dumps(v)}"]
        res = cli.run_cli(argv, cwd=wd)
        run.count("standalone_runs")
        files, _ = tc.load_dir(tdir)
        srecs = [r for p in sorted(files) for r in files[p]]
        a = [norm_for_standalone(r) for r in recs]
        b = [norm_for_standalone(r) for r in srecs]
        # the pipeline_start of the launch additionally carries the FK fields (removed above)
        if a != b:
            where = next((k for k, (x, y) in enumerate(zip(a, b)) if x != y), min(len(a), len(b)))
            field = _diff_field(a[where], b[where]) if where < min(len(a), len(b)) else "record_count"
            run.violation(f"run_differs_from_standalone:{field}",
                          f"run {i} of the launch differs from a standalone run with the same context at record {where} ({field})",
                          {"nodes": case["nodes"], "run_space": case["run_space"], "run_index": i, "context": ctx, "mode": mode,
                           "launch": a[where] if where < len(a) else None, "standalone": b[where] if where < len(b) else None})
        # sink marker files (VFileSink appends: runs that share a file name accumulate lines in run order)
        for name in os.listdir(wd):
            if name.startswith("out_"):
                expected_files[name] = expected_files.get(name, "") + open(os.path.join(wd, name)).read()
        shutil.rmtree(wd, ignore_errors=True)
    for name, content in expected_files.items():
        lp = os.path.join(launch_dir, name)
        run.count("sink_files_compared")
        if not os.path.exists(lp) or open(lp).read() != content:
            run.violation("sink_output_differs_from_standalone", f"sink file {name} of the launch differs from the outputs of the standalone runs",
                          {"nodes": case["nodes"], "run_space": case["run_space"], "launch": os.path.exists(lp) and open(lp).read(), "standalone": content})
    extra = [n for n in os.listdir(launch_dir) if n.startswith("out_") and n not in expected_files]
    if extra:
        run.violation("sink_output_only_in_launch", f"launch wrote {extra} which no standalone run wrote", {"nodes": case["nodes"], "run_space": case["run_space"]})


def _diff_field(x, y):
    if not isinstance(x, dict) or not isinstance(y, dict):
        return "record"
    for k in sorted(set(x) | set(y)):
        if x.get(k) != y.get(k):
            if isinstance(x.get(k), dict) and isinstance(y.get(k), dict):
                for kk in sorted(set(x[k]) | set(y[k])):
                    if x[k].get(kk) != y[k].get(kk):
                        return f"{x.get('record_type')}.{k}.{kk}"
            return f"{x.get('record_type')}.{k}"
    return "none"


def inspect_spec_id(ypath, wd):
    from vlib import cli

    res = cli.run_cli(["inspect", ypath], cwd=wd)
    m = SPEC_RE.search(res.out)
    return (m.group(1) if m else None), res


def shuffle_keys(obj, rng):
    if isinstance(obj, dict):
        items = list(obj.items())
        rng.shuffle(items)
        return {k: shuffle_keys(v, rng) for k, v in items}
    if isinstance(obj, list):
        return [shuffle_keys(v, rng) for v in obj]
    return obj


def spec_id_checks(run, case, scratch, rng, trace_spec_id, launch_records=None):
    """inspect vs trace; cosmetic rewrites keep the spec id; plan mutations change it."""
    import yaml
    from vlib import cli

    wd = tempfile.mkdtemp(prefix="specid-", dir=scratch)
    base = os.path.join(wd, "base.yaml")
    cli.write_yaml(base, case["nodes"], case["run_space"], None)
    sid, res = inspect_spec_id(base, wd)
    run.count("inspect_runs")
    witness = {"nodes": case["nodes"], "run_space": case["run_space"]}
    if sid is None or sid == "none":
        run.violation("inspect_prints_no_spec_id", f"`semantiva inspect` printed no run-space spec id: {res.out[:300]!r} {res.err[:200]!r}", witness)
    elif trace_spec_id is not None and sid != trace_spec_id:
        run.violation("spec_id_inspect_vs_trace_differs", f"inspect prints {sid}, run_space_start carries {trace_spec_id}", dict(witness, inspect=sid, trace=trace_spec_id))
    # the same run space declared at top level PLUS a different one under pipeline: (the top-level block is the one that
    # executes): inspect must print the id of the block that runs
    both = os.path.join(wd, "both.yaml")
    decoy = {"combine": "combinatorial", "max_runs": 50, "blocks": [{"mode": "by_position", "context": {"decoy_key": [1.0, 2.0]}}]}
    cli.write_yaml(both, case["nodes"], case["run_space"], None, nested_run_space=decoy)
    sid_both, _ = inspect_spec_id(both, wd)
    run.count("inspect_runs")
    if sid is not None and sid_both != sid:
        run.violation("spec_id_inspect_differs_when_run_space_declared_in_both_places",
                      f"inspect prints {sid_both} for a file that declares the run space at top level and another one under pipeline:, "
                      f"{sid} for the top-level block alone (the top-level block is the one `semantiva run` executes)", dict(witness, decoy=decoy))
    # the block that EXECUTES comes from --run-space-file; the YAML declares another (decoy) block inline, or none:
    # run_space_start must carry the id of the block whose plan runs (what inspect prints for that block declared inline)
    if sid not in (None, "none") and not any(b.get("source") for b in case["run_space"]["blocks"]):
        ov = os.path.join(wd, "rs_override.yaml")
        with open(ov, "w") as fh:
            yaml.safe_dump({"run_space": case["run_space"]} if rng.random() < 0.5 else case["run_space"], fh, sort_keys=False)
        inline = decoy if rng.random() < 0.6 else None
        ores = cli.run_launch(dict(case, run_space=inline), os.path.join(wd, "ovl"), trace_mode="file", detail="hash",
                              extra_argv=["--run-space-file", ov])
        orecs = cli.global_order(ores["files"])
        ostarts = [r for r in orecs if r.get("record_type") == "run_space_start"]
        run.count("override_file_launches")
        ow = dict(witness, inline_block=inline, override_file_has=case["run_space"])
        if len(ostarts) != 1:
            run.violation("override_file_launch_without_run_space_start", f"{len(ostarts)} run_space_start records (rc={ores['res'].rc})", ow)
        else:
            osid = ostarts[0].get("run_space_spec_id")
            if osid != sid:
                run.violation("spec_id_of_override_file_launch_is_not_the_executed_block",
                              f"launch with --run-space-file: run_space_start carries {osid}; the block that executes has id {sid} "
                              f"(inline block: {'a different one' if inline else 'none'})", dict(ow, trace=osid, inspect=sid))
            if launch_records is not None:
                n0 = sum(1 for r in launch_records if r.get("record_type") == "pipeline_start")
                n1 = sum(1 for r in orecs if r.get("record_type") == "pipeline_start")
                if n0 != n1:
                    run.violation("override_file_launch_runs_another_plan", f"{n1} runs, the same block declared inline gave {n0}", ow)
    # cosmetic rewrites
    for j in range(3):
        rs = shuffle_keys(copy.deepcopy(case["run_space"]), rng)
        p = os.path.join(wd, f"cos{j}.yaml")
        doc = {"run_space": rs, "extensions": list(cli.EXT), "pipeline": {"nodes": case["nodes"]}}
        with open(p, "w") as fh:
            yaml.safe_dump(doc, fh, sort_keys=False, default_flow_style=bool(j % 2))
        if yaml.safe_load(open(p))["run_space"] != case["run_space"]:
            continue
        sid2, _ = inspect_spec_id(p, wd)
        run.count("cosmetic_rewrites_checked")
        if sid2 != sid:
            run.violation("spec_id_changes_under_cosmetic_edit", f"spec id {sid} -> {sid2} after reordering mapping keys / changing YAML style", dict(witness, rewritten=rs))
    # plan mutations
    for mut, rs in plan_mutations(case["run_space"], rng):
        p = os.path.join(wd, f"mut_{mut}.yaml")
        cli.write_yaml(p, case["nodes"], rs, None)
        sid3, _ = inspect_spec_id(p, wd)
        run.count("plan_mutations_checked")
        if sid3 == sid:
            run.violation(f"spec_id_unchanged_under_plan_mutation:{mut}", f"spec id stays {sid} although the plan changed ({mut})", dict(witness, mutated=rs))
    shutil.rmtree(wd, ignore_errors=True)


def plan_mutations(rs, rng):
    out = []
    m = copy.deepcopy(rs)
    b = m["blocks"][0]
    k = sorted(b["context"])[0]
    v = b["context"][k]
    b["context"][k] = v[:-1] + [v[-1] + 1.5 if isinstance(v[-1], float) else str(v[-1]) + "x"]
    out.append(("value_changed", m))
    # the smallest change of a value: another scalar type that compares equal in Python (3.0 -> 3, 3 -> 3.0, 1 -> True).
    # The runs receive a different object (an int is not a float to a type-strict source), so it is another plan.
    from vlib.rewrite import _retype

    for bi, blk in enumerate(rs["blocks"]):
        done = False
        for kk in sorted(blk.get("context") or {}):
            vals = blk["context"][kk]
            for vi, x in enumerate(vals if isinstance(vals, list) else []):
                nv = _retype(x)
                if nv is not None:
                    m = copy.deepcopy(rs)
                    m["blocks"][bi]["context"][kk][vi] = nv
                    out.append(("value_retyped", m))
                    done = True
                    break
            if done:
                break
        if done:
            break
    m = copy.deepcopy(rs)
    b = m["blocks"][0]
    k = sorted(b["context"])[0]
    b["context"][k + "_renamed"] = b["context"].pop(k)
    out.append(("key_renamed", m))
    m = copy.deepcopy(rs)
    m["blocks"][0]["mode"] = "combinatorial" if m["blocks"][0]["mode"] == "by_position" else "by_position"
    out.append(("block_mode_changed", m))
    m = copy.deepcopy(rs)
    m["combine"] = "by_position" if m.get("combine", "combinatorial") == "combinatorial" else "combinatorial"
    out.append(("combine_changed", m))
    if len(rs["blocks"]) > 1:
        m = copy.deepcopy(rs)
        m["blocks"].reverse()
        out.append(("block_order_swapped", m))
    return out


def inputs_id_checks(run, scratch, rng):
    """inputs ID changes exactly when a referenced file's content changes."""
    from vlib import cli

    wd = tempfile.mkdtemp(prefix="inputs-", dir=scratch)
    src = os.path.join(wd, "vals.csv")
    rows = [rng.choice([1.0, 2.0, 3.5]) + i for i in range(3)]
    content = "value\n" + "\n".join(str(r) for r in rows) + "\n"
    open(src, "w").write(content)
    case = {"nodes": [{"processor": "VSrc"}, {"processor": "VMulDefault"}],
            "run_space": {"combine": "combinatorial", "max_runs": 100,
                          "blocks": [{"mode": "by_position", "source": {"format": "csv", "path": "vals.csv"}}]},
            "plan": [{"value": r} for r in rows], "first_fail": None}

    def launch(tag):
        res = cli.run_launch(case, os.path.join(wd, tag), trace_mode="file", detail="hash", name="l.yaml")
        recs = cli.global_order(res["files"])
        st = [r for r in recs if r.get("record_type") == "run_space_start"]
        return (st[0].get("run_space_inputs_id"), st[0].get("run_space_spec_id"), res["res"].rc) if st else (None, None, res["res"].rc)

    # the YAML lives in a sub-directory; make the path resolvable from there
    for tag in ("a", "b", "c", "d"):
        os.makedirs(os.path.join(wd, tag), exist_ok=True)
    case["run_space"]["blocks"][0]["source"]["path"] = src
    a = launch("a")
    open(src, "w").write(content)            # identical bytes rewritten
    b = launch("b")
    os.utime(src, (1, 1))                    # touched
    c = launch("c")
    open(src, "w").write(content.replace(str(rows[-1]), str(rows[-1] + 1.0)))  # content changed
    d = launch("d")
    os.makedirs(os.path.join(wd, "e"), exist_ok=True)
    with open(src, "w", newline="") as fh:       # the ORIGINAL rows again, but with CR LF line endings: other bytes
        fh.write(content.replace("\n", "\r\n"))
    e = launch("e")
    # other bytes of the SAME length with the modification time preserved (cp -p, rsync -t, an archive extracted over it)
    st = os.stat(src)
    body = content.replace("\n", "\r\n")
    k = next(i for i, ch in enumerate(body) if ch.isdigit())
    body_f = body[:k] + ("7" if body[k] != "7" else "3") + body[k + 1:]
    os.makedirs(os.path.join(wd, "f"), exist_ok=True)
    with open(src, "w", newline="") as fh:
        fh.write(body_f)
    os.utime(src, ns=(st.st_atime_ns, st.st_mtime_ns))
    f = launch("f")
    run.count("inputs_id_launches", 6)
    w = {"a": a, "b": b, "c": c, "d": d, "e": e, "f": f}
    if e[0] is not None and f[0] == e[0] and os.stat(src).st_size == st.st_size:
        run.violation("inputs_id_unchanged_after_content_change:same_size_same_mtime",
                      f"inputs id unchanged although the file's bytes changed (same length, modification time preserved): {w}", w)
    if a[0] is not None and e[0] == a[0]:
        run.violation("inputs_id_unchanged_after_content_change", f"inputs id unchanged although the file's bytes changed (LF -> CR LF line endings): {w}", w)
    if a[0] is None:
        run.violation("inputs_id_absent_with_source_file", f"run_space_start carries no inputs id although a source file is referenced: {w}", w)
    else:
        if not (a[0] == b[0] == c[0]):
            run.violation("inputs_id_changes_without_content_change", f"inputs id differs after rewriting identical bytes / touching the file: {w}", w)
        if d[0] == a[0]:
            run.violation("inputs_id_unchanged_after_content_change", f"inputs id unchanged although the file content changed: {w}", w)
        if not (a[1] == b[1] == c[1] == d[1]):
            run.violation("spec_id_depends_on_file_content", f"spec id changed with file content: {w}", w)
    shutil.rmtree(wd, ignore_errors=True)


def run(run):
    boot.boot()
    from vlib import cli, gen
    from vlib.verdict import canon_hash

    seed = run.seed * 1000 + run.shard[0]
    rng = random.Random(seed)
    scratch = tempfile.mkdtemp(prefix="verif-c09-")
    g = gen.Gen(seed, scratch)
    idopts = ["explicit", "idempotency", "generated"]
    generated_ids = []
    try:
        for li in range(N_LAUNCHES[run.tier]):
            n_runs = rng.randint(2, 6)
            fail_at = [None] + list(range(n_runs))
            fa = fail_at[li % len(fail_at)] if run.tier == "quick" else rng.choice(fail_at)
            case = cli.launch_case(g, fail_at=fa, n_runs=n_runs, fail_with=("exit" if (fa is not None and li % 3 == 1) else "boom"))
            if (li + run.shard[0]) % 2 == 0:
                case["cli_context"] = {"cli_k": 1.5}      # a key supplied with --context (shared by every run of the launch)
            mode = ("file", "dir")[li % 2]
            idopt = idopts[li % 3]
            attempt = 1 + ((li // 3 + run.shard[0]) % 3)   # decorrelated from the launch-id option
            if (li + run.shard[0]) % 3 == 1:
                # legal explicit nulls ("source: null") — same meaning, must not split inspect vs trace ids
                for b in case["run_space"]["blocks"]:
                    if rng.random() < 0.7:
                        b["source"] = None
            wd = tempfile.mkdtemp(prefix="launch-", dir=scratch)
            sub = (run.tier == "thorough" and li % 10 == 0) or (run.tier == "quick" and li == 0 and run.shard[0] < 3 and cli.has_module_entry())
            res, records, launch_id, spec_id, _inp = check_launch(run, case, wd, mode, idopt, attempt, subprocess_=sub)
            compare_with_standalone(run, case, records, wd, scratch, mode)
            if idopt == "idempotency":
                wd2 = tempfile.mkdtemp(prefix="launch-", dir=scratch)
                _r, _recs, launch_id2, _s, _i = check_launch(run, case, wd2, mode, idopt, attempt)
                run.count("idempotency_pairs")
                if launch_id != launch_id2 or launch_id is None:
                    run.violation("idempotency_key_launch_id_not_reproducible", f"{launch_id} vs {launch_id2} for the same key/spec",
                                  {"nodes": case["nodes"], "run_space": case["run_space"]})
                shutil.rmtree(wd2, ignore_errors=True)
            if idopt == "generated":
                if launch_id in generated_ids:
                    run.violation("generated_launch_id_repeats", f"generated launch id {launch_id} repeated", {"ids": generated_ids})
                generated_ids.append(launch_id)
            if li % 2 == 0 or any("source" in b for b in case["run_space"]["blocks"]):
                spec_id_checks(run, case, scratch, rng, spec_id, launch_records=records)
            shutil.rmtree(wd, ignore_errors=True)
            run.case(canon_hash([case["nodes"], case["run_space"], case["first_fail"], mode, idopt, attempt]), len(case["plan"]) >= 2,
                     sample={"nodes": case["nodes"], "run_space": case["run_space"], "first_fail": case["first_fail"], "mode": mode,
                             "idopt": idopt, "attempt": attempt} if run.evaluations < 2 else None)
        inputs_id_checks(run, scratch, rng)
    finally:
        shutil.rmtree(scratch, ignore_errors=True)
    run.floor("launches", 4)
    run.floor("standalone_runs", 8)
    run.floor("pipeline_starts_checked", 8)
    run.floor("inspect_runs", 1)
    run.floor("override_file_launches", 1)
    run.assumptions += ["plan computed by an own expansion (vlib.cli.expand_plan) of context-only blocks; the real expansion is checked by C08",
                        "comparison with the standalone run removes run ids, timestamps, durations, seq and the run-space foreign-key fields only"]


def replay(run, witness):
    boot.boot()
    from vlib import cli

    scratch = tempfile.mkdtemp(prefix="verif-c09-")
    try:
        rs = witness["run_space"]
        plan = cli.expand_plan(rs)
        case = {"nodes": witness["nodes"], "run_space": rs, "plan": plan,
                "first_fail": next((i for i, r in enumerate(plan) if r.get("fuse", 0.0) >= 1.0), None)}
        wd = tempfile.mkdtemp(prefix="launch-", dir=scratch)
        res, records, _lid, spec_id, _ = check_launch(run, case, wd, witness.get("mode", "file"), witness.get("idopt", "generated"), witness.get("attempt", 1))
        compare_with_standalone(run, case, records, wd, scratch, witness.get("mode", "file"))
        spec_id_checks(run, case, scratch, random.Random(1), spec_id)
        run.case(witness["nodes"], True, sample=witness["run_space"])
        run.case("replay-second-slot", True)
    finally:
        shutil.rmtree(scratch, ignore_errors=True)
