"""C05 — identities discriminate: a change of meaning changes semantic ID and config ID.

Oracle: INEQUALITY across a single-point semantic mutation pair, both sides computed in the same process through the
real ``build_inspection_payload``: identity.semantic_id must differ AND identity.config_id must differ AND, for every
affected node, its uuid or its node_semantic_id must differ; plus uniqueness of the node UUIDs inside every payload
(textually identical duplicate nodes are part of the workload).  No model of any hash.

Mutation operators (vlib.rewrite.mutations), each at every applicable position: processor of a node (another library
component of the same kind that accepts the node's parameters; shorthand / slicer variants), a parameter value at depth
0 / 1 / 2 (ModelFittingContextProcessor: list elements, class-descriptor kwargs), delete / duplicate / swap nodes, and inside
a sweep: wrapped processor, non-equivalent expression (operator swap, constant change, variable swap / replacement —
non-equivalence established by evaluating both on four assignments), variable domain (bound, steps, scale, endpoint,
sequence element, from_context key), mode, broadcast.  Violation key "<identity>_unchanged:<mutation operator>".
"""
from __future__ import annotations

import json
import random
import shutil
import tempfile

from vlib import boot

LEVEL = "exploration"
RULE = ("seeded generator of configurations (generated pipelines, sweep-centred pipelines, multi-variable from_context sweeps, "
        "nested list/mapping parameters, textually identical duplicate nodes) x every applicable single-point mutation operator at "
        "every applicable position; one case = one (configuration, mutation) pair, both inspected by the real "
        "build_inspection_payload in one process; distinct = hash of (original nodes, mutated nodes); non-trivial = the mutated "
        "node list differs from the original and both payloads were built")
SHARDS = {"quick": 8, "thorough": 16}
SHARD_TIMEOUT = {"quick": 900, "thorough": 3000}
N_CONFIGS = {"quick": 24, "thorough": 24}        # per chunk
CHUNKS = {"quick": 1, "thorough": 8}             # per shard; each chunk of a thorough shard runs in a fresh interpreter


def ids_of(payload: dict) -> dict:
    nodes = payload["pipeline_spec_canonical"]["nodes"]
    return {"semantic_id": payload["identity"]["semantic_id"], "config_id": payload["identity"]["config_id"],
            "uuids": [n["uuid"] for n in nodes], "nsids": [n["node_semantic_id"] for n in nodes]}


def judge(orig: dict, mut: dict, m) -> list:
    """[(identity, message)] for one mutation pair."""
    bad = []
    if orig["semantic_id"] == mut["semantic_id"]:
        bad.append(("semantic_id", f"semantic ID {orig['semantic_id']} unchanged"))
    if orig["config_id"] == mut["config_id"]:
        bad.append(("config_id", f"config ID {orig['config_id']} unchanged"))
    for oi, mi in m.affected:
        if oi < len(orig["uuids"]) and mi < len(mut["uuids"]):
            if orig["uuids"][oi] == mut["uuids"][mi] and orig["nsids"][oi] == mut["nsids"][mi]:
                bad.append(("node_ids", f"node {oi}->{mi}: uuid {orig['uuids'][oi]} and node semantic id {orig['nsids'][oi]} both unchanged"))
    return bad


def violation(run, key: str, what: str, witness) -> None:
    """run.violation with one replay file per mechanism key and shard (every hit is still counted)."""
    cap = 1 if run.shard[1] > 1 else 3
    if key in run.known or run.viol_keys[key] < cap:
        run.violation(key, what, witness)
    else:
        run.counters["violations_total"] += 1
        run.counters["violations_unlisted"] += 1
        run.viol_keys[key] += 1


def check_pair(run, nodes: list, m, orig_ids: dict, build) -> None:
    from vlib.verdict import canon_hash

    try:
        mut_payload = build(m.nodes)
    except Exception as exc:
        run.count("mutant_not_buildable")
        run.count(f"mutant_not_buildable_{m.op}")
        run.info.setdefault("mutant_not_buildable_examples", {}).setdefault(m.op, f"{type(exc).__name__}: {exc}"[:200])
        return
    mut_ids = ids_of(mut_payload)
    run.count("mutation_pairs")
    run.count(f"op_{m.op}")
    wit = {"nodes": nodes, "mutated": m.nodes, "op": m.op, "pos": m.pos, "detail": m.detail, "affected": m.affected}
    for ident, msg in judge(orig_ids, mut_ids, m):
        violation(run, f"{ident}_unchanged:{m.op}", f"{m.op} at node {m.pos} ({json.dumps(m.detail, default=repr)[:200]}): {msg}",
                      dict(wit, original_ids=orig_ids, mutated_ids=mut_ids))
    if len(set(mut_ids["uuids"])) != len(mut_ids["uuids"]):
        violation(run, f"duplicate_node_uuid:after_{m.op}", f"two nodes of one pipeline share a UUID: {mut_ids['uuids']}", dict(wit, mutated_ids=mut_ids))
    if m.op == "node_duplicated":
        run.count("textually_identical_duplicates_checked")
    run.case(canon_hash([nodes, m.nodes]), True,
             sample={"op": m.op, "pos": m.pos, "detail": m.detail, "original": orig_ids, "mutated": mut_ids} if run.evaluations < 4 else None)


def run(run):
    if CHUNKS[run.tier] > 1:
        from vlib import rewrite as rw

        rw.run_in_chunks(run, "c05", CHUNKS[run.tier])
    else:
        run_chunk(run, 0)
    _floors(run)


def run_chunk(run, chunk: int):
    boot.boot()
    from semantiva.inspection import build_inspection_payload
    from vlib import gen, rewrite as rw

    seed = (run.seed * 1000 + run.shard[0]) * 64 + chunk
    scratch = tempfile.mkdtemp(prefix="verif-c05-")
    g = gen.Gen(seed, scratch)

    def build(nodes):
        return build_inspection_payload(rw.make_doc(nodes))

    try:
        done = attempts = 0
        while done < N_CONFIGS[run.tier] and attempts < 4 * N_CONFIGS[run.tier]:
            attempts += 1
            case = rw.config_case(g, attempts, fc_share=0.15, very_long=True)
            nodes = case["nodes"]
            try:
                orig = ids_of(build(nodes))
            except Exception as exc:
                run.count("config_not_buildable")
                continue
            done += 1
            run.count("configurations")
            for t in case["tags"]:
                run.count(f"config_tag_{t}")
            if len(set(orig["uuids"])) != len(orig["uuids"]):
                run.violation("duplicate_node_uuid:original", f"two nodes of one pipeline share a UUID: {orig['uuids']}", {"nodes": nodes, "op": None})
            if "duplicate_node" in case["tags"]:
                run.count("textually_identical_duplicates_checked")
            # observation only (context_key is not among the identity-bearing respects the property lists)
            for i, n in enumerate(nodes):
                if isinstance(n.get("context_key"), str):
                    mu = [dict(x) for x in nodes]
                    mu[i] = dict(mu[i], context_key=n["context_key"] + "_m")
                    try:
                        o2 = ids_of(build(mu))
                        run.count("observation_context_key_changed_pairs")
                        if o2["semantic_id"] == orig["semantic_id"] and o2["config_id"] == orig["config_id"]:
                            run.count("observation_context_key_change_leaves_all_ids_unchanged")
                    except Exception:
                        pass
                    break
            for m in rw.mutations(nodes, counters=run.count):
                check_pair(run, nodes, m, orig, build)
    finally:
        shutil.rmtree(scratch, ignore_errors=True)


def _floors(run):
    run.info["operators_not_available"] = {"sweep_collection": "the component library (repository + harness) has exactly one DataCollectionType "
                                           "(FloatDataCollection); no second collection to switch to, operator not generated"}
    run.floor("mutation_pairs", 300)
    for op in ("processor_changed", "param_value_depth0", "param_value_depth1", "param_value_depth2", "node_deleted", "node_duplicated",
               "nodes_swapped", "sweep_wrapped_processor_changed", "sweep_expression_operator_swapped", "sweep_expression_constant_changed",
               "sweep_var_bound", "sweep_var_steps", "sweep_var_endpoint", "sweep_var_scale", "sweep_var_sequence_element",
               "sweep_var_from_context_key", "sweep_mode", "sweep_broadcast"):
        run.floor(f"op_{op}", 3)
    run.floor("textually_identical_duplicates_checked", 10)
    run.assumptions += ["value changes between 1 / 1.0 / True are don't-cares and are not generated (numbers are bumped by 1 or 1.25, strings get a suffix)",
                        "two expressions are non-equivalent when they differ on one of four fixed assignments; mutants equal on all four are skipped",
                        "context_key of a probe node is not among the identity-bearing respects listed by the property; its effect is recorded as an observation only"]


def replay(run, witness):
    boot.boot()
    from semantiva.inspection import build_inspection_payload
    from vlib import rewrite as rw

    def build(nodes):
        return build_inspection_payload(rw.make_doc(nodes))

    nodes = witness["nodes"]
    orig = ids_of(build(nodes))
    if witness.get("op") is None:
        if len(set(orig["uuids"])) != len(orig["uuids"]):
            run.violation("duplicate_node_uuid:original", f"two nodes of one pipeline share a UUID: {orig['uuids']}", witness)
    else:
        m = rw.Mutation(witness["op"], witness["pos"], witness["mutated"], [tuple(x) for x in witness["affected"]], witness.get("detail", {}))
        check_pair(run, nodes, m, orig, build)
    run.case([nodes, "replay"], True, sample={"op": witness.get("op"), "nodes": nodes})
    run.case("replay-second-slot", True)
