"""C16 — every class the factories generate satisfies the framework's own contracts.

Oracle 1: the repository's own rule catalogue (semantiva.contracts.expectations.validate_component) executed on the
          classes that only exist at run time (node class, generated processor class, wrapped IO class, nested
          wrapper elements): no error-severity diagnostic.
Oracle 2: the mirror relation between a node and the processor it wraps (declared input/output types, created
          keys), both *relative* (node vs. the real generated processor class) and *absolute* (node, generated
          processor and wrapped IO class vs. vlib.nodespace.expect(), which is computed from the component table and
          the wrapping only).
Observed at: a sys.monitoring PY_RETURN probe on ``_pipeline_node_factory`` (plus the two ``_PipelineNodeFactory``
          constructors it never calls), i.e. the place every node is born, so nodes built by Pipeline.process,
          inspection and the CLI are checked as well as the dedicated enumeration.  The callback only queues the
          node; validation happens after the constructing call has returned.
"""
from __future__ import annotations

import contextlib
import copy
import io
import os
import random
import shutil
import sys
import tempfile
import threading
from collections import Counter

from vlib import boot

LEVEL = "exploration"
RULE = ("enumeration of the node-configuration space: every library component (repo examples + vlib.components + core "
        "processors) x every wrapping factory (IO adapter, slicer, sweep x3 kinds with range/sequence/from_context "
        "variables in both modes, rename/delete/template, with_context_key, model-fitting mapping, context-injecting "
        "operation probe node, context-data-processor node) x nested combinations (sweep of a slicer, slicer of a swept "
        "probe, ...) x parameter placements (config / left to context or default), plus every node harvested by the "
        "PY_RETURN hook from seeded generated pipelines run through Pipeline.process, inspection and the CLI. "
        "One case per distinct (structural node kind, leaf processor, wrapping/route, parameters written in config, key "
        "shape); non-trivial = the processor class wrapped by the node is itself created at run time")
SHARDS = {"quick": 1, "thorough": 16}
SHARD_TIMEOUT = {"thorough": 2400}
N_PIPELINES = {"quick": 260, "thorough": 800}
N_SWEEP_CASES = {"quick": 140, "thorough": 360}
TOOL = 5

REQUIRED_KINDS = ["source", "payload_source", "op", "probe", "sink", "payload_sink", "ctx", "ctx_rename", "ctx_delete",
                  "ctx_template", "ctx_with_context_key", "ctx_model_fitting_mapped", "op_slicer", "probe_slicer",
                  "source_sweep", "op_sweep", "probe_sweep", "op_sweep_of_slicer", "probe_sweep_of_slicer",
                  "probe_slicer_of_sweep", "op_context_injector_probe", "op_context_injector_probe_sweep",
                  "op_context_injector_probe_slicer", "context_data_processor", "context_data_processor_sweep",
                  "context_data_processor_slicer"]


# --------------------------------------------------------------------------- the hook
class Hook:
    """PY_START / PY_RETURN probes on the node constructors.  Callbacks only record."""

    def __init__(self):
        self.queue: list = []
        self.hits: Counter = Counter()
        self._pending: dict = {}
        self.codes: dict = {}

    def install(self):
        import semantiva.pipeline.nodes._pipeline_node_factory as pf

        F = pf._PipelineNodeFactory
        self.codes = {
            pf._pipeline_node_factory.__code__: "factory",
            F.create_data_operation_context_injector_probe_node.__code__: "injector",
            F.create_context_processor_node.__code__: "ctxdata",
        }
        mon = sys.monitoring
        E = mon.events
        try:
            mon.use_tool_id(TOOL, "verif-c16")
        except ValueError:
            mon.free_tool_id(TOOL)
            mon.use_tool_id(TOOL, "verif-c16")
        mon.register_callback(TOOL, E.PY_START, self._start)
        mon.register_callback(TOOL, E.PY_RETURN, self._return)
        for co in self.codes:
            mon.set_local_events(TOOL, co, E.PY_START | E.PY_RETURN)
        return self

    def remove(self):
        mon = sys.monitoring
        E = mon.events
        for co in self.codes:
            try:
                mon.set_local_events(TOOL, co, 0)
            except Exception:
                pass
        try:
            mon.register_callback(TOOL, E.PY_START, None)
            mon.register_callback(TOOL, E.PY_RETURN, None)
            mon.free_tool_id(TOOL)
        except Exception:
            pass

    def _start(self, code, offset):
        which = self.codes.get(code)
        if which is None:
            return
        loc = sys._getframe(1).f_locals
        if which == "factory":
            nd = loc.get("node_definition")
            cap = dict(nd) if isinstance(nd, dict) else None
        elif which == "injector":
            cap = {"processor_cls": loc.get("processor_cls"), "context_key": loc.get("context_key")}
        else:
            cap = {"processor_cls": loc.get("processor_cls"), "in_key": loc.get("input_context_key"),
                   "out_key": loc.get("output_context_key")}
        self._pending[(threading.get_ident(), which)] = cap

    def _return(self, code, offset, retval):
        which = self.codes.get(code)
        if which is None:
            return
        self.hits[which] += 1
        self.queue.append((which, retval, self._pending.pop((threading.get_ident(), which), None)))

    def drain(self) -> list:
        out, self.queue = self.queue, []
        return out


# --------------------------------------------------------------------------- structural description of a node
def _is_runtime_class(cls) -> bool:
    """A class that is not reachable as ``module.<name>`` was created at run time."""
    mod = sys.modules.get(getattr(cls, "__module__", None))
    return "<locals>" in getattr(cls, "__qualname__", "") or getattr(mod, cls.__name__, None) is not cls


def _wrapper_step(cls):
    d = cls.__dict__
    if "data_type_override" in d or "input_data_type_override" in d:
        return "slicer", cls.__bases__[0]
    if "_element" in d and "_vars" in d:
        return "sweep", d["_element"]
    return None, None


def describe_structure(node):
    """(kind label, node base label, wrapped processor class, class attribute processor, chain of classes to validate, leaf name)."""
    import semantiva.pipeline.nodes.nodes as N

    t = type(node)
    mro = t.__mro__     # plain MRO membership: isinstance() on these ABCs scans (and caches in) every generated subclass
    cls_attr = getattr(t, "processor", None)
    if N._ContextDataProcessorNode in mro:
        base, P, top = "context_data_processor", node.processor_cls, node.processor_cls
    else:
        P = type(node.processor)
        top = P
        if N._DataOperationContextInjectorProbeNode in mro:
            base = "op_context_injector_probe"
        elif N._DataSourceNode in mro:
            base, top = "source", cls_attr
        elif N._PayloadSourceNode in mro:
            base, top = "payload_source", cls_attr
        elif N._DataSinkNode in mro:
            base, top = "sink", cls_attr
        elif N._PayloadSinkNode in mro:
            base, top = "payload_sink", cls_attr
        elif N._DataOperationNode in mro:
            base = "op"
        elif N._ProbeContextInjectorNode in mro:
            base = "probe"
        elif N._ContextProcessorNode in mro:
            n = P.__name__
            base = ("ctx_rename" if n.startswith("Rename_") else "ctx_delete" if n.startswith("Delete_") else
                    "ctx_template" if n.startswith("Template_") else "ctx_with_context_key" if "_OUT_" in n else
                    "ctx_model_fitting_mapped" if "_MAPPED_" in n else "ctx")
        else:
            base = "other_" + t.__mro__[1].__name__
    chain = [t, P]
    if isinstance(cls_attr, type) and cls_attr not in chain:
        chain.append(cls_attr)
    wrappers = []
    cur = top if isinstance(top, type) else P
    for _ in range(6):
        w, nxt = _wrapper_step(cur)
        if w is None:
            break
        wrappers.append(w)
        if nxt not in chain:
            chain.append(nxt)
        cur = nxt
    leaf = cur.__name__
    if base.startswith("ctx_") and base != "ctx_model_fitting_mapped":
        leaf = base if base != "ctx_with_context_key" else P.__mro__[1].__name__
    if base == "ctx_model_fitting_mapped":
        leaf = "ModelFittingContextProcessor"
    kind = base + ("_" + "_of_".join(wrappers) if wrappers else "")
    return kind, base, P, cls_attr, chain, leaf


# --------------------------------------------------------------------------- the oracles
class Checker:
    def __init__(self, run):
        from semantiva.contracts.expectations import RULES, validate_component
        from semantiva.data_types import BaseDataType, NoDataType
        from semantiva.examples.test_utils import FloatDataCollection, FloatDataType

        self.run = run
        self.validate = validate_component
        self.n_rules = len(RULES)
        self.T = {"NoData": NoDataType, "Float": FloatDataType, "Coll": FloatDataCollection, "Any": BaseDataType}
        self.NoData = NoDataType
        self._leaf_cache: dict = {}
        self.seen_cases: set = set()
        self.harness_errors: Counter = Counter()
        self.kind_disagreements: Counter = Counter()
        self._sampled_kinds: set = set()

    # ---- oracle 1
    def _diagnostics(self, cls):
        runtime = _is_runtime_class(cls)
        if not runtime and cls in self._leaf_cache:
            return self._leaf_cache[cls], runtime, False
        diags = self.validate(cls)
        if not runtime:
            self._leaf_cache[cls] = diags
        return diags, runtime, True

    def catalogue(self, kind, chain, witness):
        run = self.run
        for cls in chain:
            diags, runtime, fresh = self._diagnostics(cls)
            if fresh:
                run.count("classes_validated")
                run.count("classes_validated_runtime_created" if runtime else "classes_validated_library")
                run.count("rules_evaluated", self.n_rules)
                for d in diags:
                    run.count(f"diagnostics_{d.severity}")
                    run.count(f"diag_{d.code}_{d.severity}")
            for d in diags:
                if d.severity != "error":
                    continue
                if not runtime and cls.__module__.startswith("vlib."):
                    self.harness_errors[f"{d.code}:{cls.__name__}"] += 1   # a harness component's own fault
                    continue
                vkind = kind
                for b in ("op_context_injector_probe", "context_data_processor"):
                    if kind.startswith(b):
                        vkind = b
                run.violation(f"contract_error_{d.code}@{vkind}",
                              f"validate_component({cls.__name__}) [{'run-time-created' if runtime else 'library'} class, "
                              f"component_type={_ctype(cls)}] yields error {d.code}: {d.message}",
                              dict(witness, rule=d.code, validated_class=cls.__name__, details=d.details))

    # ---- oracle 2
    def mirror(self, kind, base, node, P, cls_attr, exp, route, context_key, witness):
        run = self.run
        T = self.T
        findings = []   # (key, layer, expected, observed)

        def name(t):
            return getattr(t, "__name__", repr(t))

        def same(key, layer, expected, observed):
            run.count("mirror_comparisons")
            if isinstance(expected, _Raised):
                return      # the wrapped processor's own accessor raises: nothing to mirror (the catalogue judges that)
            if expected is not observed:
                findings.append((key, layer, name(expected), name(observed)))

        def superset(layer, expected_keys, observed_keys):
            run.count("mirror_comparisons")
            if isinstance(expected_keys, _Raised):
                return      # the processor's own accessor raises: nothing to mirror (the catalogue judges that)
            if isinstance(observed_keys, _Raised):
                findings.append(("mirror_created_keys_missing", layer, sorted(expected_keys), observed_keys.__name__))
                return
            missing = sorted(set(expected_keys) - set(observed_keys or []))
            if missing:
                findings.append(("mirror_created_keys_missing", layer, sorted(expected_keys), sorted(observed_keys or [])))

        n_created = _call(node, "get_created_keys")
        try:
            md = type(node).get_metadata()
        except Exception:   # SVA100 reports this
            md = {}
        is_data_node = hasattr(node, "input_data_type") and hasattr(node, "output_data_type")
        if is_data_node:
            n_in, n_out = _call(node, "input_data_type"), _call(node, "output_data_type")
        P = _Guard(P)
        if isinstance(cls_attr, type):
            cls_attr_g = _Guard(cls_attr)
        # ---------------- relative: the node against the class it really wraps (the literal property statement)
        run.count("mirror_checks_relative")
        if base in ("source", "payload_source"):
            same("mirror_input_type", "node~nodata", self.NoData, n_in)
            same("mirror_output_type", "node~processor", P.output_data_type(), n_out)
            superset("node~processor", P.get_created_keys(), n_created)
        elif base in ("sink", "payload_sink", "probe", "op_context_injector_probe"):
            same("mirror_input_type", "node~processor", P.input_data_type(), n_in)
            same("mirror_output_type", "node~passthrough", n_in, n_out)
            superset("node~processor", P.get_created_keys(), n_created)
            if base in ("probe", "op_context_injector_probe"):
                superset("node~context_key", [node.context_key], n_created)
        elif base == "op":
            same("mirror_input_type", "node~processor", P.input_data_type(), n_in)
            same("mirror_output_type", "node~processor", P.output_data_type(), n_out)
            superset("node~processor", P.get_created_keys(), n_created)
        elif base == "context_data_processor":
            superset("node~output_context_key", [node.output_context_key], n_created)
            pk = P.get_created_keys()
            if not isinstance(pk, _Raised) and not isinstance(n_created, _Raised) and set(pk) - set(n_created):
                run.count("dontcare_ctxdata_processor_keys_not_declared")   # the processor runs detached from the context
        elif base.startswith("ctx"):
            superset("node~processor", P.get_created_keys(), n_created)
        # ---------------- absolute: against the expectation computed from the configuration alone
        if exp is not None:
            run.count("mirror_checks_absolute")
            e_in = T[exp.in_t]
            role = exp.role
            if route in ("injector", "ctxdata"):
                e_nin, e_nout = e_in, (e_in if route == "injector" else (T[exp.out_t] if exp.out_t else None))
                e_pin, e_pout = e_in, (T[exp.out_t] if exp.out_t else None)
            elif role in ("source", "psource"):
                e_nin, e_nout, e_pin, e_pout = self.NoData, T[exp.out_t], self.NoData, T[exp.out_t]
            elif role in ("sink", "psink", "probe"):
                e_nin, e_nout, e_pin = e_in, e_in, e_in
                e_pout = e_in if role != "probe" else None
            elif role == "op":
                e_nin, e_nout, e_pin, e_pout = e_in, T[exp.out_t], e_in, T[exp.out_t]
            else:
                e_nin = e_nout = e_pin = e_pout = None
            if is_data_node and e_nin is not None:
                same("mirror_input_type", "node~expected", e_nin, n_in)
                same("mirror_output_type", "node~expected", e_nout, n_out)
            if e_pin is not None:
                same("mirror_input_type", "processor~expected", e_pin, P.input_data_type())
                if e_pout is not None:
                    same("mirror_output_type", "processor~expected", e_pout, P.output_data_type())
            if isinstance(cls_attr, type) and cls_attr is not P.cls and route == "factory":
                if role in ("source", "psource"):
                    same("mirror_output_type", "wrapped_io~expected", T[exp.out_t], cls_attr_g.output_data_type())
                elif role in ("sink", "psink"):
                    same("mirror_input_type", "wrapped_io~expected", e_in, cls_attr_g.input_data_type())
            # declared metadata strings, when the node publishes them
            if e_nin is not None and "input_data_type" in md and route != "ctxdata":
                run.count("mirror_comparisons")
                if md["input_data_type"] != e_nin.__name__:
                    findings.append(("mirror_input_type", "node_metadata~expected", e_nin.__name__, md["input_data_type"]))
            if e_nout is not None and "output_data_type" in md and route != "ctxdata":
                run.count("mirror_comparisons")
                if md["output_data_type"] != e_nout.__name__:
                    findings.append(("mirror_output_type", "node_metadata~expected", e_nout.__name__, md["output_data_type"]))
            if route == "ctxdata":
                if "input_data_type" in md:
                    run.count("mirror_comparisons")
                    if md["input_data_type"] != e_in.__name__:
                        findings.append(("mirror_input_type", "node_metadata~expected", e_in.__name__, md["input_data_type"]))
                if exp.out_t and "output_data_type" in md:
                    run.count("mirror_comparisons")
                    if md["output_data_type"] != T[exp.out_t].__name__:
                        findings.append(("mirror_output_type", "node_metadata~expected", T[exp.out_t].__name__, md["output_data_type"]))
                superset("node~expected", [context_key], n_created)
            else:
                want = set(exp.created)
                superset("processor~expected", want, P.get_created_keys())
                if role == "probe" or route == "injector":
                    want = want | {context_key}
                superset("node~expected", want, n_created)
        # one report per mechanism key and node; the two special constructors are one mechanism each whatever they wrap
        vkind = base if base in ("op_context_injector_probe", "context_data_processor") else kind
        reported = set()
        for key, layer, expected, observed in findings:
            if key in reported:
                continue
            reported.add(key)
            what = {"mirror_input_type": "declared input type", "mirror_output_type": "declared output type",
                    "mirror_created_keys_missing": "declared created keys"}[key]
            run.violation(f"{key}@{vkind}",
                          f"{kind} node {type(node).__name__} wrapping {P.cls.__name__}: {what} do not mirror the wrapped processor "
                          f"[{layer}]: expected {expected}, declared {observed}",
                          dict(witness, layer=layer, expected=expected, observed=observed))
        return not findings

    # ---- one harvested node
    def check(self, which, node, captured, case=None, paired_def=None, origin="enumeration"):
        from vlib import nodespace as ns

        run = self.run
        kind, base, P, cls_attr, chain, leaf = describe_structure(node)
        run.count("nodes_checked")
        run.count(f"nodes_kind_{kind}")
        run.count(f"nodes_from_{origin}")
        route = which
        spec = None
        context_key = None
        if case is not None:
            spec = ns.case_spec(case)
            context_key = ns.case_context_key(case)
            wcase = case
        else:
            src = None
            # what the constructor itself was given says most (raw configuration with string processors and derive
            # blocks); a Pipeline hands over an already generated sweep class, then the generator's node list is used
            if which == "factory" and isinstance(captured, dict) and isinstance(captured.get("processor"), str):
                spec = ns.spec_from_definition(captured)
                src = captured
            elif paired_def is not None:
                spec = ns.spec_from_definition(paired_def)
                src = paired_def
            if src is not None:
                context_key = src.get("context_key")
            wcase = {"route": "factory", "definition": src if src is not None else captured}
        exp = None
        if spec is not None:
            try:
                exp = ns.expect(spec)
            except ns.NotModelled:
                exp = None
        if exp is not None and ns.kind_of(exp, route) != kind:
            # the definition this node was paired with describes another kind of node: do not judge it by that
            self.kind_disagreements[f"{ns.kind_of(exp, route)}!={kind}"] += 1
            run.count("kind_label_disagreements")
            exp = None
        if exp is None:
            run.count("nodes_without_model")
        witness = {"case": wcase, "kind": kind, "node_class": type(node).__name__, "processor_class": P.__name__,
                   "origin": origin}
        self.catalogue(kind, chain, witness)
        self.mirror(kind, base, node, P, cls_attr, exp, route, context_key, witness)
        # evidence: one case per distinct structural tuple
        in_config = sorted((getattr(node, "processor_config", None) or getattr(node, "processor_kwargs", None) or {}).keys())
        canon = [kind, leaf, route, [k for k in in_config if isinstance(k, str)], exp.shape if exp is not None else ""]
        key = repr(canon)
        if key not in self.seen_cases:
            self.seen_cases.add(key)
            generated = any(_is_runtime_class(c) for c in chain[1:])
            sample = None
            if generated and kind not in self._sampled_kinds and len(run.samples) < run.max_samples:
                self._sampled_kinds.add(kind)
                sample = {"kind": kind, "leaf": leaf, "route": route, "classes": [c.__name__ for c in chain],
                          "declares": {"input": _tn(node, "input_data_type"), "output": _tn(node, "output_data_type"),
                                       "created_keys": _safe_keys(node)},
                          "expected": None if exp is None else {"in": exp.in_t, "out": exp.out_t, "created": sorted(exp.created)}}
            run.case(canon, generated, sample=sample)


class _Raised:
    """Stands for 'the accessor raised' in comparisons (never identical to a type)."""

    def __init__(self, exc):
        self.__name__ = f"<raises {type(exc).__name__}>"


def _call(obj, meth):
    try:
        v = getattr(obj, meth)()
        return list(v) if meth == "get_created_keys" and v is not None else v
    except Exception as exc:  # noqa: BLE001
        return _Raised(exc)


class _Guard:
    """Class accessors that never raise into the checker."""

    def __init__(self, cls):
        self.cls = cls

    def input_data_type(self):
        return _call(self.cls, "input_data_type")

    def output_data_type(self):
        return _call(self.cls, "output_data_type")

    def get_created_keys(self):
        return _call(self.cls, "get_created_keys")


def _safe_keys(node):
    v = _call(node, "get_created_keys")
    return v.__name__ if isinstance(v, _Raised) else v


def _ctype(cls):
    try:
        return cls.get_metadata().get("component_type")
    except Exception:
        return "?"


def _tn(node, meth):
    try:
        return getattr(node, meth)().__name__
    except Exception:
        return None


# --------------------------------------------------------------------------- workloads
def _enumeration(run, hook, chk, rng):
    from vlib import nodespace as ns

    cases = ns.enumerate_cases(rng)
    run.info["enumerated_configurations"] = run.info.get("enumerated_configurations", 0) + len(cases)
    for case in cases:
        run.count("configurations_enumerated")
        run.count(f"configurations_route_{case['route']}")
        try:
            node = ns.build(case)
        except Exception as exc:  # not a valid node configuration: outside the property
            hook.drain()
            run.count("configurations_rejected_at_construction")
            run.count(f"rejected_{type(exc).__name__}")
            continue
        got = hook.drain()
        mine = [g for g in got if g[1] is node]
        if not mine:
            run.count("hook_missed_node")
            run.note_inconclusive("a node was constructed but the PY_RETURN probe did not see it")
            continue
        which, n, captured = mine[0]
        chk.check(which, n, captured, case=case, origin="enumeration")


def _pipelines(run, hook, chk, seed, scratch):
    from vlib import account, gen

    g = gen.Gen(seed, scratch)
    total = N_PIPELINES[run.tier] + N_SWEEP_CASES[run.tier]
    for i in range(total):
        case = g.pipeline() if i < N_PIPELINES[run.tier] else gen.sweep_case(g)
        nodes = case["nodes"]
        mode = i % 10
        hook.drain()
        if mode == 7:
            from semantiva.inspection import build_pipeline_inspection

            try:
                build_pipeline_inspection(copy.deepcopy(nodes))
            except Exception:
                run.count("inspection_raised")
            origin = "inspection"
        elif mode == 9:
            origin = "cli_inspect"
            _cli_inspect(run, nodes, scratch)
        else:
            account.real_run(nodes, case["data"], case["ctx"], via_yaml=(mode in (3, 6)), scratch=scratch)
            origin = "pipeline_yaml" if mode in (3, 6) else "pipeline"
        run.count("pipelines_driven")
        run.count(f"pipelines_via_{origin}")
        got = hook.drain()
        paired = bool(nodes) and (len(got) % len(nodes) == 0 or len(got) < len(nodes))
        for j, (which, node, captured) in enumerate(got):
            pd = nodes[j % len(nodes)] if paired else None
            chk.check(which, node, captured, paired_def=pd, origin=origin)


def _cli_inspect(run, nodes, scratch):
    import semantiva.cli as cli
    from vlib import gen

    path = os.path.join(scratch, "c16_cli.yaml")
    with open(path, "w", encoding="utf-8") as fh:
        fh.write(gen.to_yaml(nodes))
    out, err = io.StringIO(), io.StringIO()
    try:
        with contextlib.redirect_stdout(out), contextlib.redirect_stderr(err):
            try:
                cli.main(["inspect", path])
            except SystemExit as e:
                run.count(f"cli_inspect_exit_{e.code}")
            except Exception as exc:  # noqa: BLE001
                run.count(f"cli_inspect_exception_{type(exc).__name__}")
    finally:
        boot.silence()
        try:
            os.unlink(path)
        except OSError:
            pass


def run(run):
    boot.boot()
    seed = run.seed * 1000 + run.shard[0]
    rng = random.Random(seed)
    scratch = tempfile.mkdtemp(prefix="verif-c16-")
    hook = Hook().install()
    chk = Checker(run)
    try:
        _enumeration(run, hook, chk, rng)
        if run.tier == "thorough":   # the same shapes again with other values / key names / variable names
            for _ in range(1):
                _enumeration(run, hook, chk, rng)
        _pipelines(run, hook, chk, seed, scratch)
    finally:
        hook.remove()
        shutil.rmtree(scratch, ignore_errors=True)
    for which, n in hook.hits.items():
        run.count("probe_hits", n)
        run.count(f"probe_hits_{which}", n)
    if chk.harness_errors:
        run.info["harness_component_contract_errors"] = dict(chk.harness_errors)
    if chk.kind_disagreements:
        run.info["kind_label_disagreements"] = dict(chk.kind_disagreements)
    run.floor("probe_hits", 200)
    run.floor("probe_hits_factory", 200)
    run.floor("nodes_checked", 200)
    run.floor("rules_evaluated", 5000)
    run.floor("mirror_checks_absolute", 200)
    run.floor("mirror_comparisons", 1000)
    run.floor("nodes_from_pipeline", 50)
    for k in REQUIRED_KINDS:
        run.floor(f"nodes_kind_{k}", 1)
    run.exhaustive = False
    run.assumptions += [
        "the expectation (vlib/nodespace.py: expect) states what the documentation and the property say a node must declare; "
        "the component table is vlib.refmodel.COMPONENTS plus the repository examples listed in nodespace.EXTRA",
        "a _ContextDataProcessorNode runs its processor detached from the context (no observer), so keys the processor "
        "declares are never written there; only the node's output_context_key is required among its created keys (don't-care, counted)",
        "error diagnostics on a hand-written harness component (module vlib.*) are a harness fault, reported in "
        "harness_component_contract_errors, not a violation; generated classes wrapping it are still judged",
        "configurations that a factory rejects at construction are not valid node configurations and are only counted",
    ]


def replay(run, witness):
    boot.boot()
    from vlib import nodespace as ns

    hook = Hook().install()
    chk = Checker(run)
    try:
        case = witness["case"]
        if case.get("route") == "factory" and "definition" in case and not isinstance(case["definition"].get("processor"), str):
            run.note_inconclusive("witness holds a run-time class that cannot be rebuilt from the replay file")
        else:
            node = ns.build(case)
            for which, n, captured in hook.drain():
                if n is node:
                    chk.check(which, n, captured, case=case, origin="replay")
    finally:
        hook.remove()
    for which, n in hook.hits.items():
        run.count("probe_hits", n)
    run.case(witness.get("kind", "replay"), True, sample=witness.get("case"))
    run.case("replay-second-slot", True)
