#!/bin/sh
# setup_cmd: offline install of icontract beside the repository's interpreter (into /verif/.deps), sanity import.
set -e
cd "$(dirname "$0")"
PY=${VERIF_PY:-/venv/bin/python}
if ! PYTHONPATH=.deps $PY -c "import icontract" 2>/dev/null; then
  /venv/bin/pip install --quiet --no-index --find-links /opt/veriftools/wheels --target .deps icontract asttokens typing_extensions >/dev/null 2>&1 || \
  /venv/bin/pip install --no-index --find-links /opt/veriftools/wheels --target .deps icontract
fi
mkdir -p evidence replays
PYTHONPATH=.deps:${VERIF_REPO:-/repo} $PY -c "import icontract, semantiva, jsonschema, referencing, yaml; print('setup ok', icontract.__version__, semantiva.__file__)"
