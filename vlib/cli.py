"""Drivers for the real CLI (in-process for volume, subprocess for a sample and for exit codes), a generator
of (pipeline, run_space) launch cases with an own small expansion of the plan, and side-effect observers."""
from __future__ import annotations

import contextlib
import gc
import io
import os
import subprocess
import sys
from typing import Any, Optional

from . import boot

EXT = ["semantiva-examples", "vlib.components"]


class CliResult:
    def __init__(self, rc, out, err):
        self.rc, self.out, self.err = rc, out, err

    def __repr__(self):
        return f"CliResult(rc={self.rc}, out={self.out[-300:]!r}, err={self.err[-300:]!r})"


def run_cli(argv: list, cwd: Optional[str] = None) -> CliResult:
    """semantiva.cli.main(argv) in-process with stdout/stderr captured and SystemExit caught."""
    import semantiva.cli as cli

    out, err = io.StringIO(), io.StringIO()
    old_cwd = os.getcwd()
    rc: Any = None
    try:
        if cwd:
            os.chdir(cwd)
        with contextlib.redirect_stdout(out), contextlib.redirect_stderr(err):
            try:
                cli.main(list(argv))
                rc = 0
            except SystemExit as exc:
                rc = exc.code if isinstance(exc.code, int) else (0 if exc.code is None else 1)
            except KeyboardInterrupt:
                raise
            except Exception as exc:       # on a command line: a traceback and exit status 1
                import traceback

                rc = f"uncaught:{type(exc).__name__}"
                err.write("".join(traceback.format_exception_only(type(exc), exc)))
    finally:
        os.chdir(old_cwd)
        boot.silence()
        gc.collect()
    return CliResult(rc, out.getvalue(), err.getvalue())


def run_cli_subprocess(argv: list, cwd: Optional[str] = None, env_extra: Optional[dict] = None, timeout: int = 180,
                       strace_out: Optional[str] = None) -> CliResult:
    cmd = [sys.executable, "-m", "semantiva.cli"] + list(argv)
    if strace_out:
        cmd = ["strace", "-f", "-e", "trace=file", "-o", strace_out] + cmd
    p = subprocess.run(cmd, cwd=cwd, env=boot.child_env(env_extra), capture_output=True, text=True, timeout=timeout)
    return CliResult(p.returncode, p.stdout, p.stderr)


def has_module_entry() -> bool:
    return os.path.exists(os.path.join(boot.REPO, "semantiva", "cli", "__main__.py"))


def write_yaml(path: str, nodes: list, run_space: Optional[dict] = None, trace: Optional[dict] = None,
               extra: Optional[dict] = None, nested_run_space: Optional[dict] = None) -> None:
    import yaml

    doc: dict = {"extensions": list(EXT), "pipeline": {"nodes": nodes}}
    if nested_run_space is not None:
        doc["pipeline"]["run_space"] = nested_run_space     # legal alternative location (top level wins if both exist)
    if run_space is not None:
        doc["run_space"] = run_space
    if trace is not None:
        doc["trace"] = trace
    if extra:
        doc.update(extra)
    with open(path, "w", encoding="utf-8") as fh:
        yaml.safe_dump(doc, fh, sort_keys=False)


def snapshot(dirpath: str) -> dict:
    """{relative path: size} of every file under dirpath."""
    out = {}
    for root, _dirs, files in os.walk(dirpath):
        for f in files:
            p = os.path.join(root, f)
            try:
                out[os.path.relpath(p, dirpath)] = os.path.getsize(p)
            except OSError:
                pass
    return out


# --------------------------------------------------------------------------- launch cases (C09, C13, C17)
def expand_plan(run_space: dict) -> list:
    """Own small expansion (context-only blocks): blocks in declaration order, keys sorted inside a block,
    by_position aligns positions, combinatorial = Cartesian product with the rightmost varying fastest."""
    import itertools

    per_block = []
    for b in run_space.get("blocks", []):
        ctx = b.get("context") or {}
        keys = sorted(ctx)
        if b["mode"] == "by_position":
            n = len(ctx[keys[0]]) if keys else 0
            runs = [{k: ctx[k][i] for k in keys} for i in range(n)]
        else:
            runs = [dict(zip(keys, combo)) for combo in itertools.product(*[ctx[k] for k in keys])]
        per_block.append(runs)
    if not per_block:
        return [{}]
    if run_space.get("combine", "combinatorial") == "by_position":
        n = len(per_block[0])
        out = []
        for i in range(n):
            m: dict = {}
            for runs in per_block:
                m.update(runs[i])
            out.append(m)
        return out
    out = []
    for combo in itertools.product(*per_block):
        m = {}
        for part in combo:
            m.update(part)
        out.append(m)
    return out


def launch_case(g, fail_at: Optional[int] = None, n_runs: Optional[int] = None, fail_with: str = "boom") -> dict:
    """(pipeline, run_space) pair: every run gets its own value/factor/fuse from the plan; a VBoom whose fuse
    comes from the run context makes run ``fail_at`` fail."""
    rng = g.rng
    shape = rng.choice(["one_block_bypos", "two_blocks_bypos", "two_blocks_comb", "one_block_comb"])
    n = n_runs or rng.randint(2, 8)
    vals = lambda k: [round(rng.choice([0.5, 1.0, 2.0, 3.0, 4.0, 10.0]) + 0.125 * i, 3) for i in range(k)]  # noqa: E731
    nodes = [{"processor": "VSrc"}]  # value from context
    if g.chance(0.7):
        nodes.append({"processor": rng.choice(["VMul", "VMulDefault"])})  # factor from context (or default)
    if g.chance(0.5):
        nodes.append({"processor": "VValueProbe", "context_key": rng.choice(["seen", "note2"])})
    boom_pos = len(nodes)
    nodes.append({"processor": "VBoomExit" if fail_with == "exit" else "VBoom"})  # fuse from context
    if g.chance(0.5):
        nodes.append({"processor": "VAddNote"})
    if g.chance(0.6):
        nodes.append({"processor": "template:\"out_{tagv}.txt\":path"})
        nodes.append({"processor": "VFileSink"})
    if shape in ("one_block_bypos", "two_blocks_bypos"):
        fuse = [0.0] * n
        if fail_at is not None and fail_at < n:
            fuse[fail_at] = 1.0
        keys = {"value": vals(n), "factor": vals(n), "fuse": fuse, "tagv": [f"r{i}" for i in range(n)]}
        if shape == "one_block_bypos":
            blocks = [{"mode": "by_position", "context": keys}]
            combine = rng.choice(["combinatorial", "by_position"])
        else:
            ks = list(keys)
            rng.shuffle(ks)
            cut = rng.randint(1, 3)
            blocks = [{"mode": "by_position", "context": {k: keys[k] for k in ks[:cut]}},
                      {"mode": "by_position", "context": {k: keys[k] for k in ks[cut:]}}]
            combine = "by_position"
    else:
        a, b = rng.choice([(2, 2), (2, 3), (3, 2), (1, 4), (4, 1), (2, 4)])
        if shape == "one_block_comb":
            fuse_vals = [0.0] if fail_at is None else [0.0, 1.0]
            blocks = [{"mode": "combinatorial", "context": {"value": vals(a), "factor": vals(b), "tagv": ["t"], "fuse": fuse_vals}}]
            combine = "combinatorial"
        else:
            f1 = [0.0] * a
            if fail_at is not None:
                f1[min(fail_at, a - 1)] = 1.0
            blocks = [{"mode": "by_position", "context": {"value": vals(a), "fuse": f1}},
                      {"mode": "combinatorial", "context": {"factor": vals(b), "tagv": [f"q{i}" for i in range(rng.randint(1, 2))]}}]
            combine = "combinatorial"
    run_space = {"combine": combine, "max_runs": 1000, "blocks": blocks}
    plan = expand_plan(run_space)
    first_fail = next((i for i, r in enumerate(plan) if r.get("fuse", 0.0) >= 1.0), None)
    return {"nodes": nodes, "run_space": run_space, "plan": plan, "first_fail": first_fail, "boom_pos": boom_pos, "shape": shape, "fail_with": fail_with}


def run_launch(case: dict, workdir: str, *, trace_mode: str = "file", detail: str = "all", extra_argv: Optional[list] = None,
               subprocess_: bool = False, name: str = "launch.yaml") -> dict:
    """Write the YAML, run `semantiva run`, collect result + trace files (read after the call returned)."""
    from . import tracecheck as tc

    os.makedirs(workdir, exist_ok=True)
    tdir = os.path.join(workdir, "trace_out")
    os.makedirs(tdir, exist_ok=True)
    out_path = os.path.join(tdir, "launch.ser.jsonl") if trace_mode == "file" else os.path.join(tdir, "traces")
    trace = {"driver": "jsonl", "output_path": out_path, "options": {"detail": detail}}
    ypath = os.path.join(workdir, name)
    write_yaml(ypath, case["nodes"], case.get("run_space"), trace)
    argv = ["run", ypath, "-q"] + list(extra_argv or [])
    res = run_cli_subprocess(argv, cwd=workdir) if subprocess_ else run_cli(argv, cwd=workdir)
    files, problems = tc.load_dir(tdir)
    return {"res": res, "files": files, "problems": problems, "yaml": ypath, "tdir": tdir, "open_fds": tc.open_fds_into(tdir)}


def global_order(files: dict) -> list:
    """Reconstruct the global emission order of a launch's records across files.

    Single-file mode: file order.  Directory mode: run_space_start, then the per-run files ordered by the ``seq`` of
    their pipeline_start (the driver's sequence counter is shared by lifecycle records), then run_space_end."""
    paths = sorted(files)
    if len(paths) == 1:
        return list(files[paths[0]])
    rs_start, rs_end, runs = [], [], []
    for p in paths:
        recs = files[p]
        if not recs:
            continue
        if any(r.get("record_type", "").startswith("run_space") for r in recs):
            rs_start += [r for r in recs if r.get("record_type") == "run_space_start"]
            rs_end += [r for r in recs if r.get("record_type") == "run_space_end"]
            rest = [r for r in recs if not r.get("record_type", "").startswith("run_space")]
            if rest:
                runs.append(rest)
        else:
            runs.append(recs)
    runs.sort(key=lambda recs: next((r.get("seq", 0) for r in recs if r.get("record_type") == "pipeline_start"), 0))
    out = list(rs_start)
    for recs in runs:
        out += recs
    return out + rs_end
