"""C08 — reference model of run-space expansion, spec generator, real-side drivers, promptness monitor.

The model is written from the documentation (docs/source/run_space.rst, tutorials/run_space_quickstart.rst,
glossary, the documented contract in the run_space / schema docstrings) and the property statement.  It shares no
code with semantiva and is *arithmetic first*: every size (part, block, total) and every rejection is decided from
list lengths alone; a run is produced by mixed-radix decoding of its index (``nth``), so nothing is ever
materialised for a spec that is rejected.

Spec form (JSON-able, keeps declaration order):

    spec  = {"combine": M, "max_runs": int,
             "blocks": [{"mode": M, "context": [[key, [v, ...]], ...],
                         "source": None | {"file": name, "format": F, "select": None | [col, ...],
                                           "rename": [[old, new], ...], "mode": M}}, ...]}
    files = {name: {"format": F, "shape": "rows", "header": [col, ...], "rows": [[cell, ...], ...]}
                 | {"format": F, "shape": "columns", "columns": [[col, list-or-scalar], ...]}}
    M in {"by_position", "combinatorial"},  F in {"csv", "json", "yaml", "ndjson"}

Don't-cares (documentation silent or ambiguous => every reading is accepted; see ASSUMPTIONS).
"""
from __future__ import annotations

import io
import json
import os
import random
import sys
from typing import Any, Callable, Iterator, Optional

BYPOS, COMB = "by_position", "combinatorial"
MODES = (BYPOS, COMB)
PCE = "PipelineConfigurationError"
MAXRUNS = "RunSpaceMaxRunsExceededError"

ASSUMPTIONS = [
    "reference model vlib/runspace_model.py states the documented run-space semantics (arithmetic first, nth-run decoding)",
    "don't-care: inside one combinatorial block that has both context keys and a source, the documentation does not say "
    "whether the context part or the source part varies fastest (nor, when the source is combinatorial too, whether all "
    "keys are sorted together); context-outer, source-outer and all-keys-sorted orders are all accepted",
    "don't-care: a block without any key (no context, no source columns) may count as 0 runs or as the neutral 1 run",
    "don't-care: a spec with zero blocks may expand to [] or to one empty run (and the cap may or may not apply to it)",
    "don't-care: CSV cells may arrive as text or as the obvious int/float/bool reading of that text",
    "don't-care: a rename entry for a column that is absent (or not selected) may be ignored or rejected",
    "don't-care: when a spec is invalid AND some well-defined part of it already exceeds max_runs, either documented "
    "exception is accepted",
    "through the YAML/CLI path a rejection raised by the YAML parser (ValueError) counts as 'rejected'",
    "not generated (outside the quantifier / undocumented): ragged row files, duplicate select entries, negative max_runs, "
    "empty row-lists in json/yaml/ndjson files, CSV headers with whitespace, empty CSV cells",
]

REJECT_PRIORITY = [
    "missing_select_column", "rename_collision", "duplicate_key_in_block", "length_mismatch_key",
    "length_mismatch_block", "duplicate_key_across_blocks", "length_mismatch_combine", "max_runs_exceeded",
]


# ----------------------------------------------------------------------------------------------- values
class CsvCell:
    """A CSV cell: text on disk; the documentation does not say whether/how it is typed (don't-care)."""
    __slots__ = ("text",)

    def __init__(self, text: str):
        self.text = text

    def accepts(self, v: Any) -> bool:
        t = self.text.strip()
        if isinstance(v, str):
            return v == self.text or v == t
        if isinstance(v, bool):
            return t.lower() == ("true" if v else "false")
        if isinstance(v, int):
            try:
                return int(t) == v
            except ValueError:
                return False
        if isinstance(v, float):
            try:
                return float(t) == v
            except ValueError:
                return False
        return False

    def __repr__(self):
        return f"CsvCell({self.text!r})"


def same_value(mv: Any, rv: Any) -> bool:
    if isinstance(mv, CsvCell):
        return mv.accepts(rv)
    if type(mv) is not type(rv):
        return False
    if isinstance(mv, list):
        return len(mv) == len(rv) and all(same_value(a, b) for a, b in zip(mv, rv))
    if isinstance(mv, dict):
        return mv.keys() == rv.keys() and all(same_value(mv[k], rv[k]) for k in mv)
    return mv == rv


def same_run(mr: dict, rr: Any) -> bool:
    return isinstance(rr, dict) and mr.keys() == rr.keys() and all(same_value(mr[k], rr[k]) for k in mr)


def _prod(xs) -> int:
    p = 1
    for x in xs:
        p *= x
    return p


# ----------------------------------------------------------------------------------------------- model
class Part:
    """Context lists of a block, or the selected+renamed columns of its source, with the mode that expands them."""

    def __init__(self, cols: dict, mode: str):
        self.keys = sorted(cols)                      # documented: keys inside a block in sorted order
        self.cols = cols
        self.mode = mode
        self.lens = [len(cols[k]) for k in self.keys]

    def size(self) -> Optional[int]:
        """None = lengths mismatch under by_position."""
        if not self.keys:
            return 1                                  # neutral: a part without keys contributes nothing
        if self.mode == BYPOS:
            return self.lens[0] if len(set(self.lens)) == 1 else None
        return _prod(self.lens)

    def loose_size(self) -> int:
        if not self.keys:
            return 1
        return max(self.lens) if self.mode == BYPOS else _prod(self.lens)

    def nth(self, i: int) -> dict:
        if not self.keys:
            return {}
        if self.mode == BYPOS:
            return {k: self.cols[k][i] for k in self.keys}
        out = {}
        for k, n in zip(reversed(self.keys), reversed(self.lens)):   # rightmost key varies fastest
            i, d = divmod(i, n)
            out[k] = self.cols[k][d]
        return {k: out[k] for k in self.keys}


class BlockModel:
    def __init__(self, index: int, mode: str, ctx: Part, src: Optional[Part]):
        self.index, self.mode, self.ctx, self.src = index, mode, ctx, src
        self.keys = sorted(set(ctx.keys) | set(src.keys if src else []))
        self.keyless = not self.keys
        self.rejects: list[str] = []
        self.size: Optional[int] = None               # None = undefined (rejected)
        self.order_options = ["ctx_outer"]
        sc = ctx.size()
        ss = src.size() if src is not None else 1
        if sc is None or ss is None:
            self.rejects.append("length_mismatch_key")
        elif mode == BYPOS:
            both = bool(ctx.keys) and bool(src is not None and src.keys)
            if both and sc != ss:
                self.rejects.append("length_mismatch_block")
            else:
                self.size = ss if (src is not None and src.keys and not ctx.keys) else sc
        else:
            self.size = sc * ss
            if ctx.keys and src is not None and src.keys and sc > 1 and ss > 1:
                self.order_options.append("src_outer")
                if src.mode == COMB:
                    self.order_options.append("all_sorted")
        self.sc, self.ss = sc, ss
        if src is not None and ctx.keys and src.keys and mode == COMB and src.mode == COMB:
            merged = dict(ctx.cols)
            merged.update(src.cols)
            self._merged = Part(merged, COMB)
        else:
            self._merged = None

    def loose_size(self) -> int:
        a, b = self.ctx.loose_size(), (self.src.loose_size() if self.src is not None else 1)
        return max(a, b) if self.mode == BYPOS else a * b

    def nth(self, i: int, order: str = "ctx_outer") -> dict:
        out: dict = {}
        if self.mode == BYPOS:
            if self.ctx.keys:
                out.update(self.ctx.nth(i))
            if self.src is not None and self.src.keys:
                out.update(self.src.nth(i))
            return out
        if order == "all_sorted" and self._merged is not None:
            return self._merged.nth(i)
        if order == "src_outer":
            si, ci = divmod(i, self.sc)
        else:
            ci, si = divmod(i, self.ss)
        out.update(self.ctx.nth(ci))
        if self.src is not None:
            out.update(self.src.nth(si))
        return out


class Alt:
    """One acceptable outcome."""

    def __init__(self, kind: str, **kw):
        self.kind = kind                               # "reject" | "runs"
        self.__dict__.update(kw)


class Expectation:
    def __init__(self):
        self.alts: list[Alt] = []
        self.blocks: list[BlockModel] = []
        self.dontcare: list[str] = []
        self.union_keys: list[str] = []

    @property
    def primary(self) -> Alt:
        return self.alts[0]


def table_columns(ft: dict) -> list:
    """Logical file content -> ordered [(column, [values])] as documented for each format/shape."""
    if ft["shape"] == "rows":
        hdr = ft["header"]
        wrap = (lambda c: CsvCell(c)) if ft["format"] == "csv" else (lambda c: c)
        return [(h, [wrap(row[i]) for row in ft["rows"]]) for i, h in enumerate(hdr)]
    return [(name, list(v) if isinstance(v, list) else [v]) for name, v in ft["columns"]]   # scalar = 1-length list


def _source_part(src: dict, files: dict, rejects: list, dontcare: list) -> Part:
    cols = table_columns(files[src["file"]])
    names = [n for n, _ in cols]
    bycol = dict(cols)
    chosen = names
    if src.get("select") is not None:
        missing = [c for c in src["select"] if c not in bycol]
        if missing:
            rejects.append("missing_select_column")
        chosen = [c for c in src["select"] if c in bycol]
    ren = {a: b for a, b in (src.get("rename") or [])}
    if any(a not in chosen for a in ren):
        dontcare.append("rename_absent_column")
    final = [ren.get(c, c) for c in chosen]
    if len(set(final)) != len(final):
        rejects.append("rename_collision")
    out = {}
    for c, f in zip(chosen, final):
        out.setdefault(f, bycol[c])
    return Part(out, src["mode"])


def expand_run_space(spec: dict, files: dict) -> Expectation:
    """The documented expansion: acceptable outcomes, decided on sizes; runs available through Alt.nth."""
    ex = Expectation()
    rejects: list[str] = []
    seen: set = set()
    for bi, b in enumerate(spec["blocks"]):
        ctx_cols: dict = {}
        for k, vals in b["context"]:
            ctx_cols[k] = list(vals)
        ctx = Part(ctx_cols, b["mode"])
        src = None
        if b.get("source") is not None:
            src = _source_part(b["source"], files, rejects, ex.dontcare)
            if set(ctx.keys) & set(src.keys):
                rejects.append("duplicate_key_in_block")
        bm = BlockModel(bi, b["mode"], ctx, src)
        rejects.extend(bm.rejects)
        if seen & set(bm.keys):
            rejects.append("duplicate_key_across_blocks")
        seen |= set(bm.keys)
        ex.blocks.append(bm)
    ex.union_keys = sorted(seen)
    combine, cap = spec["combine"], spec["max_runs"]

    if rejects:
        loose = [bm.loose_size() for bm in ex.blocks]
        over = (_prod(loose) if combine == COMB else max(loose or [0])) > cap or any(x > cap for x in loose)
        kinds = sorted(set(rejects), key=REJECT_PRIORITY.index)
        ex.alts.append(Alt("reject", kinds=kinds, classes={PCE} | ({MAXRUNS} if over else set())))
        return ex

    if not ex.blocks:
        ex.dontcare.append("zero_blocks")
        ex.alts.append(Alt("runs", total=1, sizes=[], nth=lambda i, orders=None: {}, combine=combine))
        ex.alts.append(Alt("runs", total=0, sizes=[], nth=lambda i, orders=None: {}, combine=combine))
        if cap < 1:
            ex.alts.append(Alt("reject", kinds=["max_runs_exceeded"], classes={MAXRUNS}))
        return ex

    keyless = [bm.index for bm in ex.blocks if bm.keyless]
    if keyless:
        ex.dontcare.append("keyless_block")
    choices = [()]
    for _ in keyless:
        choices = [c + (v,) for c in choices for v in (1, 0)]
    for choice in choices:
        sizes = [bm.size for bm in ex.blocks]
        for bi, v in zip(keyless, choice):
            sizes[bi] = v
        if combine == BYPOS:
            if len(set(sizes)) != 1:
                ex.alts.append(Alt("reject", kinds=["length_mismatch_combine"],
                                   classes={PCE} | ({MAXRUNS} if max(sizes) > cap else set())))
                continue
            total = sizes[0]
        else:
            total = _prod(sizes)
        if total > cap:
            ex.alts.append(Alt("reject", kinds=["max_runs_exceeded"], classes={MAXRUNS}))
            continue
        ex.alts.append(Alt("runs", total=total, sizes=sizes, combine=combine, nth=_make_nth(ex.blocks, sizes, combine)))
    if "rename_absent_column" in ex.dontcare:
        ex.alts.append(Alt("reject", kinds=["rename_absent_column"], classes={PCE}))
    return ex


def _make_nth(blocks: list, sizes: list, combine: str) -> Callable:
    def nth(i: int, orders: Optional[list] = None) -> dict:
        run: dict = {}
        if combine == BYPOS:
            idx = [i] * len(blocks)
        else:
            idx = [0] * len(blocks)
            for bi in range(len(blocks) - 1, -1, -1):          # later blocks vary fastest
                i, idx[bi] = divmod(i, sizes[bi])
        for bi, bm in enumerate(blocks):
            if bm.keyless:
                continue
            run.update(bm.nth(idx[bi], orders[bi] if orders else "ctx_outer"))
        return run
    return nth


def model_runs(alt: Alt, orders: Optional[list] = None) -> list:
    return [alt.nth(i, orders) for i in range(alt.total)]


def order_combos(ex: Expectation) -> Iterator[list]:
    opts = [bm.order_options for bm in ex.blocks]
    combos: list = [[]]
    for o in opts:
        combos = [c + [x] for c in combos for x in o]
    return iter(combos)


# ----------------------------------------------------------------------------------------------- oracle
class Observed:
    def __init__(self, kind: str, runs=None, meta=None, exc: str = "", msg: str = "", mro=()):
        self.kind, self.runs, self.meta, self.exc, self.msg, self.mro = kind, runs, meta, exc, msg, tuple(mro)

    def brief(self) -> str:
        if self.kind == "runs":
            return f"returned {len(self.runs)} runs"
        return f"raised {self.exc}: {self.msg[:120]}"


def _first_appearance(projs: list) -> list:
    seen, out = set(), []
    for p in projs:
        if p not in seen:
            seen.add(p)
            out.append(p)
    return out


def _canon(v: Any) -> str:
    return json.dumps(v, sort_keys=True, default=repr)


def _norm_model(mr: dict) -> dict:
    return {k: (("csv", v.text) if isinstance(v, CsvCell) else v) for k, v in mr.items()}


def classify_runs(ex: Expectation, alt: Alt, real_runs: list) -> tuple:
    """Deterministic mechanism key for a returned list that matches no acceptable alternative."""
    exp = model_runs(alt)
    union = set(ex.union_keys)
    for rr in real_runs:
        if not isinstance(rr, dict):
            return "run_not_a_mapping", f"a run is {type(rr).__name__}"
        if union - set(rr):
            return "missing_key_in_run", f"a run lacks {sorted(union - set(rr))} of the union {sorted(union)}"
        if set(rr) - union:
            return "extra_key_in_run", f"a run carries {sorted(set(rr) - union)} outside the union {sorted(union)}"
    if len(real_runs) != len(exp):
        return "wrong_run_count", f"{len(real_runs)} runs returned, documented expansion has {len(exp)}"

    csv_keys = _csv_keys(ex)

    def loose(k, v):    # value identity for multiset purposes; CSV columns by the text reading of the cell
        if k in csv_keys:
            if isinstance(v, CsvCell):
                return ("c", v.text.strip().lower())
            if isinstance(v, bool):
                return ("c", "true" if v else "false")
            return ("c", str(v).strip().lower())
        return ("v", _canon(v), type(v).__name__)

    def key_of(run, keys):
        return tuple((k, loose(k, run[k])) for k in keys)

    allk = sorted(union)
    values_differ = False
    for bm in ex.blocks:
        if bm.keyless:
            continue
        for keys in (bm.ctx.keys, bm.src.keys if bm.src is not None else [], bm.keys):   # parts first, then the block
            if not keys:
                continue
            want = _first_appearance([key_of(r, keys) for r in exp])
            got = _first_appearance([key_of(r, keys) for r in real_runs])
            if want != got:
                if sorted(want) == sorted(got):
                    return ("order_within_block",
                            f"block #{bm.index} ({bm.mode}) enumerates the values of keys {keys} in a different order")
                values_differ = True
    if not values_differ and sorted(key_of(r, allk) for r in exp) == sorted(key_of(r, allk) for r in real_runs):
        return "order_across_blocks", "each block is ordered as documented but the blocks are combined in a different order"
    return "wrong_values", "same number of runs but different key/value content"


def _csv_keys(ex: Expectation) -> set:
    out = set()
    for bm in ex.blocks:
        if bm.src is not None:
            for k, col in bm.src.cols.items():
                if col and isinstance(col[0], CsvCell):
                    out.add(k)
    return out


def check_meta(ex: Expectation, alt: Alt, obs: Observed, spec: dict) -> Optional[tuple]:
    meta = obs.meta
    if not isinstance(meta, dict):
        return "meta_differs", f"meta is {type(meta).__name__}"
    if meta.get("expanded_runs") != len(obs.runs):
        return "meta_differs", f"meta.expanded_runs={meta.get('expanded_runs')} but {len(obs.runs)} runs returned"
    if meta.get("combine") != spec["combine"] or meta.get("max_runs") != spec["max_runs"]:
        return "meta_differs", "meta.combine / meta.max_runs differ from the spec"
    mb = meta.get("blocks")
    if not isinstance(mb, list) or len(mb) != len(ex.blocks):
        return "meta_differs", "meta.blocks does not have one entry per block"
    for bm, m, size in zip(ex.blocks, mb, alt.sizes):
        if m.get("mode") != bm.mode or sorted(m.get("context_keys", [])) != bm.keys:
            return "meta_differs", f"meta.blocks[{bm.index}] mode/context_keys differ"
        if m.get("size") != size and not bm.keyless:
            return "meta_differs", f"meta.blocks[{bm.index}].size={m.get('size')} but the block has {size} runs"
    return None


def judge(ex: Expectation, obs: Observed, spec: dict, path: str = "api") -> Optional[tuple]:
    """None if the observation equals an acceptable outcome, else (mechanism_key, what)."""
    rejected_ok = {PCE}
    if path != "api":
        rejected_ok = {PCE, "ValueError"}
    if obs.kind == "exc":
        for alt in ex.alts:
            if alt.kind == "reject":
                classes = set(alt.classes)
                if PCE in classes:
                    classes |= rejected_ok
                if obs.exc in classes:
                    return None
        p = ex.primary
        if p.kind == "reject":
            return (f"wrong_exception_{p.kinds[0]}",
                    f"spec invalid ({', '.join(p.kinds)}): expected {sorted(p.classes)}, {obs.brief()}")
        if obs.exc in (PCE, MAXRUNS) or (path != "api" and obs.exc == "ValueError"):
            return "rejected_valid_spec", f"valid spec (documented expansion has {p.total} runs) but {obs.brief()}"
        return f"crash_valid_spec_{obs.exc}", f"valid spec (documented expansion has {p.total} runs) but {obs.brief()}"

    # returned runs
    runs_alts = [a for a in ex.alts if a.kind == "runs"]
    if not isinstance(obs.runs, list):
        return "result_not_a_list", f"runs is {type(obs.runs).__name__}"
    for alt in runs_alts:
        if len(obs.runs) != alt.total:
            continue
        for orders in order_combos(ex):
            if all(same_run(alt.nth(i, orders), rr) for i, rr in enumerate(obs.runs)):
                return check_meta(ex, alt, obs, spec) if obs.meta is not None else None
    p = ex.primary
    if p.kind == "reject":
        return (f"not_rejected_{p.kinds[0]}",
                f"spec invalid ({', '.join(p.kinds)}) but {obs.brief()} instead of {sorted(p.classes)}")
    return classify_runs(ex, p, obs.runs)


# ----------------------------------------------------------------------------------------------- file writers
def write_files(files: dict, dirpath: str) -> None:
    import yaml

    for name, ft in files.items():
        path = os.path.join(dirpath, name)
        fmt = ft["format"]
        if ft["shape"] == "rows":
            hdr, rows = ft["header"], ft["rows"]
            if fmt == "csv":
                text = _csv_line(hdr) + "".join(_csv_line(r) for r in rows)
            elif fmt == "ndjson":
                # raw (unescaped) non-ASCII, as a hand-written or exported file has it: U+2028 / U+0085 are line breaks
                # to str.splitlines() but not to a line-oriented reader
                text = "".join(json.dumps(dict(zip(hdr, r)), ensure_ascii=False) + "\n" for r in rows)
            elif fmt == "json":
                text = json.dumps([dict(zip(hdr, r)) for r in rows])
            else:
                text = yaml.safe_dump([dict(zip(hdr, r)) for r in rows], sort_keys=False, allow_unicode=True)
        else:
            doc = {n: v for n, v in ft["columns"]}
            text = json.dumps(doc) if fmt == "json" else yaml.safe_dump(doc, sort_keys=False, allow_unicode=True)
        with open(path, "w", encoding="utf-8", newline="") as fh:
            fh.write(text)


def _csv_line(cells) -> str:
    """One RFC 4180 record: cells holding a comma, a quote or a line break are quoted, quotes doubled."""
    out = []
    for c in cells:
        c = str(c)
        if any(ch in c for ch in ',"\n\r'):
            c = '"' + c.replace('"', '""') + '"'
        out.append(c)
    return ",".join(out) + "\n"


def remove_files(files: dict, dirpath: str) -> None:
    for name in files:
        try:
            os.unlink(os.path.join(dirpath, name))
        except OSError:
            pass


PIPELINE_NODES = [{"processor": "FloatValueDataSource", "parameters": {"value": 1.0}}]


def yaml_document(spec: dict, rng: Optional[random.Random] = None, max_runs_in_file: Optional[int] = None) -> dict:
    """The same spec as a pipeline YAML mapping (defaults are sometimes left implicit)."""
    def drop(p=0.5):
        return rng is not None and rng.random() < p

    rs: dict = {}
    if not (spec["combine"] == COMB and drop()):
        rs["combine"] = spec["combine"]
    mr = spec["max_runs"] if max_runs_in_file is None else max_runs_in_file
    if not (mr == 1000 and drop()):
        rs["max_runs"] = mr
    blocks = []
    for b in spec["blocks"]:
        e: dict = {"mode": b["mode"]}
        if b["context"] or not drop():
            e["context"] = {k: list(v) for k, v in b["context"]}
        s = b.get("source")
        if s is not None:
            se: dict = {"format": s["format"], "path": "./" + s["file"] if drop() else s["file"]}
            if s.get("select") is not None:
                se["select"] = list(s["select"])
            if s.get("rename") or not drop():
                se["rename"] = {a: c for a, c in s.get("rename") or []}
            if not (s["mode"] == BYPOS and drop()):
                se["mode"] = s["mode"]
            e["source"] = se
        blocks.append(e)
    rs["blocks"] = blocks
    return {"extensions": ["semantiva-examples"], "run_space": rs, "pipeline": {"nodes": PIPELINE_NODES}}


# ----------------------------------------------------------------------------------------------- real side
def _observe(fn: Callable) -> Observed:
    try:
        runs, meta = fn()
    except Exception as exc:  # noqa: BLE001 - the oracle classifies the exception class
        return Observed("exc", exc=type(exc).__name__, msg=str(exc), mro=[c.__name__ for c in type(exc).__mro__])
    return Observed("runs", runs=runs, meta=meta)


def real_config(spec: dict):
    from semantiva.configurations.schema import RunBlock, RunSource, RunSpaceV1Config

    blocks = []
    for b in spec["blocks"]:
        s = b.get("source")
        src = None
        if s is not None:
            src = RunSource(format=s["format"], path=s["file"],
                            select=list(s["select"]) if s.get("select") is not None else None,
                            rename={a: c for a, c in s.get("rename") or []}, mode=s["mode"])
        blocks.append(RunBlock(mode=b["mode"], context={k: list(v) for k, v in b["context"]}, source=src))
    return RunSpaceV1Config(combine=spec["combine"], max_runs=spec["max_runs"], blocks=blocks)


def real_api(spec: dict, dirpath: str) -> Observed:
    import semantiva.execution.run_space as rs

    cfg = real_config(spec)
    return _observe(lambda: rs.expand_run_space(cfg, cwd=dirpath))


def real_yaml(spec: dict, dirpath: str, rng: random.Random, name: str = "pipeline.yaml") -> Observed:
    import yaml
    import semantiva.execution.run_space as rs
    from semantiva.configurations.load_pipeline_from_yaml import load_pipeline_from_yaml

    path = os.path.join(dirpath, name)
    with open(path, "w", encoding="utf-8") as fh:
        yaml.safe_dump(yaml_document(spec, rng), fh, sort_keys=False, allow_unicode=True)

    def go():
        cfg = load_pipeline_from_yaml(path)
        return rs.expand_run_space(cfg.run_space, cwd=cfg.base_dir)

    try:
        return _observe(go)
    finally:
        try:
            os.unlink(path)
        except OSError:
            pass


class CliResult:
    def __init__(self, rc, out, err):
        self.rc, self.out, self.err = rc, out, err


def real_cli(spec: dict, dirpath: str, rng: random.Random, name: str = "pipeline_cli.yaml") -> CliResult:
    import contextlib
    import yaml
    import semantiva.cli as cli

    path = os.path.join(dirpath, name)
    argv = ["run", path, "--run-space-dry-run"]
    in_file = None
    if rng.random() < 0.3:                      # the cap arrives through --run-space-max-runs instead of the file
        in_file = rng.choice([0, 1, 7, 1000])
        argv += ["--run-space-max-runs", str(spec["max_runs"])]
    with open(path, "w", encoding="utf-8") as fh:
        yaml.safe_dump(yaml_document(spec, rng, max_runs_in_file=in_file), fh, sort_keys=False, allow_unicode=True)
    out, err = io.StringIO(), io.StringIO()
    rc: Any = None
    try:
        with contextlib.redirect_stdout(out), contextlib.redirect_stderr(err):
            try:
                cli.main(argv)
            except SystemExit as e:
                rc = e.code
            except Exception as exc:  # noqa: BLE001
                rc = f"exception:{type(exc).__name__}:{exc}"
    finally:
        try:
            os.unlink(path)
        except OSError:
            pass
    return CliResult(rc, out.getvalue(), err.getvalue())


def _oneline(v: dict) -> str:
    """How I would print one run on one line, cut the way the dry run cuts (60 columns, 57 + ellipsis)."""
    text = json.dumps(v, separators=(",", ":"), default=str)
    return text if len(text) <= 60 else text[:57] + "…"


def parse_plan(out: str) -> Optional[dict]:
    """Read back exactly what the dry run prints: count, per-block line, preview entries (index, text)."""
    import re

    if "Run Space Plan" not in out:
        return None
    plan: dict = {"blocks": [], "preview": [], "none": False}
    for line in out.splitlines():
        s = line.strip()
        m = re.match(r"^(combine|max_runs|expanded_runs): (.*)$", s)
        if m:
            plan[m.group(1)] = m.group(2)
            continue
        m = re.match(r"^- #(\d+): mode=(\w+), size=(\d+), keys=(\[.*\])$", s)
        if m:
            plan["blocks"].append((int(m.group(1)), m.group(2), int(m.group(3)), m.group(4)))
            continue
        m = re.match(r"^(\d+): (\{.*)$", s)
        if m:
            plan["preview"].append((int(m.group(1)), m.group(2)))
            continue
        if s.startswith("preview: none"):
            plan["none"] = True
    return plan


def judge_cli(ex: Expectation, res: CliResult, api_obs: Optional[Observed], spec: dict) -> Optional[tuple]:
    """Compare only what the dry run prints (count, block sizes/keys, previewed runs at their positions)."""
    plan = parse_plan(res.out)
    p = ex.primary
    if plan is None:
        if any(a.kind == "reject" for a in ex.alts) and res.rc not in (0, None):
            return None
        if p.kind == "reject":
            return f"dry_run_not_rejected_{p.kinds[0]}", f"invalid spec ({p.kinds}) but the CLI exited rc={res.rc!r} without a plan"
        return ("dry_run_rejected_valid_spec",
                f"valid spec ({p.total} runs) but the dry run printed no plan; rc={res.rc!r} stderr={res.err[-200:]!r}")
    if res.rc != 0:
        return "dry_run_differs", f"plan printed but exit code {res.rc!r}"
    runs_alts = [a for a in ex.alts if a.kind == "runs"]
    if not runs_alts:
        return f"dry_run_not_rejected_{p.kinds[0]}", f"invalid spec ({p.kinds}) but the dry run printed a plan"
    why = "no acceptable alternative"
    for alt in runs_alts:
        for orders in order_combos(ex):
            why = _plan_vs(alt, orders, plan, ex, spec, api_obs)
            if why is None:
                return None
    return "dry_run_differs", why


def _plan_vs(alt: Alt, orders: list, plan: dict, ex: Expectation, spec: dict, api_obs: Optional[Observed]) -> Optional[str]:
    if plan.get("expanded_runs") != str(alt.total):
        return f"plan says expanded_runs={plan.get('expanded_runs')}, documented expansion has {alt.total}"
    if plan.get("combine") != spec["combine"] or plan.get("max_runs") != str(spec["max_runs"]):
        return f"plan header combine={plan.get('combine')} max_runs={plan.get('max_runs')} differs from the spec"
    if len(plan["blocks"]) != len(ex.blocks):
        return f"plan lists {len(plan['blocks'])} blocks, spec has {len(ex.blocks)}"
    for (idx, mode, size, keys), bm, msize in zip(plan["blocks"], ex.blocks, alt.sizes):
        if idx != bm.index or mode != bm.mode or keys != repr(bm.keys) or (size != msize and not bm.keyless):
            return f"plan block line #{idx} mode={mode} size={size} keys={keys} differs from {bm.mode}/{msize}/{bm.keys}"
    if alt.total == 0:
        return None if plan["none"] and not plan["preview"] else "plan previews runs of an empty expansion"
    want_idx = sorted(set(list(range(min(2, alt.total))) + list(range(max(2, alt.total - 2), alt.total))))
    got_idx = [i for i, _ in plan["preview"]]
    if got_idx != [i + 1 for i in want_idx]:
        return f"preview shows positions {got_idx}, expected first/last two {[i + 1 for i in want_idx]}"
    for pos, text in plan["preview"]:
        mr = alt.nth(pos - 1, orders)
        if text.endswith("…"):
            # cut line: compare the visible prefix, key order as observed through the API (dict order is not documented)
            keyorder = list(mr)
            if api_obs is not None and api_obs.kind == "runs" and len(api_obs.runs) >= pos and isinstance(api_obs.runs[pos - 1], dict):
                ko = list(api_obs.runs[pos - 1])
                if set(ko) == set(mr):
                    keyorder = ko
            ordered = {k: mr[k] for k in keyorder}
            real = api_obs.runs[pos - 1] if (api_obs is not None and api_obs.kind == "runs" and len(api_obs.runs) >= pos
                                             and isinstance(api_obs.runs[pos - 1], dict)) else {}
            pinned = {k: (real[k] if isinstance(v, CsvCell) and k in real and v.accepts(real[k]) else v)
                      for k, v in ordered.items()}          # CSV don't-care cells: the reading seen through the API
            cands = _csv_renderings(pinned)
            if not any(_oneline(c) == text for c in cands):
                return f"preview line {pos} shows {text!r}, documented run is {_norm_model(mr)!r}"
        else:
            try:
                shown = json.loads(text)
            except ValueError:
                return f"preview line {pos} is not JSON: {text!r}"
            mj = {k: (v if isinstance(v, CsvCell) else json.loads(json.dumps(v, default=str))) for k, v in mr.items()}
            if not same_run(mj, shown):
                return f"preview line {pos} shows {text!r}, documented run is {_norm_model(mr)!r}"
    return None


def _csv_renderings(run: dict) -> list:
    """A run with CSV cells -> the few concrete readings (text / typed)."""
    outs = [dict()]
    for k, v in run.items():
        if isinstance(v, CsvCell):
            t = v.text.strip()
            alts: list = [v.text]
            for conv in (int, float):
                try:
                    alts.append(conv(t))
                except ValueError:
                    pass
            if t.lower() in ("true", "false"):
                alts.append(t.lower() == "true")
        else:
            alts = [v]
        outs = [dict(o, **{k: a}) for o in outs for a in alts][:6561]
    return outs


# ----------------------------------------------------------------------------------------------- generator
KEY_POOL = ["b", "a", "x10", "x9", "x1", "x2", "B", "A", "Z", "z", "_k", "k_", "k2", "k10", "k1", "aa", "ab", "a0",
            "m", "n10", "n9", "10", "9", "é", "e", "value", "factor", "addend", "seed", "Seed", "a.b", "a b"]
RAW_POOL = ["c0", "c1", "c2", "col", "Col", "raw_a", "raw_b", "c10", "c9", "f", "g"]
SCALARS = [0, 1, 2, 3, 5, 7, 10, -1, 0.5, 1.25, 2.0, -3.5, "x", "y", "z", "p q", "α", "1", "true", True, False]
# strings holding characters that str.splitlines() treats as line breaks (raw in ndjson / json files; never written through
# YAML, whose own line folding turns NEL / LS into a blank)
BREAKY_STRINGS = ["u\u2028v", "n\x85m", "f\x0cg", "r\x1es"]
CSV_TOKENS = ["1", "2", "3", "10", "-4", "3.5", "0.25", "2.0", "abc", "x y", "true", "false", "q", "1e3", "α",
              # cells a spreadsheet export really produces: embedded line break / comma / quote (quoted), and characters that
              # str.splitlines() treats as line breaks although they are ordinary characters of a CSV cell
              "l1\nl2", "c,d", 'q"r', "a\x0cb", "u\u2028v", "n\x85m"]
FORMATS = ["csv", "json", "yaml", "ndjson"]


def factorise(r: random.Random, total: int, nparts: int) -> list:
    """nparts non-negative ints with the given product (sizes of the dimensions of a product)."""
    if nparts == 0:
        return []
    if total == 0:
        out = [r.choice([0, 1, 2, 3]) for _ in range(nparts)]
        out[r.randrange(nparts)] = 0
        return out
    out = [1] * nparts
    rest = total
    f = 2
    primes = []
    while rest > 1:
        while rest % f == 0:
            primes.append(f)
            rest //= f
        f += 1
    for p in primes:
        out[r.randrange(nparts)] *= p
    return out


class SpecGen:
    def __init__(self, seed: int):
        self.r = random.Random(seed)
        self.n = 0

    # -- values
    def values(self, n: int) -> list:
        r = self.r
        style = r.random()
        if style < 0.45:
            start = r.randrange(0, 50)
            return [start + i for i in range(n)]
        if style < 0.6:
            return [r.choice(["s", "t", "u"]) + str(i) for i in range(n)]
        out = []
        for _ in range(n):
            x = r.random()
            if x < 0.86:
                out.append(r.choice(SCALARS))
            elif x < 0.9:
                out.append(None)
            elif x < 0.95:
                out.append([r.choice([1, 2, 3]), r.choice(["u", "v"])])
            else:
                out.append({"k": r.choice([1, 2]), "j": [r.choice([0, 1])]})
        return out

    def csv_values(self, n: int) -> list:
        r = self.r
        if r.random() < 0.5:
            start = r.randrange(0, 50)
            return [str(start + i) for i in range(n)]
        return [r.choice(CSV_TOKENS) for _ in range(n)]

    # -- one source
    def make_source(self, name: str, final_keys: list, smode: str, size: int, taken_names: list):
        """A source whose selected+renamed columns are final_keys and whose part has `size` runs."""
        r = self.r
        k = len(final_keys)
        if smode == BYPOS:
            lens = [size] * k
            fmt = r.choice(FORMATS)
            shape = "rows" if fmt in ("csv", "ndjson") else r.choice(["rows", "columns"])
            if shape == "rows" and size == 0 and fmt != "csv":
                fmt, shape = r.choice([("csv", "rows"), ("json", "columns"), ("yaml", "columns")])
        else:
            lens = factorise(r, size, k)
            if len(set(lens)) <= 1 and r.random() < 0.5:
                fmt = r.choice(FORMATS)
                shape = "rows" if fmt in ("csv", "ndjson") else r.choice(["rows", "columns"])
                if shape == "rows" and lens and lens[0] == 0 and fmt != "csv":
                    fmt, shape = "csv", "rows"
            else:
                fmt, shape = r.choice(["json", "yaml"]), "columns"
        # raw column names and rename
        rename: list = []
        raw = []
        pool = [n for n in RAW_POOL + taken_names if n not in final_keys]
        r.shuffle(pool)
        do_rename = r.random() < 0.45
        for fk in final_keys:
            if do_rename and r.random() < 0.6 and pool:
                rn = pool.pop()
                raw.append(rn)
                rename.append([rn, fk])
            else:
                raw.append(fk)
        if do_rename and k >= 2 and r.random() < 0.15:          # swap trap: {a: b, b: a}
            a, b = final_keys[0], final_keys[1]
            raw[0], raw[1] = b, a
            rename = [p for p in rename if p[1] not in (a, b)] + [[b, a], [a, b]]
        # extra unselected columns
        extras = []
        if r.random() < 0.4:
            for _ in range(r.choice([1, 1, 2])):
                cands = [n for n in RAW_POOL + taken_names + ["extra", "zz"] if n not in raw and n not in extras]
                if cands:
                    extras.append(r.choice(cands))
        allcols = raw + extras
        order = list(range(len(allcols)))
        r.shuffle(order)
        select: Optional[list] = None
        if extras or r.random() < 0.35:
            select = list(raw)
            r.shuffle(select)
        # content
        if shape == "rows":
            nrows = lens[0] if lens else r.choice([0, 1, 2])
            colvals = []
            for _ in allcols:
                colvals.append(self.csv_values(nrows) if fmt == "csv" else self.values(nrows))
            if fmt in ("ndjson", "json") and nrows and r.random() < 0.25:
                cv = r.choice(colvals)
                cv[r.randrange(nrows)] = r.choice(BREAKY_STRINGS)
            header = [allcols[i] for i in order]
            rows = [[colvals[i][j] for i in order] for j in range(nrows)]
            ft = {"format": fmt, "shape": "rows", "header": header, "rows": rows}
        else:
            cols = []
            for i in order:
                n = lens[i] if i < k else (r.choice(lens) if lens and r.random() < 0.7 else r.choice([0, 1, 2, 3]))
                vals: Any = self.values(n)
                if n == 1 and r.random() < 0.4 and not isinstance(vals[0], list):
                    vals = vals[0]                                   # documented: scalar = 1-length list
                cols.append([allcols[i], vals])
            ft = {"format": fmt, "shape": "columns", "columns": cols}
        r.shuffle(rename)
        decl = {"file": name, "format": fmt, "select": select, "rename": rename, "mode": smode}
        return decl, ft

    # -- one block
    def make_block(self, bi: int, keys: list, target: Optional[int], all_keys: list):
        r = self.r
        mode = r.choice(MODES)
        has_src = r.random() < 0.45
        if has_src:
            nctx = r.choice([0, 1, 1, 2, 2])
            nsrc = r.choice([1, 1, 2, 2, 3])
        else:
            nctx = r.choice([1, 1, 2, 2, 2, 3, 3, 4])
            nsrc = 0
            if r.random() < 0.02:
                nctx = 0                                            # keyless block (don't-care)
        ck = [keys.pop() for _ in range(nctx)]
        sk = [keys.pop() for _ in range(nsrc)]
        smode = r.choice(MODES) if has_src else None
        free = target is None

        def length():
            return r.choices([0, 1, 2, 3, 4], [7, 15, 36, 27, 15])[0]

        if mode == BYPOS:
            L = length() if free else target
            ctx_lens = [L] * nctx
            ssize = L
        else:
            if free:
                ctx_lens = [length() for _ in range(nctx)]
                ssize = length() if smode == BYPOS else None
                if has_src and smode == COMB:
                    ssize = _prod([length() for _ in range(nsrc)])
            else:
                dims = factorise(r, target, nctx + (1 if has_src else 0))
                ctx_lens = dims[:nctx]
                ssize = dims[nctx] if has_src else None
        context = [[k, self.values(n)] for k, n in zip(ck, ctx_lens)]
        r.shuffle(context)
        src = None
        files = {}
        if has_src:
            # half of the sources live at one of a few recurring paths that are rewritten with new content from case to
            # case (a history of expansions in one process: nothing about a path may be remembered between them)
            name = f"src_{self.n}_{bi}" if r.random() < 0.5 else f"src_p{r.randrange(3)}_{bi}"
            decl, ft = self.make_source(name, sk, smode, ssize, [k for k in all_keys if k not in sk])
            ext = {"csv": ".csv", "json": ".json", "yaml": r.choice([".yaml", ".yml"]), "ndjson": ".ndjson"}[decl["format"]]
            decl["file"] = name + ext
            files[decl["file"]] = ft
            src = decl
        return {"mode": mode, "context": context, "source": src}, files

    # -- mutations (error injection); the model, not the generator, decides what the result means
    def mutate(self, spec: dict, files: dict) -> str:
        r = self.r
        blocks = spec["blocks"]
        if not blocks:
            return "none"
        kind = r.choice(["len_key", "len_key", "len_block", "len_combine", "dup_in_block", "dup_across", "dup_across",
                         "rename_collision", "missing_select", "missing_select", "rename_absent", "select_new_name"])
        b = r.choice(blocks)
        src = b.get("source")
        ft = files.get(src["file"]) if src else None

        def final_keys(blk):
            s = blk.get("source")
            if not s:
                return []
            cols = [n for n, _ in table_columns(files[s["file"]])]
            chosen = [c for c in (s["select"] if s["select"] is not None else cols) if c in cols]
            ren = dict((a, c) for a, c in s["rename"])
            return [ren.get(c, c) for c in chosen]

        if kind == "len_key":
            if b["context"] and (r.random() < 0.6 or not ft or ft["shape"] != "columns"):
                e = r.choice(b["context"])
                if e[1] and r.random() < 0.5:
                    e[1].pop()
                else:
                    e[1].append(r.choice(SCALARS))
            elif ft and ft["shape"] == "columns" and ft["columns"]:
                e = r.choice(ft["columns"])
                if not isinstance(e[1], list):
                    e[1] = [e[1]]
                e[1].append(r.choice(SCALARS))
            else:
                return "none"
        elif kind == "len_block":
            if not ft:
                return "none"
            if ft["shape"] == "rows":
                ft["rows"].append([("9" if ft["format"] == "csv" else 9) for _ in ft["header"]])
            else:
                for e in ft["columns"]:
                    if not isinstance(e[1], list):
                        e[1] = [e[1]]
                    e[1].append(r.choice(SCALARS))
        elif kind == "len_combine":
            if not b["context"]:
                return "none"
            for e in (b["context"] if b["mode"] == BYPOS else [r.choice(b["context"])]):
                e[1].append(r.choice(SCALARS))
        elif kind == "dup_in_block":
            if not src or not b["context"]:
                return "none"
            ck = r.choice(b["context"])[0]
            cols = [n for n, _ in table_columns(ft)]
            chosen = src["select"] if src["select"] is not None else cols
            if not chosen:
                return "none"
            victim = r.choice(chosen)
            src["rename"] = [p for p in src["rename"] if p[0] != victim] + [[victim, ck]]
        elif kind == "dup_across":
            if len(blocks) < 2:
                return "none"
            b1, b2 = r.sample(blocks, 2)
            k1 = [k for k, _ in b1["context"]] + final_keys(b1)
            if not k1:
                return "none"
            dupk = r.choice(k1)
            if b2["context"] and (r.random() < 0.5 or not b2.get("source")):
                e = r.choice(b2["context"])
                if any(k == dupk for k, _ in b2["context"]):
                    return "none"
                e[0] = dupk
            elif b2.get("source"):
                s2 = b2["source"]
                cols = [n for n, _ in table_columns(files[s2["file"]])]
                chosen = s2["select"] if s2["select"] is not None else cols
                if not chosen:
                    return "none"
                victim = r.choice(chosen)
                s2["rename"] = [p for p in s2["rename"] if p[0] != victim] + [[victim, dupk]]
            else:
                return "none"
        elif kind == "rename_collision":
            if not src:
                return "none"
            cols = [n for n, _ in table_columns(ft)]
            chosen = src["select"] if src["select"] is not None else cols
            if len(chosen) < 2:
                return "none"
            a, c = r.sample(chosen, 2)
            ren = dict((x, y) for x, y in src["rename"])
            target = ren.get(c, c) if r.random() < 0.6 else "clash"
            src["rename"] = [p for p in src["rename"] if p[0] != a] + [[a, target]]
            if target == "clash":
                src["rename"] = [p for p in src["rename"] if p[0] != c] + [[c, "clash"]]
        elif kind == "missing_select":
            if not src:
                return "none"
            cols = [n for n, _ in table_columns(ft)]
            sel = list(src["select"]) if src["select"] is not None else list(cols)
            ghost = r.choice(["nope", "Value", "c99"] + [k for k, _ in b["context"]])
            if ghost in cols:
                return "none"
            if sel and r.random() < 0.5:
                sel[r.randrange(len(sel))] = ghost
            else:
                sel.insert(r.randrange(len(sel) + 1), ghost)
            src["select"] = sel
        elif kind == "select_new_name":              # select written with the post-rename name
            if not src or not src["rename"]:
                return "none"
            cols = [n for n, _ in table_columns(ft)]
            sel = list(src["select"]) if src["select"] is not None else list(cols)
            old, new = r.choice(src["rename"])
            if old not in sel or new in cols:
                return "none"
            sel[sel.index(old)] = new
            src["select"] = sel
        elif kind == "rename_absent":
            if not src:
                return "none"
            src["rename"] = src["rename"] + [[r.choice(["ghost", "nope2"]), r.choice(["w", "ghost2"])]]
        return kind

    # -- a whole spec
    def spec(self) -> tuple:
        r = self.r
        for _ in range(50):
            self.n += 1
            nb = r.choices([0, 1, 2, 3, 4], [2, 20, 36, 27, 15])[0]
            combine = r.choice(MODES)
            keys = r.sample(KEY_POOL, 24)
            all_keys = list(keys)
            target = r.choice([0, 1, 2, 2, 3, 3, 4, 4, 6, 8]) if (combine == BYPOS and r.random() < 0.85) else None
            blocks, files = [], {}
            for bi in range(nb):
                b, f = self.make_block(bi, keys, target, all_keys)
                blocks.append(b)
                files.update(f)
            spec = {"combine": combine, "max_runs": 1000, "blocks": blocks}
            mutation = self.mutate(spec, files) if r.random() < 0.42 else "none"
            if mutation != "none" and r.random() < 0.08:
                mutation += "+" + self.mutate(spec, files)
            ex = expand_run_space(spec, files)
            sizes = [bm.loose_size() for bm in ex.blocks]
            total = _prod(sizes) if combine == COMB else max(sizes or [0])
            if total > 4000 or any(s > 4000 for s in sizes):
                continue                                   # keeps a broken cap from exhausting the harness
            cands = [0, 1, max(0, total - 1), total, total, total + 1, 2 * total + 3, 1000, 5000]
            if total > 1:
                cands += [total - 1, total // 2]
            spec["max_runs"] = r.choice(cands)
            return spec, files, mutation
        raise RuntimeError("generator could not produce a bounded spec")


def huge_spec(r: random.Random, where: str, n: int) -> tuple:
    """Over-cap spec with product 1e6..1e12 whose every *input* is small (lists <= a few thousand cells)."""
    keys = r.sample(KEY_POOL, 26)
    files: dict = {}
    cap = r.choice([0, 1, 10, 100, 1000])

    def rng_list(n_, base=0):
        return [base + i for i in range(n_)]

    if where == "across_blocks":
        goal = 10 ** r.randrange(6, 13)
        blocks = []
        prod = 1
        while prod < goal and len(keys) >= 2:
            if r.random() < 0.25:
                ctx = [[keys.pop(), rng_list(r.randrange(2, 5))], [keys.pop(), rng_list(r.randrange(2, 5))]]
                mode = COMB
                prod *= len(ctx[0][1]) * len(ctx[1][1])
            else:
                ctx = [[keys.pop(), rng_list(r.randrange(8, 31))]]
                mode = r.choice(MODES)
                prod *= len(ctx[0][1])
            blocks.append({"mode": mode, "context": ctx, "source": None})
        spec = {"combine": COMB, "max_runs": cap, "blocks": blocks}
    elif where == "single_block_product":
        nk = r.randrange(3, 8)
        per = {3: (100, 1000), 4: (32, 400), 5: (16, 120), 6: (10, 60), 7: (8, 40)}[nk]
        ctx = [[keys.pop(), rng_list(r.randrange(*per))] for _ in range(nk)]
        blocks = [{"mode": COMB, "context": ctx, "source": None}]
        if r.random() < 0.5:
            blocks.insert(r.randrange(2), {"mode": BYPOS, "context": [[keys.pop(), [1, 2]]], "source": None})
        spec = {"combine": r.choice(MODES) if len(blocks) == 1 else COMB, "max_runs": cap, "blocks": blocks}
    elif where == "source_product":
        # a source whose columns are combined combinatorially: 6..9 columns of 8..12 values = 1e6..1e9 rows of the part
        ncol = r.randrange(6, 10)
        per = r.randrange(8, 13)
        fmt = r.choice(["json", "yaml"])
        hdr = [keys.pop() for _ in range(ncol)]
        name = f"hugesrc_{n}." + fmt
        files[name] = {"format": fmt, "shape": "columns", "columns": [[h, rng_list(per, 3 * i)] for i, h in enumerate(hdr)]}
        src = {"file": name, "format": fmt, "select": None, "rename": [], "mode": COMB}
        blocks = [{"mode": r.choice(MODES), "context": [], "source": src}]
        if r.random() < 0.5:
            blocks[0]["context"] = [[keys.pop(), [1, 2]]]
            blocks[0]["mode"] = COMB
        spec = {"combine": COMB, "max_runs": cap, "blocks": blocks}
    else:  # context_x_source
        L = r.randrange(1000, 4000)
        R = r.randrange(1000, 4000)
        fmt = r.choice(["csv", "ndjson", "json"])
        ncol = r.choice([1, 2])
        hdr = [keys.pop() for _ in range(ncol)]
        name = f"huge_{n}." + fmt
        rows = [[(str(j + 7 * i) if fmt == "csv" else j + 7 * i) for i in range(ncol)] for j in range(R)]
        files[name] = {"format": fmt, "shape": "rows", "header": hdr, "rows": rows}
        src = {"file": name, "format": fmt, "select": None, "rename": [], "mode": BYPOS}
        blocks = [{"mode": COMB, "context": [[keys.pop(), rng_list(L)]], "source": src}]
        spec = {"combine": COMB, "max_runs": cap, "blocks": blocks}
    return spec, files


def control_spec(r: random.Random, n: int) -> tuple:
    """Under-cap medium spec: the monitor must let a legitimate expansion through (guards the budget constants)."""
    keys = r.sample(KEY_POOL, 6)
    ctx = [[keys.pop(), list(range(r.randrange(5, 12)))] for _ in range(3)]
    blocks = [{"mode": COMB, "context": ctx, "source": None},
              {"mode": BYPOS, "context": [[keys.pop(), [1, 2, 3]]], "source": None}]
    spec = {"combine": COMB, "max_runs": 6000, "blocks": blocks}
    return spec, {}


# ----------------------------------------------------------------------------------------------- promptness
def input_units(spec: dict, files: dict) -> dict:
    lists = sum(len(v) for b in spec["blocks"] for _, v in b["context"])
    cells = 0
    nkeys = sum(len(b["context"]) for b in spec["blocks"])
    for ft in files.values():
        cols = table_columns(ft)
        cells += sum(len(v) for _, v in cols)
        nkeys += len(cols)
    return {"lists": lists, "cells": cells, "keys": nkeys, "max_runs": spec["max_runs"]}


def budget(spec: dict, files: dict, event: str = "INSTRUCTION") -> dict:
    """Budget = c * (sum of list lengths + source cells + max_runs * #keys) + C, generous constants.
    Calibration on the unchanged tree: loading a CSV costs ~49 bytecodes / ~11 lines per cell inside run_space.py,
    a prompt rejection across blocks ~35 bytecodes per list element; c is 3x that and C covers fixed work."""
    u = input_units(spec, files)
    units = u["lists"] + u["cells"] + u["max_runs"] * max(1, u["keys"])
    steps = 150 * units + 200_000 if event == "INSTRUCTION" else 40 * units + 50_000
    return {"units": units, "event": event,
            "draws": 4 * units + 1_000,
            "steps": steps,                            # bytecodes (or lines) executed inside run_space.py
            "bytes": 4096 * units + 24 * 1024 * 1024}


def where_materialised(spec: dict, files: dict) -> str:
    """Deterministic classifier from the witness: which product of the over-cap spec is bigger than anything a
    prompt implementation needs to touch (inputs + max_runs)."""
    ex = expand_run_space(spec, files)
    u = input_units(spec, files)
    bound = max(u["lists"] + u["cells"], u["max_runs"]) * 4 + 16
    for bm in ex.blocks:
        for part in (bm.ctx, bm.src):
            if part is not None and part.mode == COMB and len(part.keys) >= 2 and part.loose_size() > bound:
                return "single_block_product"
    for bm in ex.blocks:
        if bm.loose_size() > bound:
            return "context_x_source"
    return "across_blocks"


class _Abort(BaseException):
    """Private: raised from the monitor inside the code under test when a budget is exceeded."""


def _code_objects(module) -> list:
    import types

    seen, out = set(), []

    def walk(code):
        if id(code) in seen:
            return
        seen.add(id(code))
        out.append(code)
        for c in code.co_consts:
            if isinstance(c, types.CodeType):
                walk(c)

    for obj in vars(module).values():
        fn = getattr(obj, "__code__", None)
        if isinstance(fn, types.CodeType) and fn.co_filename == getattr(module, "__file__", None):
            walk(fn)
    return out


def monitored_expand(spec: dict, dirpath: str, bud: dict) -> dict:
    """Run the real expand_run_space under the three monitors. Never lets it run past the budget."""
    import itertools as real_itertools
    import tracemalloc
    import semantiva.execution.run_space as rs

    st = {"peak": 0}
    draws = 0
    steps = 0
    max_draws, max_steps, max_bytes = bud["draws"], bud["steps"], bud["bytes"]
    traced = tracemalloc.get_traced_memory

    class ItertoolsProxy:
        def __getattr__(self, name):
            return getattr(real_itertools, name)

        @staticmethod
        def product(*a, **k):
            nonlocal draws
            for t in real_itertools.product(*a, **k):
                draws += 1
                if draws > max_draws:
                    raise _Abort("draws")
                if not draws & 1023 and traced()[1] > max_bytes:
                    raise _Abort("bytes")
                yield t

    mon = sys.monitoring
    tool = next(t for t in (4, 3, 5, 2) if mon.get_tool(t) is None)
    E = mon.events
    EV = E.INSTRUCTION if bud.get("event", "INSTRUCTION") == "INSTRUCTION" else E.LINE
    codes = _code_objects(rs)

    def on_step(code, where):
        nonlocal steps
        steps += 1
        if steps > max_steps:
            raise _Abort("steps")
        if not steps & 4095 and traced()[1] > max_bytes:
            raise _Abort("bytes")

    cfg = real_config(spec)
    had_attr = "itertools" in vars(rs)
    orig = vars(rs).get("itertools")
    outcome: dict = {}
    mon.use_tool_id(tool, "verif-c08")
    tracemalloc.start()
    tracemalloc.reset_peak()
    try:
        rs.itertools = ItertoolsProxy()
        mon.register_callback(tool, EV, on_step)
        for c in codes:
            mon.set_local_events(tool, c, EV)
        try:
            runs, _meta = rs.expand_run_space(cfg, cwd=dirpath)
            outcome = {"kind": "runs", "n": len(runs)}
        except _Abort as a:
            outcome = {"kind": "abort", "which": str(a)}
        except MemoryError:
            outcome = {"kind": "memoryerror"}
        except Exception as exc:  # noqa: BLE001
            outcome = {"kind": "exc", "exc": type(exc).__name__, "msg": str(exc)[:200]}
    finally:
        for c in codes:
            mon.set_local_events(tool, c, 0)
        mon.register_callback(tool, EV, None)
        mon.free_tool_id(tool)
        if had_attr:
            rs.itertools = orig
        else:
            try:
                del rs.itertools
            except AttributeError:
                pass
        st["peak"] = tracemalloc.get_traced_memory()[1]
        tracemalloc.stop()
    outcome.update(draws=draws, steps=steps, peak=st["peak"], monitored_code_objects=len(codes))
    return outcome


def huge_worker(argv: list) -> int:
    """Child process: cases (JSON lines, {"id","spec","files"}) from argv[0], results appended to argv[1].
    RLIMIT_AS is the safety net only (MemoryError / death => the parent reports inconclusive)."""
    import resource
    import shutil
    import tempfile

    from vlib import boot

    boot.boot()
    limit = int(os.environ.get("VERIF_C08_RLIMIT_AS", str(6 * 1024 ** 3)))
    try:
        resource.setrlimit(resource.RLIMIT_AS, (limit, limit))
    except (ValueError, OSError):
        pass
    scratch = tempfile.mkdtemp(prefix="huge-", dir=argv[2] if len(argv) > 2 else None)   # inside the parent's scratch
    try:
        with open(argv[0], encoding="utf-8") as fin, open(argv[1], "a", encoding="utf-8") as fout:
            for line in fin:
                line = line.strip()
                if not line:
                    continue
                case = json.loads(line)
                spec, files = case["spec"], case["files"]
                fout.write(json.dumps({"id": case["id"], "kind": "started"}) + "\n")
                fout.flush()
                write_files(files, scratch)
                bud = budget(spec, files, case.get("event", "INSTRUCTION"))
                try:
                    res = monitored_expand(spec, scratch, bud)
                except MemoryError:
                    res = {"kind": "memoryerror"}
                remove_files(files, scratch)
                res["id"] = case["id"]
                res["budget"] = bud
                fout.write(json.dumps(res) + "\n")
                fout.flush()
    finally:
        shutil.rmtree(scratch, ignore_errors=True)
    return 0


def run_huge_cases(cases: list, scratch: str, timeout: float = 900.0) -> dict:
    """Parent side: run the cases in a child (restarting after a death); id -> result dict."""
    import subprocess
    import time

    from vlib import boot

    results: dict = {}
    todo = list(cases)
    rounds = 0
    deadline = time.time() + timeout
    while todo and rounds < 6:
        rounds += 1
        fin = os.path.join(scratch, f"huge_in_{rounds}.jsonl")
        fout = os.path.join(scratch, f"huge_out_{rounds}.jsonl")
        with open(fin, "w", encoding="utf-8") as fh:
            for c in todo:
                fh.write(json.dumps(c) + "\n")
        open(fout, "w").close()
        p = subprocess.Popen([sys.executable, "-m", "vlib.runspace_model", fin, fout, scratch], cwd=boot.VERIF_DIR,
                             env=boot.child_env(), stdout=subprocess.DEVNULL, stderr=subprocess.PIPE)
        try:
            _, err = p.communicate(timeout=max(5.0, deadline - time.time()))
            timed_out = False
        except subprocess.TimeoutExpired:
            p.kill()
            _, err = p.communicate()
            timed_out = True
        started = None
        with open(fout, encoding="utf-8") as fh:
            for line in fh:
                try:
                    rec = json.loads(line)
                except ValueError:
                    continue
                if rec["kind"] == "started":
                    started = rec["id"]
                else:
                    results[rec["id"]] = rec
                    started = None
        for f in (fin, fout):
            try:
                os.unlink(f)
            except OSError:
                pass
        todo = [c for c in todo if c["id"] not in results]
        if todo and (p.returncode != 0 or timed_out):
            victim = started if started is not None else todo[0]["id"]
            why = "watchdog" if timed_out else f"worker died rc={p.returncode}"
            results[victim] = {"id": victim, "kind": "inconclusive",
                               "why": f"{why}: {(err or b'').decode('utf-8', 'replace')[-300:]}"}
            todo = [c for c in todo if c["id"] != victim]
            if timed_out:
                for c in todo:
                    results[c["id"]] = {"id": c["id"], "kind": "inconclusive", "why": "watchdog (not started)"}
                todo = []
        elif todo:
            for c in todo:
                results[c["id"]] = {"id": c["id"], "kind": "inconclusive", "why": "worker produced no result"}
            todo = []
    for c in todo:
        results[c["id"]] = {"id": c["id"], "kind": "inconclusive", "why": "too many worker restarts"}
    return results


# ----------------------------------------------------------------------------------------------- icontract
class _Skip(Exception):
    pass


def read_table(path: str, fmt: str) -> dict:
    """Independent reader of a source file into the logical table form used by the model."""
    import yaml

    with open(path, encoding="utf-8", newline="") as fh:
        text = fh.read()
    if fmt == "csv":
        import csv

        rows = list(csv.reader(io.StringIO(text)))
        if not rows:
            raise _Skip("csv without header")
        hdr = [h.strip() for h in rows[0]]
        body = [r for r in rows[1:]]
        if any(len(r) != len(hdr) for r in body) or any(c == "" for r in body for c in r) or hdr != rows[0]:
            raise _Skip("ragged / empty-cell / padded-header csv (not documented)")
        return {"format": fmt, "shape": "rows", "header": hdr, "rows": body}
    if fmt == "ndjson":
        payload: Any = [json.loads(ln) for ln in text.split("\n") if ln.strip()]     # records end at LF, nothing else
    elif fmt == "json":
        payload = json.loads(text)
    elif fmt == "yaml":
        payload = yaml.safe_load(text)
    else:
        raise _Skip(f"format {fmt}")
    if isinstance(payload, list):
        if not payload or not all(isinstance(x, dict) for x in payload):
            raise _Skip("empty or non-mapping rows")
        hdr = [str(k) for k in payload[0]]
        if any(sorted(str(k) for k in row) != sorted(hdr) for row in payload):
            raise _Skip("ragged rows (not documented)")
        return {"format": fmt, "shape": "rows", "header": hdr,
                "rows": [[{str(k): v for k, v in row.items()}[h] for h in hdr] for row in payload]}
    if isinstance(payload, dict):
        return {"format": fmt, "shape": "columns", "columns": [[str(k), v] for k, v in payload.items()]}
    raise _Skip("unsupported payload")


def spec_from_config(cfg, cwd) -> tuple:
    """RunSpaceV1Config (+ base dir) -> (spec, files) for the model, reading the files independently."""
    blocks, files = [], {}
    for i, b in enumerate(cfg.blocks):
        if b.mode not in MODES:
            raise _Skip("unknown mode")
        ctx = []
        for k, v in b.context.items():
            if not isinstance(k, str):
                raise _Skip("non-string key")
            ctx.append([k, list(v)])
        src = None
        if b.source is not None:
            s = b.source
            if s.mode not in MODES:
                raise _Skip("unknown source mode")
            p = s.path if os.path.isabs(s.path) else os.path.join(str(cwd), s.path)
            if not os.path.exists(p):
                raise _Skip("missing file")
            name = f"f{i}"
            files[name] = read_table(p, s.format)
            if s.select is not None and len(set(s.select)) != len(s.select):
                raise _Skip("duplicate select entries")
            src = {"file": name, "format": s.format, "select": list(s.select) if s.select is not None else None,
                   "rename": [[a, c] for a, c in dict(s.rename or {}).items()], "mode": s.mode}
        blocks.append({"mode": b.mode, "context": ctx, "source": src})
    if cfg.combine not in MODES or not isinstance(cfg.max_runs, int) or cfg.max_runs < 0:
        raise _Skip("combine / max_runs outside the documented domain")
    return {"combine": cfg.combine, "max_runs": cfg.max_runs, "blocks": blocks}, files


class ContractBroken(Exception):
    pass


def install_contract(run) -> dict:
    """icontract.ensure on the real expand_run_space: every returned (runs, meta) equals the reference model.
    The condition records (run.violation) and returns True; evaluations are counted in state['evaluations']."""
    import icontract
    import semantiva.execution.run_space as rs

    orig = rs.expand_run_space
    state: dict = {"evaluations": 0, "compared": 0, "skipped": 0, "violations": 0, "orig": orig, "patched": []}

    def returned_runs_equal_reference_model(spec, cwd, result):
        state["evaluations"] += 1
        try:
            mspec, files = spec_from_config(spec, cwd)
            total_in = sum(len(v) for b in mspec["blocks"] for _, v in b["context"])
            if total_in > 200_000:
                raise _Skip("too large for the in-line model")
            ex = expand_run_space(mspec, files)
            runs, meta = result
            verdict = judge(ex, Observed("runs", runs=runs, meta=meta), mspec, path="api")
            state["compared"] += 1
            if verdict is not None:
                state["violations"] += 1
                key, what = verdict
                run.violation(key, "contract on expand_run_space: " + what,
                              {"spec": mspec, "files": files, "path": "contract"})
        except _Skip:
            state["skipped"] += 1
        except Exception as exc:  # noqa: BLE001 - a broken oracle must not break what it observes
            state["skipped"] += 1
            state.setdefault("oracle_errors", []).append(f"{type(exc).__name__}: {exc}")
        return True

    wrapped = icontract.ensure(returned_runs_equal_reference_model, error=ContractBroken)(orig)
    for mod in list(sys.modules.values()):
        try:
            if mod is not None and getattr(mod, "__name__", "").startswith("semantiva") \
                    and vars(mod).get("expand_run_space") is orig:
                setattr(mod, "expand_run_space", wrapped)
                state["patched"].append(mod)
        except Exception:  # noqa: BLE001
            continue
    return state


def uninstall_contract(state: dict) -> None:
    for mod in state.get("patched", []):
        setattr(mod, "expand_run_space", state["orig"])
    state["patched"] = []


if __name__ == "__main__":
    sys.exit(huge_worker(sys.argv[1:]))
