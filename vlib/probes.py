"""sys.monitoring helpers: source-free failpoints (a LINE callback raises an injected exception at the k-th line
event inside node-processing code) and step counters."""
from __future__ import annotations

import sys
import types

TOOL = 4


class InjectedFault(RuntimeError):
    """Raised by a failpoint."""


def code_objects_of(module) -> list:
    """All code objects defined in a module (functions, methods, nested functions, lambdas, comprehensions)."""
    seen, out = set(), []

    def add(co):
        if id(co) in seen:
            return
        seen.add(id(co))
        out.append(co)
        for c in co.co_consts:
            if isinstance(c, types.CodeType):
                add(c)

    fname = getattr(module, "__file__", None)

    def visit(obj, depth=0):
        if depth > 3:
            return
        if isinstance(obj, (staticmethod, classmethod)):
            obj = obj.__func__
        if isinstance(obj, property):
            for f in (obj.fget, obj.fset, obj.fdel):
                if f is not None:
                    visit(f, depth)
            return
        if isinstance(obj, types.FunctionType):
            if obj.__code__.co_filename == fname:
                add(obj.__code__)
        elif isinstance(obj, type) and getattr(obj, "__module__", None) == module.__name__:
            for v in list(vars(obj).values()):
                visit(v, depth + 1)

    for v in list(vars(module).values()):
        visit(v)
    return out


class Failpoints:
    """Counts LINE events in the given code objects; raises InjectedFault at event number ``fire_at`` (1-based)."""

    def __init__(self, codes, fire_at=None):
        self.codes = codes
        self.fire_at = fire_at
        self.count = 0
        self.fired = None
        self.started_nodes = 0
        self.fault = InjectedFault(f"failpoint {fire_at}")

    def __enter__(self):
        from semantiva.pipeline.payload_processors import _PayloadProcessor
        from semantiva.pipeline.pipeline import Pipeline

        self._pp = _PayloadProcessor.process.__code__
        self._pipeline_cls = Pipeline
        mon = sys.monitoring
        try:
            mon.use_tool_id(TOOL, "verif-failpoints")
        except ValueError:
            pass
        E = mon.events
        mon.register_callback(TOOL, E.LINE, self._line)
        mon.register_callback(TOOL, E.PY_START, self._start)
        for co in self.codes:
            mon.set_local_events(TOOL, co, E.LINE)
        mon.set_local_events(TOOL, self._pp, E.PY_START)
        return self

    def _start(self, code, offset):
        if code is self._pp:
            slf = sys._getframe(1).f_locals.get("self")
            if slf is not None and not isinstance(slf, self._pipeline_cls):
                self.started_nodes += 1

    def _line(self, code, line):
        self.count += 1
        if self.fire_at is not None and self.count == self.fire_at and self.fired is None:
            self.fired = (code.co_filename.rsplit("/", 1)[-1], code.co_name, line, self.started_nodes)
            raise self.fault

    def __exit__(self, *a):
        mon = sys.monitoring
        E = mon.events
        for co in self.codes:
            try:
                mon.set_local_events(TOOL, co, 0)
            except Exception:
                pass
        try:
            mon.set_local_events(TOOL, self._pp, 0)
            mon.register_callback(TOOL, E.LINE, None)
            mon.register_callback(TOOL, E.PY_START, None)
            mon.free_tool_id(TOOL)
        except Exception:
            pass
        return False


def node_code_objects() -> list:
    import semantiva.context_processors.context_observer as co
    import semantiva.pipeline._param_resolution as pr
    import semantiva.pipeline.nodes.nodes as nodes_mod
    import vlib.components as comps

    out = []
    for m in (nodes_mod, pr, co):
        out += code_objects_of(m)
    # harness components: only the leaf logic itself (never the flight recorder)
    out += [c for c in code_objects_of(comps) if c.co_name in ("_process_logic", "_get_data", "_send_data", "_get_payload")]
    return out


def failpoint_sweep(run, base, scratch, check_stream=True, max_points=120) -> None:
    """For a clean base pipeline: one traced run per line event inside node-processing code, with an injected
    exception at that event ("this node fails somewhere inside", at every depth)."""
    import random
    import shutil

    from . import tracecheck as tc

    codes = node_code_objects()
    nodes, data, ctx = base["nodes"], base["data"], base["ctx"]
    with Failpoints(codes) as fp0:
        tr0 = tc.traced_run(nodes, data, ctx, detail="hash", mode="file", scratch=scratch)
    shutil.rmtree(tr0.tdir, ignore_errors=True)
    total = fp0.count
    run.count("failpoint_line_events_in_clean_run", total)
    if not tr0.real.ok or total == 0:
        return
    rng = random.Random(total * 7919 + len(nodes))
    points = list(range(1, total + 1))
    if len(points) > max_points:
        points = sorted(rng.sample(points, max_points))
    for k in points:
        with Failpoints(codes, fire_at=k) as fp:
            tr = tc.traced_run(nodes, data, ctx, detail=rng.choice(["hash", "all"]), mode=rng.choice(["file", "dir"]), scratch=scratch)
        run.count("failpoint_runs")
        real = tr.real
        if fp.fired is None:
            run.count("failpoint_not_reached")
            shutil.rmtree(tr.tdir, ignore_errors=True)
            continue
        where = f"{fp.fired[0]}:{fp.fired[1]}"
        run.count("failpoints_fired")
        witness = {"nodes": nodes, "data": data, "ctx": ctx, "failpoint": k, "fired_at": fp.fired,
                   "types": [r.get("record_type") for r in tr.records], "exc": real.exc_name}
        run.case(("failpoint", run.evaluations, k, where), True)
        if real.ok:
            run.count("failpoint_swallowed_run_returned")
        elif real.exc is not fp.fault:
            run.violation("exception_not_original@failpoint", f"caller received {real.exc!r} instead of the injected fault (fired in {where})", witness)
        # nodes started when the fault fired: construction phase => 0 started
        expect = None if real.ok else fp.fired[3]
        if real.stage == "build":
            shutil.rmtree(tr.tdir, ignore_errors=True)
            continue
        for key, msg in tc.check_single_run_stream(tr.records, expect_sers=expect, returned=real.ok):
            run.violation(f"{key}@failpoint", f"{msg} (fault injected in {where})", witness)
        for p in tr.problems:
            run.violation("trace_file_damaged@failpoint", p, witness)
        if tr.open_fds:
            run.violation("trace_file_left_open@failpoint", f"{tr.open_fds}", witness)
        shutil.rmtree(tr.tdir, ignore_errors=True)
