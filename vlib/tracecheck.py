"""Offline checkers over JSONL traces: loading, registry-dispatched schema validation, the lifecycle
automaton (pipeline_start (ser)* pipeline_end, optionally bracketed by run_space_start … run_space_end),
cross-field checks, and a driver that produces a traced run while observing file state from outside."""
from __future__ import annotations

import glob
import json
import os
import tempfile
from typing import Any, Optional

from . import boot

_VALIDATORS: dict = {}


def _schema_dir() -> str:
    return os.path.join(boot.REPO, "semantiva", "trace", "schema")


def _validators():
    """record_type -> Draft202012Validator for the schema the registry maps it to ($ref resolved locally)."""
    if _VALIDATORS:
        return _VALIDATORS
    import jsonschema
    from referencing import Registry
    from referencing.jsonschema import SchemaResource

    sdir = _schema_dir()
    reg = Registry()
    by_id = {}
    for path in glob.glob(os.path.join(sdir, "*.schema.json")):
        with open(path, encoding="utf-8") as fh:
            contents = json.load(fh)
        uri = contents.get("$id")
        if isinstance(uri, str):
            reg = reg.with_resource(uri, SchemaResource.from_contents(contents))
            by_id[uri] = contents
    with open(os.path.join(sdir, "trace_registry_v1.json"), encoding="utf-8") as fh:
        registry = json.load(fh)
    for rtype, url in registry["records"].items():
        contents = by_id.get(url)
        if contents is None:
            with open(os.path.join(sdir, url.rsplit("/", 1)[-1]), encoding="utf-8") as fh:
                contents = json.load(fh)
        _VALIDATORS[rtype] = jsonschema.validators.Draft202012Validator(contents, registry=reg)
    return _VALIDATORS


def schema_errors(record: dict) -> list:
    rtype = record.get("record_type")
    v = _validators().get(rtype)
    if v is None:
        return [f"record_type {rtype!r} not in registry"]
    return [f"{'/'.join(str(p) for p in e.path)}: {e.message[:160]}" for e in v.iter_errors(record)]


def load_file(path: str) -> tuple[list, list]:
    """-> (records, problems). A torn last line (no newline / invalid JSON) is a problem, not an exception."""
    recs, problems = [], []
    with open(path, "rb") as fh:
        raw = fh.read()
    if raw and not raw.endswith(b"\n"):
        problems.append("file does not end with a newline (torn last line)")
    for ln, line in enumerate(raw.decode("utf-8", errors="replace").splitlines(), 1):
        if not line.strip():
            continue
        try:
            recs.append(json.loads(line))
        except Exception as exc:
            problems.append(f"line {ln} is not JSON: {exc}")
    return recs, problems


def load_dir(tdir: str) -> tuple[dict, list]:
    """-> ({path: records}, problems) for every *.jsonl under tdir."""
    out, problems = {}, []
    for path in sorted(glob.glob(os.path.join(tdir, "**", "*.jsonl"), recursive=True)):
        recs, probs = load_file(path)
        out[path] = recs
        problems += [f"{os.path.basename(path)}: {p}" for p in probs]
    return out, problems


def open_fds_into(tdir: str) -> list:
    out = []
    try:
        for fd in os.listdir("/proc/self/fd"):
            try:
                target = os.readlink(f"/proc/self/fd/{fd}")
            except OSError:
                continue
            if target.startswith(tdir):
                out.append(target)
    except OSError:
        pass
    return out


class TracedRun:
    def __init__(self):
        self.real = None
        self.files: dict = {}
        self.records: list = []      # single-run stream in file order
        self.problems: list = []
        self.open_fds: list = []
        self.tdir = ""
        self.t0 = self.t1 = 0.0
        self.driver = None


def traced_run(nodes, data, ctx, *, detail="all", mode="file", scratch=None, pipeline=None, driver=None,
               via_yaml=False) -> TracedRun:
    """Run with a JsonlTraceDriver and observe the trace from outside at the moment the call returns/raises."""
    import time

    from semantiva.trace.drivers.jsonl import JsonlTraceDriver

    from . import account

    tr = TracedRun()
    tr.tdir = tempfile.mkdtemp(prefix="trace-", dir=scratch)
    if mode == "dotdir":
        # directory output mode with an EXISTING directory whose name has a dot (traces.v2, 2026.10.05, node01.cluster)
        out = os.path.join(tr.tdir, "traces.v2")
        os.makedirs(out)
    else:
        out = os.path.join(tr.tdir, "trace.ser.jsonl") if mode == "file" else os.path.join(tr.tdir, "traces")
    drv = driver if driver is not None else JsonlTraceDriver(out, detail=detail)
    tr.driver = drv
    if pipeline is not None:
        pipeline.trace = drv
    tr.t0 = time.time()
    tr.real = account.real_run(nodes, data, ctx, trace=drv, scratch=scratch, pipeline=pipeline, via_yaml=via_yaml)
    tr.t1 = time.time()
    tr.open_fds = open_fds_into(tr.tdir)
    tr.files, tr.problems = load_dir(tr.tdir)
    for path in sorted(tr.files):
        tr.records += tr.files[path]
    return tr


# --------------------------------------------------------------------------- stream checks
def check_single_run_stream(records: list, *, expect_sers: Optional[int], returned: bool, failing_node_has_ser: bool = True) -> list:
    """Lifecycle + cross-field checks for the records of ONE run. -> [(key, message)]"""
    issues = []

    def bad(key, msg):
        issues.append((key, msg))

    types = [r.get("record_type") for r in records]
    if not records:
        return [("no_records", "no trace record was written")]
    if types[0] != "pipeline_start":
        bad("stream_not_started_by_pipeline_start", f"first record is {types[0]}")
    n_end = types.count("pipeline_end")
    if n_end != 1:
        bad("pipeline_end_count", f"{n_end} pipeline_end records (exactly one expected); types={types}")
    elif types[-1] != "pipeline_end":
        bad("pipeline_end_not_last", f"types={types}")
    if types.count("pipeline_start") != 1:
        bad("pipeline_start_count", f"{types.count('pipeline_start')} pipeline_start records")
    middle = [t for t in types[1:] if t != "pipeline_end"]
    if any(t != "ser" for t in middle):
        bad("unexpected_record_in_stream", f"types={types}")
    for i, r in enumerate(records):
        errs = schema_errors(r)
        if errs:
            bad(f"schema_invalid_{r.get('record_type')}", f"record {i}: {errs[:3]}")
    start = records[0] if types[0] == "pipeline_start" else {}
    sers = [r for r in records if r.get("record_type") == "ser"]
    ends = [r for r in records if r.get("record_type") == "pipeline_end"]
    run_id, pid = start.get("run_id"), start.get("pipeline_id")
    for s in sers:
        ident = s.get("identity", {})
        if ident.get("run_id") != run_id or ident.get("pipeline_id") != pid:
            bad("ids_not_shared", f"SER identity {ident} vs pipeline_start ({run_id}, {pid})")
    for e in ends:
        if e.get("run_id") != run_id:
            bad("ids_not_shared", f"pipeline_end run_id {e.get('run_id')} vs {run_id}")
    canon = start.get("pipeline_spec_canonical") or {}
    uuids = [n.get("node_uuid") for n in canon.get("nodes", [])]
    upstream = {u: [] for u in uuids}
    for edge in canon.get("edges", []):
        upstream.setdefault(edge["target"], []).append(edge["source"])
    got_ids = [s.get("identity", {}).get("node_id") for s in sers]
    if got_ids != uuids[: len(got_ids)]:
        bad("ser_order_not_canonical", f"SER node ids {got_ids} vs canonical {uuids}")
    for s in sers:
        nid = s.get("identity", {}).get("node_id")
        if s.get("dependencies", {}).get("upstream") != upstream.get(nid, []):
            bad("upstream_not_canonical_edges", f"node {nid}: {s.get('dependencies')} vs {upstream.get(nid)}")
    if expect_sers is not None and len(sers) != expect_sers:
        bad("ser_count", f"{len(sers)} SER records, {expect_sers} nodes started")
    for s in sers[:-1]:
        if s.get("status") != "succeeded":
            bad("non_final_ser_not_succeeded", f"status {s.get('status')}")
    if not failing_node_has_ser and any(s.get("status") != "succeeded" for s in sers):
        # the run was stopped by a fault BETWEEN nodes (the transport refused a publish): every node that ran did succeed
        bad("ser_of_succeeded_node_not_succeeded", f"statuses {[s.get('status') for s in sers]}")
    if sers:
        last = sers[-1].get("status")
        if returned and last != "succeeded":
            bad("final_ser_status", f"run returned but last SER says {last}")
        if not returned and failing_node_has_ser and expect_sers is not None and expect_sers > 0 and len(sers) == expect_sers and last != "error":
            bad("final_ser_status", f"run raised but the SER of the failing node says {last}")
    if ends:
        st = (ends[0].get("summary") or {}).get("status")
        if (st == "ok") != returned:
            bad("pipeline_end_status", f"pipeline_end says {st!r}, run {'returned' if returned else 'raised'}")
    if len(uuids) != len(set(uuids)):
        bad("duplicate_node_uuid", f"{uuids}")
    return issues


VOLATILE_TOP = {"timestamp", "seq", "run_id"}


def normalise(record: dict) -> dict:
    """Remove the documented volatile fields (run id, timestamps, durations, sequence numbers)."""
    r = json.loads(json.dumps(record))
    for k in list(r):
        if k in VOLATILE_TOP:
            r.pop(k)
    if r.get("record_type") == "ser":
        r.get("identity", {}).pop("run_id", None)
        r["timing"] = {}
    return r
