"""Numeric sweep-expression toolkit for C12 (shares no code with semantiva).

Tree form (nested tuples, JSON round-trippable through ``to_json`` / ``from_json``):

    ("v", "a")                       variable
    ("c", 2)                         non-negative integer constant (a negative literal is ("un", "-", ("c", k)),
                                     exactly as Python parses it)
    ("un", "-"|"+", x)               unary operator
    ("bin", op, l, r)                op in + - * // % **
    ("call", f, (args...))           f in abs / min / max (int only appears in mutants)
    ("cmp", (ops...), (operands...)) 1 op / 2 operands, or a chain with 2 ops / 3 operands
    ("if", test, body, orelse)       body if test else orelse

size(tree) = number of tree nodes (leaves + operators + calls; a comparison chain and an if-else count as one node).

* ``enumerate_sizes``  exhaustive enumeration by size over a stated alphabet
* ``random_expr``      seeded generator of larger expressions (biased towards + / * chains)
* ``src``              fully parenthesised Python source
* ``evaluate``         exact evaluation over int / bool / fractions.Fraction
* ``chain_variants``   operand permutations / re-associations of maximal + and * chains
* ``mutants``          single-point mutations (semantic difference is decided by evaluation, never assumed)
* ``classify_diff``    deterministic structural classifier of the difference between two trees
"""
from __future__ import annotations

import itertools
import math
from collections import Counter
from fractions import Fraction
from typing import Any, Iterator

VARS = ("a", "b", "c")
CONSTS = (0, 1, 2, 3)
# wide integer literals (beyond 2**53: adjacent values are different integers but round to the same double)
WIDE_CONSTS = (2 ** 53, 2 ** 53 + 1, 10 ** 30, 10 ** 30 + 1, 1700000000000000000, 1700000000000000001, 2 ** 64 - 1)
ARITH = ("+", "-", "*", "//", "%")          # '**' is generated separately: exponent is a small constant
COMMUTATIVE = ("+", "*")
CMPS = ("<", "<=", ">", ">=", "==", "!=")
CHAIN_CMPS = (("<", "<"), ("<", "=="), ("==", "<"), ("==", "=="),
              # chains whose FIRST link is > / >= (a link-by-link mirroring must move the shared middle operand), mixed directions
              (">", "<"), (">", ">"), (">=", "<"), ("<", ">"), (">", "=="), ("!=", "<"), ("<=", "<="), (">=", ">="))
POW_EXPONENTS = (0, 1, 2, 3)
OPNAME = {"+": "Add", "-": "Sub", "*": "Mult", "//": "FloorDiv", "%": "Mod", "**": "Pow"}


# ------------------------------------------------------------------ basic helpers
def size(t) -> int:
    k = t[0]
    if k in ("v", "c"):
        return 1
    if k == "un":
        return 1 + size(t[2])
    if k == "bin":
        return 1 + size(t[2]) + size(t[3])
    if k == "call":
        return 1 + sum(size(x) for x in t[2])
    if k == "cmp":
        return 1 + sum(size(x) for x in t[2])
    if k == "if":
        return 1 + size(t[1]) + size(t[2]) + size(t[3])
    raise ValueError(t)


def src(t) -> str:
    k = t[0]
    if k == "v":
        return t[1]
    if k == "c":
        return str(t[1])
    if k == "un":
        return "(%s%s)" % (t[1], src(t[2]))
    if k == "bin":
        return "(%s %s %s)" % (src(t[2]), t[1], src(t[3]))
    if k == "call":
        return "%s(%s)" % (t[1], ", ".join(src(x) for x in t[2]))
    if k == "cmp":
        out = [src(t[2][0])]
        for op, x in zip(t[1], t[2][1:]):
            out.append(op)
            out.append(src(x))
        return "(%s)" % " ".join(out)
    if k == "if":
        return "(%s if %s else %s)" % (src(t[2]), src(t[1]), src(t[3]))
    raise ValueError(t)


def to_json(t):
    if isinstance(t, tuple):
        return [to_json(x) for x in t]
    return t


def from_json(j):
    if isinstance(j, list):
        return tuple(from_json(x) for x in j)
    return j


def children(t) -> tuple:
    k = t[0]
    if k in ("v", "c"):
        return ()
    if k == "un":
        return (t[2],)
    if k == "bin":
        return (t[2], t[3])
    if k in ("call", "cmp"):
        return tuple(t[2])
    if k == "if":
        return (t[1], t[2], t[3])
    raise ValueError(t)


def with_children(t, ch):
    k = t[0]
    if k == "un":
        return ("un", t[1], ch[0])
    if k == "bin":
        return ("bin", t[1], ch[0], ch[1])
    if k in ("call", "cmp"):
        return (k, t[1], tuple(ch))
    if k == "if":
        return ("if", ch[0], ch[1], ch[2])
    raise ValueError(t)


def paths(t, prefix=()) -> Iterator[tuple]:
    """Every (path, subtree); a path is a tuple of child indexes."""
    yield prefix, t
    for i, c in enumerate(children(t)):
        yield from paths(c, prefix + (i,))


def replace_at(t, path, new):
    if not path:
        return new
    ch = list(children(t))
    ch[path[0]] = replace_at(ch[path[0]], path[1:], new)
    return with_children(t, ch)


def leaves(t) -> Counter:
    return Counter(s for _, s in paths(t) if s[0] in ("v", "c"))


def operators(t) -> Counter:
    out = Counter()
    for _, s in paths(t):
        if s[0] == "bin":
            out[OPNAME[s[1]]] += 1
        elif s[0] == "un":
            out["U" + s[1]] += 1
        elif s[0] == "call":
            out[s[1]] += 1
        elif s[0] == "cmp":
            out["cmp:" + ",".join(s[1])] += 1
        elif s[0] == "if":
            out["if"] += 1
    return out


def has_var(t) -> bool:
    return any(s[0] == "v" for _, s in paths(t))


# ------------------------------------------------------------------ enumeration
FULL = {"name": "full", "vars": VARS, "consts": CONSTS, "arith": ARITH, "pow": POW_EXPONENTS, "unary": True,
        "abs": True, "minmax": True, "cmps": CMPS, "chains": CHAIN_CMPS, "ifelse": True}
# the polynomial fragment (decidable exactly through normal forms); trimmed leaf pool so that deeper sizes fit
POLY = {"name": "polynomial", "vars": VARS, "consts": (1, 2), "arith": ("+", "-", "*"), "pow": (), "unary": True,
        "abs": False, "minmax": False, "cmps": (), "chains": (), "ifelse": False}


def alphabet_doc(al) -> dict:
    return {"variables": list(al["vars"]), "constants": list(al["consts"]),
            "binary": list(al["arith"]) + (["** (constant exponent in %s)" % (list(al["pow"]),)] if al["pow"] else []),
            "unary": ["-"] if al["unary"] else [],
            "calls": (["abs/1"] if al["abs"] else []) + (["min/2", "max/2"] if al["minmax"] else []),
            "comparisons": list(al["cmps"]), "comparison_chains": ["%s,%s" % p for p in al["chains"]],
            "ifelse": al["ifelse"]}


def iter_size(n: int, by: dict, al=FULL) -> Iterator[tuple]:
    """Every tree of exactly ``n`` nodes over alphabet ``al``, given ``by[k]`` = list of all trees of size k < n.
    Fixed deterministic order."""
    if n == 1:
        for v in al["vars"]:
            yield ("v", v)
        for k in al["consts"]:
            yield ("c", k)
        return
    for x in by[n - 1]:
        if al["unary"]:
            yield ("un", "-", x)
        if al["abs"]:
            yield ("call", "abs", (x,))
    if n >= 3:
        for x in by[n - 2]:
            for k in al["pow"]:
                yield ("bin", "**", x, ("c", k))
        for ls in range(1, n - 1):
            rs = n - 1 - ls
            for l in by[ls]:
                for r in by[rs]:
                    for op in al["arith"]:
                        yield ("bin", op, l, r)
                    for op in al["cmps"]:
                        yield ("cmp", (op,), (l, r))
                    if al["minmax"]:
                        yield ("call", "min", (l, r))
                        yield ("call", "max", (l, r))
    if n >= 4 and (al["ifelse"] or al["chains"]):
        for s1 in range(1, n - 2):
            for s2 in range(1, n - 1 - s1):
                s3 = n - 1 - s1 - s2
                if s3 < 1:
                    continue
                for x in by[s1]:
                    for y in by[s2]:
                        for z in by[s3]:
                            if al["ifelse"]:
                                yield ("if", x, y, z)
                            for ops in al["chains"]:
                                yield ("cmp", ops, (x, y, z))


def enumerate_sizes(nmax: int, al=FULL) -> dict:
    """{size: [tree, ...]} for sizes 1..nmax."""
    by: dict[int, list] = {}
    for n in range(1, nmax + 1):
        by[n] = list(iter_size(n, by, al))
    return by


def in_alphabet(t, al) -> bool:
    for _, s in paths(t):
        k = s[0]
        if k == "v":
            ok = s[1] in al["vars"]
        elif k == "c":
            ok = s[1] in al["consts"]
        elif k == "un":
            ok = al["unary"] and s[1] == "-"
        elif k == "bin":
            ok = s[1] in al["arith"] or (s[1] == "**" and s[3][0] == "c" and s[3][1] in al["pow"])
        elif k == "call":
            ok = (s[1] == "abs" and al["abs"]) or (s[1] in ("min", "max") and al["minmax"])
        elif k == "cmp":
            ok = (len(s[1]) == 1 and s[1][0] in al["cmps"]) or s[1] in al["chains"]
        else:
            ok = al["ifelse"]
        if not ok:
            return False
    return True


# ------------------------------------------------------------------ polynomial normal form (exact decision)
def poly(t):
    """Expanded normal form {(deg_a, deg_b, deg_c): coefficient} of a tree in the polynomial fragment
    (+ - * unary+- and ** with a non-negative constant exponent over variables and integer constants), else None.
    Two such expressions agree on every assignment iff their normal forms are equal."""
    k = t[0]
    if k == "c":
        return {(0, 0, 0): t[1]} if t[1] else {}
    if k == "v":
        i = VARS.index(t[1])
        return {tuple(1 if j == i else 0 for j in range(3)): 1}
    if k == "un":
        p = poly(t[2])
        if p is None:
            return None
        return p if t[1] == "+" else {m: -c for m, c in p.items()}
    if k == "bin":
        op = t[1]
        if op == "**":
            if t[3][0] != "c" or t[3][1] > 8:
                return None
            p = poly(t[2])
            if p is None:
                return None
            out = {(0, 0, 0): 1}
            for _ in range(t[3][1]):
                out = _pmul(out, p)
            return out
        if op not in ("+", "-", "*"):
            return None
        p, q = poly(t[2]), poly(t[3])
        if p is None or q is None:
            return None
        if op == "*":
            return _pmul(p, q)
        out = dict(p)
        sign = 1 if op == "+" else -1
        for m, c in q.items():
            v = out.get(m, 0) + sign * c
            if v:
                out[m] = v
            else:
                out.pop(m, None)
        return out
    return None


def _pmul(p, q):
    out: dict = {}
    for m1, c1 in p.items():
        for m2, c2 in q.items():
            m = (m1[0] + m2[0], m1[1] + m2[1], m1[2] + m2[2])
            v = out.get(m, 0) + c1 * c2
            if v:
                out[m] = v
            else:
                out.pop(m, None)
    return out


def poly_str(p) -> str:
    if not p:
        return "0"
    parts = []
    for m in sorted(p, reverse=True):
        mono = "*".join("%s^%d" % (v, e) if e > 1 else v for v, e in zip(VARS, m) if e)
        parts.append("%+d%s" % (p[m], ("*" + mono) if mono else ""))
    return " ".join(parts)


def separating_assignment(x, y):
    """A concrete integer assignment on which two trees are decided and differ (searched on a small grid)."""
    for a in (0, 1, -1, 2, -2, 3, -3, 5):
        for b in (0, 1, -1, 2, -2, 3, 7):
            for c in (0, 1, -1, 2, -3, 5, 11):
                env = {"a": a, "b": b, "c": c}
                vx, vy = evaluate(x, env), evaluate(y, env)
                if vx != UNDECIDED and vy != UNDECIDED and vx != vy:
                    return env, vx, vy
    return None


def random_expr(rng, n: int):
    """A random tree of exactly ``n`` nodes; half of the binary operators are + or * so chains are frequent."""
    if n == 1:
        r1 = rng.random()
        if r1 < 0.04:
            return ("c", rng.choice(WIDE_CONSTS))
        return ("v", rng.choice(VARS)) if r1 < 0.65 else ("c", rng.choice(CONSTS))
    if n == 2:
        x = random_expr(rng, 1)
        return ("un", "-", x) if rng.random() < 0.6 else ("call", "abs", (x,))
    r = rng.random()
    if r < 0.08:
        x = random_expr(rng, n - 1)
        return ("un", "-", x) if rng.random() < 0.6 else ("call", "abs", (x,))
    if r < 0.14:
        return ("bin", "**", random_expr(rng, n - 2), ("c", rng.choice(POW_EXPONENTS)))
    if r < 0.22 and n >= 4:
        s1 = rng.randint(1, n - 3)
        s2 = rng.randint(1, n - 2 - s1)
        s3 = n - 1 - s1 - s2
        x, y, z = random_expr(rng, s1), random_expr(rng, s2), random_expr(rng, s3)
        if rng.random() < 0.7:
            return ("if", x, y, z)
        return ("cmp", rng.choice(CHAIN_CMPS), (x, y, z))
    ls = rng.randint(1, n - 2)
    l, rr = random_expr(rng, ls), random_expr(rng, n - 1 - ls)
    r2 = rng.random()
    if r2 < 0.55:
        return ("bin", rng.choice(COMMUTATIVE), l, rr)
    if r2 < 0.78:
        return ("bin", rng.choice(("-", "//", "%")), l, rr)
    if r2 < 0.9:
        return ("cmp", (rng.choice(CMPS),), (l, rr))
    return ("call", rng.choice(("min", "max")), (l, rr))


# ------------------------------------------------------------------ exact evaluation
class Undecided(Exception):
    """The value is not representable exactly (non-integer exponent) or beyond the size guard; such an
    assignment is skipped for the pair at hand (never counted as equal, never as different)."""


ASSIGNMENTS = (
    {"a": 0, "b": 0, "c": 0},
    {"a": 1, "b": -1, "c": 0},
    {"a": -1, "b": 1, "c": 2},
    {"a": 2, "b": 3, "c": 5},
    {"a": 7, "b": 5, "c": 3},
    {"a": -2, "b": -3, "c": -5},
    {"a": 3, "b": 3, "c": -7},
    {"a": Fraction(1, 2), "b": Fraction(-3, 2), "c": Fraction(5, 3)},
)
MAX_BITS = 4096


def _bits(x) -> int:
    if isinstance(x, Fraction):
        return max(x.numerator.bit_length(), x.denominator.bit_length())
    return int(x).bit_length()


def _pow(x, y):
    if isinstance(y, Fraction):
        if y.denominator != 1:
            raise Undecided("non-integer exponent")
        y = y.numerator
    y = int(y)
    if abs(y) > 64 or _bits(x) * max(1, abs(y)) > MAX_BITS:
        raise Undecided("too big")
    if y >= 0:
        return x ** y
    if x == 0:
        raise ZeroDivisionError("0 to a negative power")
    return Fraction(x) ** y            # exact (Python itself would produce a float here)


def _cmp(op, x, y) -> bool:
    if op == "<":
        return x < y
    if op == "<=":
        return x <= y
    if op == ">":
        return x > y
    if op == ">=":
        return x >= y
    if op == "==":
        return x == y
    return x != y


def _ev(t, env):
    k = t[0]
    if k == "v":
        return env[t[1]]
    if k == "c":
        return t[1]
    if k == "bin":
        op = t[1]
        x = _ev(t[2], env)
        y = _ev(t[3], env)
        if op == "+":
            r = x + y
        elif op == "-":
            r = x - y
        elif op == "*":
            r = x * y
        elif op == "//":
            r = x // y
        elif op == "%":
            r = x % y
        else:
            return _pow(x, y)
        if _bits(r) > MAX_BITS:
            raise Undecided("too big")
        return r
    if k == "un":
        x = _ev(t[2], env)
        return -x if t[1] == "-" else +x
    if k == "call":
        args = [_ev(x, env) for x in t[2]]
        f = t[1]
        if f == "abs":
            return abs(args[0])
        if f == "min":
            return min(args)
        if f == "max":
            return max(args)
        if f == "int":
            return math.trunc(args[0])
        raise ValueError(f)
    if k == "cmp":
        left = _ev(t[2][0], env)
        for op, x in zip(t[1], t[2][1:]):
            right = _ev(x, env)            # Python evaluates the next operand only if the chain is still true
            if not _cmp(op, left, right):
                return False
            left = right
        return True
    if k == "if":
        return _ev(t[2], env) if _ev(t[1], env) else _ev(t[3], env)
    raise ValueError(t)


UNDECIDED = ("undecided",)


def evaluate(t, env) -> tuple:
    """("val", v) | ("exc", class name) | UNDECIDED."""
    try:
        return ("val", _ev(t, env))
    except Undecided:
        return UNDECIDED
    except (ZeroDivisionError, OverflowError, TypeError, ValueError) as exc:
        return ("exc", type(exc).__name__)


def values(t) -> tuple:
    return tuple(evaluate(t, env) for env in ASSIGNMENTS)


def first_difference(va: tuple, vb: tuple):
    """Index of the first assignment on which both are decided and differ, else None. Also returns the number
    of assignments on which both were decided."""
    decided = 0
    first = None
    for i, (x, y) in enumerate(zip(va, vb)):
        if x == UNDECIDED or y == UNDECIDED:
            continue
        decided += 1
        if first is None and x != y:
            first = i
    return first, decided


def show_value(v) -> str:
    if v == UNDECIDED:
        return "undecided"
    if v[0] == "exc":
        return "raises " + v[1]
    return str(v[1])


def show_env(env) -> dict:
    return {k: str(v) for k, v in env.items()}


# ------------------------------------------------------------------ + / * chains
def _flatten(t, op, out):
    if t[0] == "bin" and t[1] == op:
        _flatten(t[2], op, out)
        _flatten(t[3], op, out)
    else:
        out.append(t)


def _shape(t, op):
    """Shape of the chain as a nested pair structure with None at term positions."""
    if t[0] == "bin" and t[1] == op:
        return (_shape(t[2], op), _shape(t[3], op))
    return None


def _all_shapes(k: int):
    if k == 1:
        return [None]
    out = []
    for i in range(1, k):
        for l in _all_shapes(i):
            for r in _all_shapes(k - i):
                out.append((l, r))
    return out


def _build(shape, terms: list, op):
    it = iter(terms)

    def rec(s):
        if s is None:
            return next(it)
        l = rec(s[0])
        r = rec(s[1])
        return ("bin", op, l, r)

    return rec(shape)


def maximal_chains(t):
    """[(path, op, terms, shape)] for every maximal + chain and * chain (>= 2 terms)."""
    out = []

    def rec(node, path, parent_op):
        if node[0] == "bin" and node[1] in COMMUTATIVE and node[1] != parent_op:
            terms: list = []
            _flatten(node, node[1], terms)
            out.append((path, node[1], terms, _shape(node, node[1])))
        pop = node[1] if (node[0] == "bin" and node[1] in COMMUTATIVE) else None
        for i, c in enumerate(children(node)):
            rec(c, path + (i,), pop)

    rec(t, (), None)
    return out


def chain_variants(t, rng, cap: int):
    """[(kind, op, variant_tree, same_order_tree)] for the maximal chains of ``t``.

    kind: "reorder" (operand permutation, original tree shape), "reassoc" (original order, other shape),
    "mixed" (both; ``same_order_tree`` is the original order in the variant's shape, so that a failure can be
    attributed deterministically). All variants of a chain are produced when their number is <= cap, otherwise a
    seeded sample of the pure ones and of the mixed ones. Returns (list, complete).
    """
    out = []
    complete = True
    for path, op, terms, shape in maximal_chains(t):
        k = len(terms)
        ident = tuple(range(k))
        perms = [p for p in itertools.permutations(range(k)) if p != ident] if k <= 6 else []
        if k > 6:
            complete = False
            perms = []
            seen = set()
            for _ in range(cap):
                p = list(range(k))
                rng.shuffle(p)
                if tuple(p) != ident and tuple(p) not in seen:
                    seen.add(tuple(p))
                    perms.append(tuple(p))
        shapes = [s for s in _all_shapes(k) if s != shape] if k <= 6 else [s for s in _left_right_shapes(k) if s != shape]
        if k > 6:
            complete = False
        total = len(perms) + len(shapes) + len(perms) * len(shapes)
        seen_trees = {t}
        todo = []
        for p in perms:
            todo.append(("reorder", p, shape))
        for s in shapes:
            todo.append(("reassoc", ident, s))
        mixed = [("mixed", p, s) for p in perms for s in shapes]
        if total > cap:
            complete = False
            rng.shuffle(todo)
            todo = todo[: max(2, cap // 2)]
            rng.shuffle(mixed)
            mixed = mixed[: max(0, cap - len(todo))]
        todo += mixed
        for kind, p, s in todo:
            sub = _build(s, [terms[i] for i in p], op)
            v = replace_at(t, path, sub)
            if v in seen_trees:
                continue
            seen_trees.add(v)
            same_order = replace_at(t, path, _build(s, terms, op)) if kind == "mixed" else None
            out.append((kind, op, v, same_order))
    return out, complete


def _left_right_shapes(k):
    def left(n):
        s = None
        for _ in range(n - 1):
            s = (s, None)
        return s

    def right(n):
        s = None
        for _ in range(n - 1):
            s = (None, s)
        return s

    def balanced(n):
        if n == 1:
            return None
        return (balanced(n // 2), balanced(n - n // 2))

    return [left(k), right(k), balanced(k)]


# ------------------------------------------------------------------ single-point mutations
def mutants(t):
    """Yield (kind, mutant_tree). One node changed per mutant."""
    for path, s in paths(t):
        k = s[0]
        if k == "c":
            for c in CONSTS:
                if c != s[1]:
                    yield "constant_changed", replace_at(t, path, ("c", c))
            if s[1] > 2 ** 52:
                yield "constant_changed", replace_at(t, path, ("c", s[1] + 1))
                yield "constant_changed", replace_at(t, path, ("c", s[1] - 1))
        elif k == "v":
            for v in VARS:
                if v != s[1]:
                    yield "variable_changed", replace_at(t, path, ("v", v))
        elif k == "bin":
            op = s[1]
            if op not in COMMUTATIVE and s[2] != s[3]:
                yield "operands_swapped_" + OPNAME[op], replace_at(t, path, ("bin", op, s[3], s[2]))
            for o2 in ARITH + ("**",):
                if o2 != op:
                    yield "operator_changed", replace_at(t, path, ("bin", o2, s[2], s[3]))
        elif k == "un":
            yield "unary_minus_dropped" if s[1] == "-" else "unary_plus_dropped", replace_at(t, path, s[2])
            yield "unary_operator_changed", replace_at(t, path, ("un", "+" if s[1] == "-" else "-", s[2]))
        elif k == "call":
            f = s[1]
            if f == "min":
                yield "function_changed", replace_at(t, path, ("call", "max", s[2]))
            elif f == "max":
                yield "function_changed", replace_at(t, path, ("call", "min", s[2]))
            elif f == "abs":
                yield "function_changed", replace_at(t, path, ("call", "int", s[2]))
        elif k == "cmp":
            ops, xs = s[1], s[2]
            rev = tuple(reversed(xs))
            if rev != xs:
                yield "operands_swapped_Compare", replace_at(t, path, ("cmp", ops, rev))
            for i, op in enumerate(ops):
                for o2 in CMPS:
                    if o2 != op:
                        yield "comparison_changed", replace_at(t, path, ("cmp", ops[:i] + (o2,) + ops[i + 1:], xs))
        elif k == "if":
            if s[2] != s[3]:
                yield "ifelse_branches_swapped", replace_at(t, path, ("if", s[1], s[3], s[2]))


# ------------------------------------------------------------------ structural difference classifier
def classify_diff(x, y) -> str:
    """Name the structural difference between two different trees (deterministic; small closed vocabulary)."""
    if x == y:
        return "identical"
    kx, ky = x[0], y[0]
    if kx in ("v", "c") and ky in ("v", "c"):
        if kx == ky == "c":
            return "constant_differs"
        if kx == ky == "v":
            return "different_variable"
        return "variable_vs_constant"
    if kx == "un" and x[1] == "-" and x[2] == y or ky == "un" and y[1] == "-" and y[2] == x:
        return "unary_minus_dropped"
    if kx == ky:
        cx, cy = children(x), children(y)
        if kx == "bin" and x[1] != y[1]:
            if cx == cy:
                return "different_operator"
        elif kx == "un" and x[1] != y[1]:
            if cx == cy:
                return "different_unary_operator"
        elif kx == "call" and x[1] != y[1]:
            if cx == cy:
                return "different_function"
        elif kx == "cmp" and x[1] != y[1]:
            if cx == cy:
                return "different_comparison"
        elif len(cx) == len(cy):
            differing = [i for i in range(len(cx)) if cx[i] != cy[i]]
            if len(differing) == 1:
                return classify_diff(cx[differing[0]], cy[differing[0]])
            if kx == "bin" and cx == tuple(reversed(cy)):
                pre = "commutative" if x[1] in COMMUTATIVE else "noncommutative"
                return "%s_operands_swapped_%s" % (pre, OPNAME[x[1]])
            if kx == "cmp" and cx == tuple(reversed(cy)):
                return "noncommutative_operands_swapped_Compare"
            if kx == "call" and cx == tuple(reversed(cy)):
                return "call_arguments_swapped"
            if kx == "if" and cx[0] == cy[0] and cx[1] == cy[2] and cx[2] == cy[1]:
                return "ifelse_branches_swapped"
    # no single point of difference: compare the material the two trees are made of
    lx, ly = leaves(x), leaves(y)
    ox, oy = operators(x), operators(y)
    binops = {o for o in list(ox) + list(oy) if o in OPNAME.values()}
    if lx == ly:
        if ox == oy:
            if binops and binops <= {"Add", "Mult"} and len(binops) == 2:
                return "flatten_across_operators"
            nonassoc = sorted(binops - {"Add", "Mult"})
            if nonassoc:
                return "regrouped_across_" + "_".join(nonassoc)
            return "regrouped_same_leaves_and_operators"
        only_x = +(ox - oy)
        only_y = +(oy - ox)
        changed = set(only_x) | set(only_y)
        if changed <= {"Add", "Mult"}:
            return "flatten_across_operators"
        if changed <= {"U-", "U+"}:
            return "unary_operators_differ"
        return "operators_differ_same_leaves"
    if ox == oy:
        cl = {k[0] for k in (+(lx - ly))} | {k[0] for k in (+(ly - lx))}
        if cl == {"c"}:
            return "constant_differs"
        if cl == {"v"}:
            return "different_variable"
        return "leaves_differ"
    return "structural_difference"
