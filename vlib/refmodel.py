"""Independent reference semantics, written from docs/source/*.rst and the property statements.

Shares no code with semantiva.  Data values are plain Python: the string "NoData", a float, or a list
of floats (collection).  Contexts are plain dicts.  Configurations are the same JSON-able node dicts the
loader accepts (string processor names, shorthands, ``derive.parameter_sweep`` blocks).
"""
from __future__ import annotations

import itertools
import math
import re
from dataclasses import dataclass, field
from typing import Any, Callable, Optional

REQ = object()  # "no default"
NODATA = "NoData"


def type_of(d: Any) -> str:
    if isinstance(d, str) and d == NODATA:
        return "NoData"
    if isinstance(d, list):
        return "Coll"
    if isinstance(d, (int, float)) and not isinstance(d, bool):
        return "Float"
    return "Other"


def accepts(in_type: str, d: Any) -> bool:
    return in_type == "Any" or type_of(d) == in_type


class ModelProcessorError(Exception):
    """Wraps an exception the leaf logic raises (processor error)."""

    def __init__(self, exc_name: str, incidental: bool = True):
        super().__init__(exc_name)
        self.exc_name = exc_name
        self.incidental = incidental


class UndeclaredWrite(Exception):
    pass


@dataclass
class Comp:
    name: str
    kind: str  # source | psource | op | probe | ctx | sink
    in_type: str
    out_type: Optional[str]
    params: list  # [(name, default|REQ)]
    fn: Callable  # (data, ctxw, **params) -> result ; ctxw(key, value) writes context
    recorded: bool = True
    created: tuple = ()  # context keys the processor itself declares
    suppressed: tuple = ()
    fault: Optional[str] = None
    updates: tuple = ()  # keys inside the processor's write whitelist that it does NOT declare as created (rewrites of existing keys)


def _req_float(x):
    if not isinstance(x, float):
        raise AssertionError("Value must be a float")
    return x


def _boom(d, w, fuse=1.0):
    if fuse >= 1.0:
        raise ModelProcessorError("VBoomError", incidental=False)
    return d


def _abort(d, w):
    raise ModelProcessorError("VAbort", incidental=False)


def _badwrite(d, w):
    raise UndeclaredWrite()


def _bad_psrc(d, w, seed=5.0):
    w("ps_key", float(seed) * 2)
    w("undeclared_key", 1.0)          # not among the declared injected keys -> UndeclaredWrite
    return float(seed)


def _write_then_boom(d, w, addend=1.0):
    w("note", d + addend)
    raise ModelProcessorError("VBoomError", incidental=False)


def _ctx_write_then_boom(d, w, base=1.5):
    w("scaled", base * 2)
    raise ModelProcessorError("VBoomError", incidental=False)


def _hooked(d, w, hk_scale=2.0):
    w("hooked", hk_scale * 10)
    return None


# components that advertise the legacy get_required_keys() hook (the SER pre-check lists these keys as expected)
HOOK_REQUIRED = {"VHookedCtx": ["hk_scale"]}


def _tally(d, w, tally=0.0):
    w("note", d)
    w("tally", tally + 1.0)
    return d + 1.0


def _remember(d, w, weights):
    w("weights", list(weights) + [d])
    return d


def _makeiter(d, w, n=3):
    w("items", [float(i) + 0.5 for i in range(int(n))])      # the real component publishes a one-shot generator of these
    return None


def _itersum(d, w, items):
    items = list(items)
    w("iter_total", [float(sum(items)), len(items)])
    return None


def _addnote(d, w, addend=1.0):
    out = d + addend
    w("note", out)
    return out


def _psrc(d, w, seed=5.0):
    w("ps_key", float(seed) * 2)
    return float(seed)


def _ctxscale(d, w, base, k=3.0):
    w("scaled", base * k)
    return None


class _FloatTypeName(str):
    """'float' or numpy's 'float64': which one is a representation detail, not semantics."""

    def __eq__(self, other):
        return other in ("float", "float64")

    def __ne__(self, other):
        return not self.__eq__(other)

    __hash__ = str.__hash__


def _basic_probe(d, w):
    return {"value": d, "type": _FloatTypeName("float"), "is_positive": d > 0, "abs_value": abs(d)}


def _sum_float(d):
    s = sum(d)
    if not isinstance(s, float):
        raise TypeError("Data must be a float")
    return s


# The model's image of a data *object* (FloatDataType / FloatDataCollection / NoDataType instance) that a probe
# stored in the context (CopyDataProbe).  It compares, hashes and serialises like the plain value, so results and
# contexts are compared as usual; but what a leaf component, a template or a sweep does when such an object is
# handed to it as a *parameter* (``float(obj)``, ``str(obj)``, ``obj * 2``) is a property of the data-type classes,
# not of the pipeline semantics: run_pipeline records a don't-care when one is consumed.
class DataObjFloat(float):
    pass


class DataObjList(list):
    pass


class DataObjStr(str):
    pass


def as_data_object(d):
    if isinstance(d, bool):
        return d
    if isinstance(d, float):
        return DataObjFloat(d)
    if isinstance(d, list):
        return DataObjList(d)
    if isinstance(d, str):
        return DataObjStr(d)
    return d


def is_data_object(v) -> bool:
    return isinstance(v, (DataObjFloat, DataObjList, DataObjStr))


def _filesink(d, w, path):
    import os as _os

    if not isinstance(path, str):
        raise TypeError("path must be a string")
    if not _os.path.isdir(_os.path.dirname(path) or "."):
        raise FileNotFoundError(path)   # the sink appends to a file, it does not create directories
    return None


def _exit_or_pass(d, fuse):
    if fuse >= 1.0:
        raise ModelProcessorError("SystemExit", incidental=False)
    return d


def _raise_odd(kind):
    raise ModelProcessorError({"unicode_decode": "UnicodeDecodeError", "unicode_encode": "UnicodeEncodeError",
                               "exception_group": "ExceptionGroup", "os_error": "FileNotFoundError",
                               "key_error_tuple": "KeyError", "stop_iteration": "StopIteration",
                               "empty_message": "ValueError", "two_arg_custom": "VTwoArgError", "wraps_exception": "RuntimeError",
                               "key_error_frozenset": "KeyError", "value_error_bytes": "ValueError"}.get(kind, "ZeroDivisionError"), incidental=False)


COMPONENTS: dict[str, Comp] = {}


def _c(*a, **k):
    c = Comp(*a, **k)
    COMPONENTS[c.name] = c


# sources
_c("VSrc", "source", "NoData", "Float", [("value", REQ)], lambda d, w, value: float(value))
_c("VSrcDefault", "source", "NoData", "Float", [("value", 42.0)], lambda d, w, value=42.0: float(value))
_c("VCollSrc", "source", "NoData", "Coll", [("n", 3), ("start", 1.0)],
   lambda d, w, n=3, start=1.0: [float(start) + i for i in range(int(n))])
_c("FloatDataSource", "source", "NoData", "Float", [], lambda d, w: 123.0, recorded=False)
_c("FloatValueDataSource", "source", "NoData", "Float", [("value", REQ)], lambda d, w, value: _req_float(value), recorded=False)
_c("VPayloadSrc", "psource", "NoData", "Float", [("seed", 5.0)], _psrc, created=("ps_key",))
# operations
_c("VMul", "op", "Float", "Float", [("factor", REQ)], lambda d, w, factor: d * factor)
_c("VMulDefault", "op", "Float", "Float", [("factor", 2.0)], lambda d, w, factor=2.0: d * factor)
_c("VAdd", "op", "Float", "Float", [("addend", REQ)], lambda d, w, addend: d + addend)
_c("VAddDefault", "op", "Float", "Float", [("addend", 1.0)], lambda d, w, addend=1.0: d + addend)
_c("VAffine", "op", "Float", "Float", [("a", REQ), ("b", 0.5)], lambda d, w, a, b=0.5: a * d + b)
_c("VMemoMul", "op", "Float", "Float", [("factor", REQ)], lambda d, w, factor: d * factor)
_c("VInPlaceMul", "op", "Float", "Float", [("factor", 2.0)], lambda d, w, factor=2.0: d * factor)
_c("VCollBumpLast", "op", "Coll", "Coll", [], lambda d, w: (list(d[:-1]) + [d[-1] + 1.0]) if d else [])
_c("VPoly", "op", "Float", "Float", [("p", REQ), ("q", REQ), ("r", REQ), ("s", 0.0)], lambda d, w, p, q, r, s=0.0: p * d + q + r + s)
_c("VAddNote", "op", "Float", "Float", [("addend", 1.0)], _addnote, created=("note",))
_c("VCtxMakeIter", "ctx", "Any", None, [("n", 3)], _makeiter, created=("items",))
_c("VCtxIterSum", "ctx", "Any", None, [("items", REQ)], _itersum, created=("iter_total",))
_c("VWeightedScale", "op", "Float", "Float", [("weights", REQ), ("offset", 0.0)], lambda d, w, weights, offset=0.0: d * float(sum(weights)) + offset)
_c("VRemember", "op", "Float", "Float", [("weights", REQ)], _remember, created=("weights",))
_c("VTally", "op", "Float", "Float", [("tally", 0.0)], _tally, created=("note",), updates=("tally",))
_c("VCollSum", "op", "Coll", "Float", [("offset", 0.0)], lambda d, w, offset=0.0: float(sum(d)) + offset)
_c("FloatSquareOperation", "op", "Float", "Float", [], lambda d, w: d ** 2, recorded=False)
_c("FloatMultiplyOperation", "op", "Float", "Float", [("factor", REQ)], lambda d, w, factor: d * factor, recorded=False)
_c("FloatCollectionSumOperation", "op", "Coll", "Float", [], lambda d, w: _sum_float(d), recorded=False)
_c("DataDump", "op", "Any", "NoData", [], lambda d, w: NODATA, recorded=False)
# probes
_c("VValueProbe", "probe", "Float", None, [], lambda d, w: d)
_c("VScaledProbe", "probe", "Float", None, [("scale", 1.0)], lambda d, w, scale=1.0: d * scale)
_c("VMemoScaledProbe", "probe", "Float", None, [("scale", 1.0)], lambda d, w, scale=1.0: d * scale)
_c("VOffsetProbe", "probe", "Float", None, [("offset", REQ)], lambda d, w, offset: d + offset)
_c("VTagProbe", "probe", "Float", None, [("tag", "t")], lambda d, w, tag="t": f"{d}:{tag}")
_c("VNoneProbe", "probe", "Float", None, [], lambda d, w: None)
_c("FloatBasicProbe", "probe", "Float", None, [], _basic_probe, recorded=False)
_c("FloatCollectValueProbe", "probe", "Float", None, [], lambda d, w: d, recorded=False)
_c("CopyDataProbe", "probe", "Any", None, [], lambda d, w: as_data_object(d), recorded=False)
# context processors
_c("VCtxScale", "ctx", "Any", None, [("base", REQ), ("k", 3.0)], _ctxscale, created=("scaled",))
_c("VCtxMeta", "ctx", "Any", None, [("vmeta", None)], lambda d, w, vmeta=None: None)
_c("VCtxBumpLast", "ctx", "Any", None, [("long_seq", REQ)], lambda d, w, long_seq: w("long_seq", list(long_seq[:-1]) + [long_seq[-1] + 1.0]), created=("long_seq",))
_c("VHookedCtx", "ctx", "Any", None, [("hk_scale", 2.0)], _hooked, created=("hooked",))
_c("VCtxWriteThenBoom", "ctx", "Any", None, [("base", 1.5)], _ctx_write_then_boom, created=("scaled",), fault="boom_after_write")
_c("VCtxBadWriter", "ctx", "Any", None, [], _badwrite, created=("declared_only",), fault="undeclared_write")
_c("VCtxBoom", "ctx", "Any", None, [("fuse", 1.0)], lambda d, w, fuse=1.0: _boom(d, w, fuse), fault="boom")
_c("VCtxInterrupt", "ctx", "Any", None, [], _abort, fault="abort")
# sinks
_c("VFileSink", "sink", "Float", "Float", [("path", REQ)], _filesink)
_c("VNullSink", "sink", "Float", "Float", [("tag", "t")], lambda d, w, tag="t": None)
_c("VSrcDefaultSeries", "source", "NoData", "Coll", [("value", 42.0), ("n", 2)], lambda d, w, value=42.0, n=2: [float(value) + i for i in range(int(n))])
_c("VNullSinkColl", "sink", "Coll", "Coll", [("tag", "t")], lambda d, w, tag="t": None)
# same-named classes of two un-registered harness modules, referenced in the qualified module:Class form
_c("vlib.components_extra:XSrcDefault", "source", "NoData", "Float", [("value", 7.0)], lambda d, w, value=7.0: float(value))
_c("vlib.components_extra2:XSrcDefault", "source", "NoData", "Float", [("value", 9.5)], lambda d, w, value=9.5: float(value))
_c("vlib.components_extra:XMulDefault", "op", "Float", "Float", [("factor", 3.0)], lambda d, w, factor=3.0: d * factor)
_c("vlib.components_extra2:XMulDefault", "op", "Float", "Float", [("factor", 4.0)], lambda d, w, factor=4.0: d * factor)
_c("VStore", "source", "NoData", "Float", [("value", 6.0)], lambda d, w, value=6.0: float(value))
_c("VNoDocSrc", "source", "NoData", "Float", [("value", 3.0)], lambda d, w, value=3.0: float(value))
_c("VNoDocSink", "sink", "Float", "Float", [("tag", "t")], lambda d, w, tag="t": None)
_c("VNoDocProbe", "probe", "Float", None, [("scale", 1.0)], lambda d, w, scale=1.0: d * scale)
_c("VNoDocOp", "op", "Float", "Float", [("factor", 2.0)], lambda d, w, factor=2.0: d * factor)
_c("VLedgerSink", "sink", "Float", "Float", [("tag", "t")], lambda d, w, tag="t": None)
_c("VReplaySrc", "source", "NoData", "Float", [("value", 7.0)], lambda d, w, value=7.0: float(value))
_c("FloatDataSink", "sink", "Float", "Float", [], lambda d, w: None, recorded=False)
_c("FloatTxtFileSaver", "sink", "Float", "Float", [("path", REQ)], lambda d, w, path: None, recorded=False)
# faults
_c("VBadWriter", "op", "Float", "Float", [], _badwrite, created=("declared_only",), fault="undeclared_write")
_c("VBoom", "op", "Float", "Float", [("fuse", 1.0)], _boom, fault="boom")
_c("VRaise", "op", "Float", "Float", [("exc", "zero_division")], lambda d, w, exc="zero_division": _raise_odd(exc), fault="raise")
_c("VNestedRun", "op", "Float", "Float", [("weight", 1.0)], lambda d, w, weight=1.0: d + weight * 84.0)
_c("VBoomExit", "op", "Float", "Float", [("fuse", 1.0)], lambda d, w, fuse=1.0: _exit_or_pass(d, fuse), fault="exit")
_c("VInterrupt", "op", "Float", "Float", [], _abort, fault="abort")
_c("VWriteThenBoom", "op", "Float", "Float", [("addend", 1.0)], _write_then_boom, created=("note",), fault="boom_after_write")
_c("VBadPayloadSrc", "psource", "NoData", "Float", [("seed", 5.0)], _bad_psrc, created=("ps_key",), fault="undeclared_write")
_c("VBadType", "op", "Float", "Float", [], lambda d, w: [d], fault="badtype")

_RE_RENAME = re.compile(r"^rename:(.+?):(.+)$")
_RE_DELETE = re.compile(r"^delete:(.+)$")
_RE_TEMPLATE = re.compile(r"^template:(\"|')(.*?)\1:([A-Za-z_][A-Za-z0-9_.]*)$")
_RE_SLICE = re.compile(r"^slice:([A-Za-z_][A-Za-z0-9_]*):([A-Za-z_][A-Za-z0-9_]*)$")
_RE_PLACEHOLDER = re.compile(r"\{([A-Za-z_][A-Za-z0-9_]*)\}")


@dataclass
class NodeModel:
    """Static description of one configured node."""
    index: int
    role: str  # source | psource | op | probe | ctx | sink
    label: str
    in_type: str
    out_type: Optional[str]  # None => passes data through
    params: list  # [(name, default|REQ)] the node resolves (config > context > default)
    config: dict
    created: list  # keys the node may create
    suppressed: list
    context_key: Optional[str] = None
    construction_error: Optional[str] = None  # unknown_param | probe_without_key | context_key_on_op | unknown_processor
    unknown_params: list = field(default_factory=list)
    comp: Optional[Comp] = None
    slicer: bool = False
    sweep: Optional[dict] = None
    shorthand: Optional[tuple] = None  # ("rename", src, dst) | ("delete", key) | ("template", tpl, out, names)
    recorded: bool = True


class ConfigRejected(Exception):
    """The loader / Pipeline constructor is documented to reject this configuration."""


def describe_node(index: int, node: dict) -> NodeModel:
    proc = node.get("processor")
    config = dict(node.get("parameters") or {})
    ckey = node.get("context_key")
    derive = node.get("derive") or {}
    sweep = derive.get("parameter_sweep") if isinstance(derive, dict) else None
    if not isinstance(proc, str):
        raise ConfigRejected("processor must be a string in the reference model")
    m = _RE_RENAME.match(proc)
    if m:
        src, dst = m.group(1), m.group(2)
        return NodeModel(index, "ctx", proc, "Any", None, [(src, REQ)], config, [dst], [src], shorthand=("rename", src, dst), recorded=False)
    m = _RE_DELETE.match(proc)
    if m:
        key = m.group(1)
        return NodeModel(index, "ctx", proc, "Any", None, [(key, REQ)], config, [], [key], shorthand=("delete", key), recorded=False)
    m = _RE_TEMPLATE.match(proc)
    if m:
        tpl, out = m.group(2), m.group(3)
        names = []
        for n in _RE_PLACEHOLDER.findall(tpl):
            if n not in names:
                names.append(n)
        return NodeModel(index, "ctx", proc, "Any", None, [(n, REQ) for n in names], config, [out], [], shorthand=("template", tpl, out, names), recorded=False)
    slicer = False
    m = _RE_SLICE.match(proc)
    if m:
        slicer = True
        proc_name = m.group(1)
    else:
        proc_name = proc
    comp = COMPONENTS.get(proc_name)
    if comp is None:
        nm = NodeModel(index, "op", proc, "Any", None, [], config, [], [])
        nm.construction_error = "unknown_processor"
        return nm
    role = comp.kind
    nm = NodeModel(index, role, proc, comp.in_type, comp.out_type, list(comp.params), config,
                   list(comp.created), list(comp.suppressed), comp=comp, slicer=slicer, recorded=comp.recorded)
    if slicer:
        nm.in_type = "Coll"
        nm.out_type = "Coll" if role == "op" else None
    if sweep is not None:
        _describe_sweep(nm, sweep)
    if role == "probe":
        if not (isinstance(ckey, str) and ckey.strip()):
            nm.construction_error = "probe_without_key"
        else:
            nm.context_key = ckey
            nm.created = list(nm.created) + [ckey]
        nm.out_type = None
    elif ckey is not None and role == "op":
        nm.construction_error = "context_key_on_op"
    if role == "sink":
        nm.out_type = None
    if role == "ctx":
        nm.out_type = None
    known = {n for n, _ in nm.params}
    if nm.sweep is None:
        unknown = [k for k in config if k not in known]
        if unknown and nm.construction_error is None:
            nm.construction_error = "unknown_param"
            nm.unknown_params = unknown
    return nm


# --------------------------------------------------------------------------- sweeps
def linspace(lo, hi, steps, endpoint=True):
    if steps == 1:
        return [float(lo)]
    div = (steps - 1) if endpoint else steps
    return [float(lo) + i * (float(hi) - float(lo)) / div for i in range(steps)]


def logspace(lo, hi, steps, endpoint=True):
    llo, lhi = math.log10(lo), math.log10(hi)
    return [10.0 ** e for e in linspace(llo, lhi, steps, endpoint)]


def var_sequence(spec, resolved: dict):
    """Materialise one sweep variable. Returns list or raises ModelProcessorError."""
    if isinstance(spec, list):
        return list(spec)
    if "from_context" in spec:
        v = resolved[spec["from_context"]]
        if isinstance(v, (str, bytes)) or not isinstance(v, (list, tuple)):
            raise ModelProcessorError("TypeError", incidental=False)
        if len(v) == 0:
            raise ModelProcessorError("ValueError", incidental=False)
        return list(v)
    if "values" in spec:
        return list(spec["values"])
    lo, hi, steps = float(spec["lo"]), float(spec["hi"]), int(spec["steps"])
    if spec.get("scale", "linear") == "log":
        return logspace(lo, hi, steps, spec.get("endpoint", True))
    return linspace(lo, hi, steps, spec.get("endpoint", True))


def sweep_steps(seqs: dict, mode: str, broadcast: bool):
    """Ordered list of {var: value} per step (documented order)."""
    if mode == "by_position":
        lens = [len(s) for s in seqs.values()]
        if broadcast:
            n = max(lens)
            return [{v: s[i % len(s)] for v, s in seqs.items()} for i in range(n)]
        if len(set(lens)) != 1:
            raise ModelProcessorError("ValueError", incidental=False)
        return [{v: s[i] for v, s in seqs.items()} for i in range(lens[0])]
    names = sorted(seqs)
    return [dict(zip(names, combo)) for combo in itertools.product(*[seqs[n] for n in names])]


_SAFE_ENV = {"abs": abs, "min": min, "max": max, "round": round, "float": float, "int": int, "str": str, "bool": bool}


def eval_expr(src: str, env: dict):
    return eval(compile(src, "<model-expr>", "eval"), {"__builtins__": {}, **_SAFE_ENV}, dict(env))


def _describe_sweep(nm: NodeModel, sweep: dict) -> None:
    comp = nm.comp
    if comp.kind not in ("source", "op", "probe") or nm.slicer:
        raise ConfigRejected("sweep over unsupported kind")
    exprs = dict(sweep.get("parameters") or {})
    variables = sweep.get("variables")
    if not isinstance(variables, dict) or not variables:
        raise ConfigRejected("variables must be non-empty mapping")
    allowed = {n for n, _ in comp.params}
    if set(exprs) - allowed:
        raise ConfigRejected("expression targets unknown parameter")
    coll = sweep.get("collection")
    if comp.kind == "probe" and coll is not None:
        raise ConfigRejected("probe sweep with collection")
    if comp.kind != "probe" and not coll:
        raise ConfigRejected("collection required")
    mode = sweep.get("mode", "combinatorial")
    if mode not in ("combinatorial", "by_position"):
        raise ConfigRejected("bad mode")
    from_ctx = [s["from_context"] for s in variables.values() if isinstance(s, dict) and "from_context" in s]
    if len(set(from_ctx)) != len(from_ctx):
        raise ConfigRejected("two sweep variables read the same context key (rejected by the loader)")
    required = [(n, d) for n, d in comp.params if n not in exprs and d is REQ]
    optional = [(n, d) for n, d in comp.params if n not in exprs and d is not REQ]
    if set(from_ctx) & {n for n, _ in required + optional}:
        raise ConfigRejected("a from_context key equals an unbound parameter name of the element (rejected by the loader)")
    nm.params = [(k, REQ) for k in from_ctx] + required + optional
    nm.sweep = {"exprs": exprs, "variables": variables, "mode": mode,
                "broadcast": bool(sweep.get("broadcast", False)), "from_ctx": from_ctx}
    nm.created = [f"{v}_values" for v in variables] + (list(comp.created) if comp.kind != "source" else [])
    if comp.kind != "probe":
        nm.out_type = "Coll"
    nm.label = f"sweep({nm.label})"


def expand_sweep(nm: NodeModel, resolved: dict):
    """-> (steps:[{param: value}] merged call parameters per step, created:{<var>_values: list})."""
    sw = nm.sweep
    seqs, created = {}, {}
    for var, spec in sw["variables"].items():
        s = var_sequence(spec, resolved)
        seqs[var] = s
        created[f"{var}_values"] = s
    elem_params = {p for p, _ in nm.comp.params}
    base = {n: v for n, v in resolved.items() if n in elem_params and n not in sw["exprs"] and n not in sw["from_ctx"]}
    steps = []
    for assignment in sweep_steps(seqs, sw["mode"], sw["broadcast"]):
        outs = {}
        for p, src in sw["exprs"].items():
            try:
                outs[p] = eval_expr(src, assignment)
            except Exception as exc:  # evaluation error = processor error at this node
                raise ModelProcessorError(type(exc).__name__, incidental=True)
        call = dict(base)
        call.update(outs)
        steps.append(call)
    return steps, created


# --------------------------------------------------------------------------- execution
@dataclass
class NodeTrace:
    index: int
    label: str
    ctx_before: dict
    ctx_after: Optional[dict] = None
    data_in: Any = None
    data_out: Any = None
    params: dict = field(default_factory=dict)      # name -> resolved value
    origins: dict = field(default_factory=dict)     # name -> ("config"|"default"|"context", producer index | "initial" | None)
    failed: Optional[str] = None
    leaf_range: tuple = (0, 0)      # indices into Result.leaves produced by this node


@dataclass
class Result:
    ok: bool
    data: Any = None
    ctx: Optional[dict] = None
    fail_index: Optional[int] = None
    fail_kind: Optional[str] = None   # unresolvable_param | type_gate | undeclared_write | key_conflict | processor_error | construction
    fail_detail: Optional[str] = None  # exception class name / construction sub-kind
    incidental: bool = False
    leaves: list = field(default_factory=list)   # [(cls, data, kwargs)] for recorded components only
    nodes: list = field(default_factory=list)    # NodeTrace per executed node
    models: list = field(default_factory=list)   # NodeModel per node
    dontcare: list = field(default_factory=list)  # documented ambiguities hit
    unrecorded_leaf: bool = False


EXPECTED_EXC = {
    "unresolvable_param": ("KeyError",),
    "type_gate": ("TypeError",),
    "undeclared_write": ("KeyError",),
    "key_conflict": ("KeyError",),
}
FLOW_KINDS = {"unresolvable_param", "type_gate", "construction"}


def describe(nodes: list) -> list:
    return [describe_node(i, n) for i, n in enumerate(nodes)]


def run_pipeline(nodes: list, data: Any = NODATA, ctx: Optional[dict] = None, *,
                 absent_delete: str = "fail", probe_sweep_publishes: bool = True,
                 upto: Optional[int] = None) -> Result:
    """Apply the documented node semantics in declaration order."""
    ctx = dict(ctx or {})
    models = describe(nodes)
    res = Result(ok=True, models=models)
    # all nodes are constructed before any node runs: a construction fault runs nothing
    for nm in models:
        if nm.construction_error:
            res.ok = False
            res.fail_index, res.fail_kind, res.fail_detail = nm.index, "construction", nm.construction_error
            return res
    producer: dict[str, Any] = {k: "initial" for k in ctx}
    for nm in models[: upto if upto is not None else len(models)]:
        nt = NodeTrace(nm.index, nm.label, dict(ctx), data_in=data)
        res.nodes.append(nt)
        _leaf0 = len(res.leaves)

        def fail(kind, detail=None, incidental=False):
            res.ok = False
            res.fail_index, res.fail_kind, res.fail_detail, res.incidental = nm.index, kind, detail, incidental
            nt.failed = kind
            nt.ctx_after = dict(ctx)
            res.data, res.ctx = data, dict(ctx)
            return res

        # context processors have no data-type gate; data nodes gate before parameters are resolved
        if nm.role != "ctx" and not accepts(nm.in_type, data):
            return fail("type_gate", "TypeError")
        resolved = {}
        for name, default in nm.params:
            if name in nm.config:
                resolved[name] = nt.params[name] = nm.config[name]
                nt.origins[name] = ("config", None)
            elif name in ctx:
                resolved[name] = nt.params[name] = ctx[name]
                nt.origins[name] = ("context", producer.get(name))
            elif default is not REQ:
                resolved[name] = nt.params[name] = default
                nt.origins[name] = ("default", None)
            else:
                if nm.shorthand and nm.shorthand[0] == "delete":  # "if the key is present ... it is removed"
                    res.dontcare.append(("absent_key", nm.index))
                    if absent_delete == "noop":
                        resolved = None
                        break
                return fail("unresolvable_param", "KeyError")
        if resolved is None:
            nt.ctx_after = dict(ctx)
            nt.data_out = data
            continue
        nt.params = dict(resolved)
        if any(is_data_object(v) for v in resolved.values()):
            res.dontcare.append(("data_object_as_parameter", nm.index))
        if nm.comp is not None and nm.comp.name == "VInPlaceMul" and (nm.sweep is not None or any(is_data_object(v) for v in ctx.values())):
            # an in-place operation while a probe's copy of the data OBJECT sits in the context (aliasing), or inside a
            # sweep (all steps share one input object): not covered by the documented semantics
            res.dontcare.append(("data_object_as_parameter", nm.index))

        def writer(allowed):
            def w(key, value):
                if key not in allowed:
                    raise UndeclaredWrite()
                ctx[key] = value
                producer[key] = nm.index
            return w

        try:
            if nm.shorthand:
                kind = nm.shorthand[0]
                if kind in ("rename", "delete") and resolved.get(nm.shorthand[1]) is None:
                    res.dontcare.append(("none_valued_key", nm.index))   # documented nowhere: treated as "nothing to do"
                    out_data = data
                elif kind == "rename":
                    _, src, dst = nm.shorthand
                    ctx[dst] = resolved[src]
                    producer[dst] = nm.index
                    if src in ctx:
                        del ctx[src]
                        producer.pop(src, None)
                    else:  # source value came from node configuration and the key does not exist
                        return fail("processor_error", "KeyError", incidental=True)
                elif kind == "delete":
                    _, key = nm.shorthand
                    if key in ctx:
                        del ctx[key]
                        producer.pop(key, None)
                    else:
                        return fail("processor_error", "KeyError", incidental=True)
                else:
                    _, tpl, out, names = nm.shorthand
                    ctx[out] = tpl.format(**{n: str(resolved[n]) for n in names})
                    producer[out] = nm.index
                out_data = data
            elif nm.sweep is not None:
                steps, created = expand_sweep(nm, resolved)
                results = []
                w = writer(set(nm.comp.created))
                for call in steps:
                    if nm.recorded:
                        res.leaves.append((nm.comp.name, None if nm.role == "source" else data, dict(call)))
                    else:
                        res.unrecorded_leaf = True
                    results.append(nm.comp.fn(data, w, **call))
                if nm.role == "probe":
                    ctx[nm.context_key] = results
                    producer[nm.context_key] = nm.index
                    out_data = data
                    if probe_sweep_publishes:
                        for k, v in created.items():
                            if k != nm.context_key:
                                ctx[k] = v
                                producer[k] = nm.index
                else:
                    for r in results:
                        if type_of(r) != "Float":
                            raise ModelProcessorError("TypeError", incidental=True)
                    for k, v in created.items():
                        ctx[k] = v
                        producer[k] = nm.index
                    out_data = results
            else:
                comp = nm.comp
                w = writer(set(comp.created) | set(comp.updates))
                if nm.role == "psource":
                    local: dict = {}

                    def pw(key, value):
                        if key not in comp.created:
                            raise UndeclaredWrite()
                        local[key] = value
                    res.leaves.append((comp.name, None, dict(resolved)))
                    out_data = comp.fn(data, pw, **resolved)
                    for k, v in local.items():
                        if k in ctx:
                            return fail("key_conflict", "KeyError")
                        ctx[k] = v
                        producer[k] = nm.index
                elif nm.slicer:
                    outs = []
                    for item in data:
                        if nm.recorded:
                            res.leaves.append((comp.name, item, dict(resolved)))
                        else:
                            res.unrecorded_leaf = True
                        outs.append(comp.fn(item, w, **resolved))
                    if nm.role == "probe":
                        ctx[nm.context_key] = outs
                        producer[nm.context_key] = nm.index
                        out_data = data
                    else:
                        for r in outs:
                            if type_of(r) != "Float":
                                raise ModelProcessorError("TypeError", incidental=True)
                        out_data = outs
                else:
                    if nm.recorded:
                        res.leaves.append((comp.name, None if nm.role in ("source",) else (None if nm.role == "ctx" else data), dict(resolved)))
                    else:
                        res.unrecorded_leaf = True
                    r = comp.fn(data, w, **resolved)
                    if nm.role == "probe":
                        ctx[nm.context_key] = r
                        producer[nm.context_key] = nm.index
                        out_data = data
                    elif nm.role in ("sink", "ctx"):
                        out_data = data
                    else:
                        out_data = r
        except UndeclaredWrite:
            return fail("undeclared_write", "KeyError")
        except ModelProcessorError as mpe:
            return fail("processor_error", mpe.exc_name, incidental=mpe.incidental)
        except Exception as exc:  # arithmetic on odd values etc.: an incidental processor error
            return fail("processor_error", type(exc).__name__, incidental=True)
        data = out_data
        nt.data_out = data
        nt.ctx_after = dict(ctx)
        nt.leaf_range = (_leaf0, len(res.leaves))
    res.data, res.ctx = data, dict(ctx)
    return res


# --------------------------------------------------------------------------- static key flow
def key_flow(nodes: list) -> dict:
    """Order-sensitive static account: which context keys must come from the initial context.

    Returns {"required": sorted keys that an initial context must supply for parameters to resolve,
             "unsatisfiable": [(index, key)] keys required after having been deleted and not re-created,
             "per_node": [{"created": [...], "suppressed": [...], "origins": {param: (origin, producer)}}]}
    """
    models = describe(nodes)
    avail: dict[str, int] = {}
    deleted: set[str] = set()
    required: list[str] = []
    unsat = []
    per = []
    for nm in models:
        origins = {}
        for name, default in nm.params:
            if name in nm.config:
                origins[name] = ("config", None)
            elif name in avail:
                origins[name] = ("context", avail[name])
            elif name in deleted:
                if default is not REQ:
                    origins[name] = ("default", None)
                else:
                    unsat.append((nm.index, name))
                    origins[name] = ("missing", None)
            elif default is not REQ:
                origins[name] = ("default_or_initial", None)
            else:
                origins[name] = ("context", "initial")
                if name not in required:
                    required.append(name)
        for k in nm.suppressed:
            avail.pop(k, None)
            deleted.add(k)
        for k in nm.created:
            if nm.shorthand and nm.shorthand[0] == "rename" and nm.shorthand[1] == nm.shorthand[2]:
                continue  # rename:a:a writes then deletes the same key
            avail[k] = nm.index
            deleted.discard(k)
        per.append({"created": list(nm.created), "suppressed": list(nm.suppressed), "origins": origins})
    return {"required": sorted(required), "unsatisfiable": unsat, "per_node": per, "models": models}
