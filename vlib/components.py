"""Harness component library, built only on semantiva's public base classes.

Loaded through the normal extension mechanism (``extensions: ["vlib.components"]``; module-level
``register()``), so the CLI, YAML loader, inspection and job-queue paths see it like a user extension.

Every component is a *leaf flight-recorder*: it appends (class name, data value, kwargs actually
received) to the process-global, lock-protected ``REC`` log at the moment its leaf logic runs.
"""
from __future__ import annotations

import threading
from typing import Any, List

from semantiva.context_processors.context_processors import ContextProcessor
from semantiva.context_processors.context_types import ContextType
from semantiva.data_io import DataSink, DataSource, PayloadSink, PayloadSource
from semantiva.data_processors.data_processors import DataOperation, DataProbe
from semantiva.data_types import NoDataType
from semantiva.examples.test_utils import FloatDataCollection, FloatDataType
from semantiva.pipeline.payload import Payload


# --------------------------------------------------------------------------- recorder
class Recorder:
    def __init__(self) -> None:
        self._lock = threading.Lock()
        self._log: List[tuple] = []
        self.enabled = True

    def add(self, cls_name: str, data: Any, kwargs: dict) -> None:
        if not self.enabled:
            return
        entry = (cls_name, plain(data), dict(kwargs), threading.current_thread().name)
        with self._lock:
            self._log.append(entry)

    def clear(self) -> None:
        with self._lock:
            self._log.clear()

    def snapshot(self) -> List[tuple]:
        with self._lock:
            return list(self._log)

    def __len__(self) -> int:
        with self._lock:
            return len(self._log)


REC = Recorder()

# Pre-built exception objects (C06 checks identity of the exception that reaches the caller).
PREBUILT: dict = {}


def plain(data: Any) -> Any:
    """Plain-Python value of a semantiva data object (for records and comparisons)."""
    if data is None:
        return None
    if isinstance(data, NoDataType):
        return "NoData"
    if isinstance(data, FloatDataCollection):
        return [plain(x) for x in data]
    if isinstance(data, FloatDataType):
        return data.data
    inner = getattr(data, "data", None)
    if inner is not None:
        return repr(inner)
    return repr(data)


class VBoomError(RuntimeError):
    """Processor failure raised by VBoom."""


class VAbort(KeyboardInterrupt):
    """KeyboardInterrupt-class abort raised by VInterrupt."""


# --------------------------------------------------------------------------- sources
class VSrc(DataSource):
    """Outputs FloatDataType(value)."""

    @classmethod
    def _get_data(cls, value: float) -> FloatDataType:
        REC.add("VSrc", None, {"value": value})
        return FloatDataType(float(value))

    @classmethod
    def output_data_type(cls):
        return FloatDataType


class VSrcDefault(DataSource):
    """Outputs FloatDataType(value), default 42.0."""

    @classmethod
    def _get_data(cls, value: float = 42.0) -> FloatDataType:
        REC.add("VSrcDefault", None, {"value": value})
        return FloatDataType(float(value))

    @classmethod
    def output_data_type(cls):
        return FloatDataType


class VCollSrc(DataSource):
    """Outputs a FloatDataCollection [start, start+1, ... ] of n elements."""

    @classmethod
    def _get_data(cls, n: int = 3, start: float = 1.0) -> FloatDataCollection:
        REC.add("VCollSrc", None, {"n": n, "start": start})
        return FloatDataCollection.from_list(
            [FloatDataType(float(start) + i) for i in range(int(n))]
        )

    @classmethod
    def output_data_type(cls):
        return FloatDataCollection


class VPayloadSrc(PayloadSource):
    """Payload source: data = seed, injects declared key ps_key = 2*seed."""

    @classmethod
    def _get_payload(cls, seed: float = 5.0) -> Payload:
        REC.add("VPayloadSrc", None, {"seed": seed})
        return Payload(FloatDataType(float(seed)), ContextType({"ps_key": float(seed) * 2}))

    @classmethod
    def output_data_type(cls):
        return FloatDataType

    @classmethod
    def _injected_context_keys(cls):
        return ["ps_key"]


# --------------------------------------------------------------------------- operations
class _VFloatOp(DataOperation):
    @classmethod
    def input_data_type(cls):
        return FloatDataType

    @classmethod
    def output_data_type(cls):
        return FloatDataType


class VMul(_VFloatOp):
    """data * factor."""

    def _process_logic(self, data, factor: float):
        REC.add("VMul", data, {"factor": factor})
        return FloatDataType(data.data * factor)


class VMulDefault(_VFloatOp):
    """data * factor (default 2.0)."""

    def _process_logic(self, data, factor: float = 2.0):
        REC.add("VMulDefault", data, {"factor": factor})
        return FloatDataType(data.data * factor)


class VAdd(_VFloatOp):
    """data + addend."""

    def _process_logic(self, data, addend: float):
        REC.add("VAdd", data, {"addend": addend})
        return FloatDataType(data.data + addend)


class VAddDefault(_VFloatOp):
    """data + addend (default 1.0)."""

    def _process_logic(self, data, addend: float = 1.0):
        REC.add("VAddDefault", data, {"addend": addend})
        return FloatDataType(data.data + addend)


class VAffine(_VFloatOp):
    """a * data + b  (two parameters, one with default)."""

    def _process_logic(self, data, a: float, b: float = 0.5):
        REC.add("VAffine", data, {"a": a, "b": b})
        return FloatDataType(a * data.data + b)


class VMemoMul(_VFloatOp):
    """data * factor, with the factor memoised ON THE INSTANCE at the first call (a lazily built table is a common
    idiom).  Every application of a processor by the framework is a fresh application, so this equals VMul; it differs
    only if one instance is shared between applications that should be independent (sweep steps, runs)."""

    def _process_logic(self, data, factor: float):
        REC.add("VMemoMul", data, {"factor": factor})
        if not hasattr(self, "_memo_factor"):
            self._memo_factor = factor
        return FloatDataType(data.data * self._memo_factor)


class VInPlaceMul(_VFloatOp):
    """data * factor computed IN PLACE: mutates the input object and returns it (legal; numpy ``*=`` style)."""

    def _process_logic(self, data, factor: float = 2.0):
        REC.add("VInPlaceMul", data, {"factor": factor})
        data.data = data.data * factor
        return data


class VCollBumpLast(DataOperation):
    """Collection -> the same collection with only its LAST element changed (+1)."""

    @classmethod
    def input_data_type(cls):
        return FloatDataCollection

    @classmethod
    def output_data_type(cls):
        return FloatDataCollection

    def _process_logic(self, data):
        REC.add("VCollBumpLast", data, {})
        items = [FloatDataType(x.data) for x in data]
        if items:
            items[-1] = FloatDataType(items[-1].data + 1.0)
        return FloatDataCollection.from_list(items)


class VPoly(_VFloatOp):
    """p * data + q + r + s  (three required parameters and one default: a swept element with several un-swept ones)."""

    def _process_logic(self, data, p: float, q: float, r: float, s: float = 0.0):
        REC.add("VPoly", data, {"p": p, "q": q, "r": r, "s": s})
        return FloatDataType(p * data.data + q + r + s)


class VAddNote(_VFloatOp):
    """data + addend; also writes the declared context key ``note`` (= result)."""

    @classmethod
    def context_keys(cls) -> List[str]:
        return ["note"]

    def _process_logic(self, data, addend: float = 1.0):
        REC.add("VAddNote", data, {"addend": addend})
        out = data.data + addend
        self._notify_context_update("note", out)
        return FloatDataType(out)


class VWeightedScale(_VFloatOp):
    """data * sum(weights) + offset  (a list-valued parameter, typically taken from the context)."""

    def _process_logic(self, data, weights: list, offset: float = 0.0):
        REC.add("VWeightedScale", data, {"weights": list(weights), "offset": offset})
        return FloatDataType(data.data * float(sum(weights)) + offset)


class VRemember(_VFloatOp):
    """Appends the current value to the list kept under ``weights`` IN PLACE (``lst.append(x)``) and publishes it again."""

    @classmethod
    def context_keys(cls) -> List[str]:
        return ["weights"]

    def _process_logic(self, data, weights: list):
        REC.add("VRemember", data, {"weights": list(weights)})
        weights.append(data.data)
        self._notify_context_update("weights", weights)
        return data


class VTally(_VFloatOp):
    """data + 1; writes ``note`` (declared as created) and REWRITES the existing key ``tally`` (+1).  Its write whitelist
    (``context_keys``) is wider than the keys it declares as created: the update of ``tally`` is a fact of the run all the same."""

    @classmethod
    def context_keys(cls) -> List[str]:
        return ["note", "tally"]

    @classmethod
    def get_created_keys(cls) -> List[str]:
        return ["note"]

    def _process_logic(self, data, tally: float = 0.0):
        REC.add("VTally", data, {"tally": tally})
        self._notify_context_update("note", data.data)
        self._notify_context_update("tally", tally + 1.0)
        return FloatDataType(data.data + 1.0)


class VCollSum(DataOperation):
    """Sum of a FloatDataCollection plus offset."""

    @classmethod
    def input_data_type(cls):
        return FloatDataCollection

    @classmethod
    def output_data_type(cls):
        return FloatDataType

    def _process_logic(self, data, offset: float = 0.0):
        REC.add("VCollSum", data, {"offset": offset})
        return FloatDataType(float(sum(x.data for x in data)) + offset)


# --------------------------------------------------------------------------- probes
class _VFloatProbe(DataProbe):
    @classmethod
    def input_data_type(cls):
        return FloatDataType


class VValueProbe(_VFloatProbe):
    """Returns the float value."""

    def _process_logic(self, data):
        REC.add("VValueProbe", data, {})
        return data.data


class VScaledProbe(_VFloatProbe):
    """Returns value * scale (default 1.0)."""

    def _process_logic(self, data, scale: float = 1.0):
        REC.add("VScaledProbe", data, {"scale": scale})
        return data.data * scale


class VMemoScaledProbe(_VFloatProbe):
    """value * scale with the scale memoised on the instance at the first call (see VMemoMul)."""

    def _process_logic(self, data, scale: float = 1.0):
        REC.add("VMemoScaledProbe", data, {"scale": scale})
        if not hasattr(self, "_memo_scale"):
            self._memo_scale = scale
        return data.data * self._memo_scale


class VOffsetProbe(_VFloatProbe):
    """Returns value + offset (offset required)."""

    def _process_logic(self, data, offset: float):
        REC.add("VOffsetProbe", data, {"offset": offset})
        return data.data + offset


class VTagProbe(_VFloatProbe):
    """Returns "<value>:<tag>" — the result depends on the exact (type-sensitive, order-sensitive) tag string."""

    def _process_logic(self, data, tag: str = "t"):
        REC.add("VTagProbe", data, {"tag": tag})
        return f"{data.data}:{tag}"


class VNoneProbe(_VFloatProbe):
    """Probe whose result is None (a context key that is present with the value None)."""

    def _process_logic(self, data):
        REC.add("VNoneProbe", data, {})
        return None


# --------------------------------------------------------------------------- context processors
class VCtxScale(ContextProcessor):
    """Writes scaled = base * k."""

    @classmethod
    def get_created_keys(cls) -> List[str]:
        return ["scaled"]

    def _process_logic(self, base: float, k: float = 3.0):
        REC.add("VCtxScale", None, {"base": base, "k": k})
        self._notify_context_update("scaled", base * k)


class VCtxMeta(ContextProcessor):
    """No-op context processor carrying a free-form (arbitrarily nested) parameter ``vmeta``; creates no key, accepts any
    data: a place where a configuration can hold structured parameter values without affecting the data flow."""

    def _process_logic(self, vmeta=None):
        REC.add("VCtxMeta", None, {"vmeta": vmeta})


class VCtxIterSum(ContextProcessor):
    """Consumes the one-shot iterator ``items`` (from the context) and writes iter_total = sum(items)."""

    @classmethod
    def get_created_keys(cls) -> List[str]:
        return ["iter_total"]

    def _process_logic(self, items):
        total = 0.0
        seen = []
        for x in items:
            total += float(x)
            seen.append(float(x))
        REC.add("VCtxIterSum", None, {"items": seen})
        self._notify_context_update("iter_total", [total, len(seen)])


class VCtxMakeIter(ContextProcessor):
    """Writes items = a fresh one-shot generator of n floats (a stream handed to the next node through the context)."""

    @classmethod
    def get_created_keys(cls) -> List[str]:
        return ["items"]

    def _process_logic(self, n: int = 3):
        REC.add("VCtxMakeIter", None, {"n": n})
        self._notify_context_update("items", (float(i) + 0.5 for i in range(int(n))))


class VCtxRandom(ContextProcessor):
    """Writes rand_draw = [random.random(), numpy.random.random()] drawn from the process-wide generators."""

    @classmethod
    def get_created_keys(cls) -> List[str]:
        return ["rand_draw"]

    def _process_logic(self):
        import random

        import numpy as np

        REC.add("VCtxRandom", None, {})
        self._notify_context_update("rand_draw", [random.random(), float(np.random.random())])


class VCtxBumpLast(ContextProcessor):
    """Rewrites the (long) list under ``long_seq`` with only its LAST element changed (+1)."""

    @classmethod
    def get_created_keys(cls) -> List[str]:
        return ["long_seq"]

    def _process_logic(self, long_seq):
        REC.add("VCtxBumpLast", None, {"n": len(long_seq)})
        out = list(long_seq)
        out[-1] = out[-1] + 1.0
        self._notify_context_update("long_seq", out)


class VHookedCtx(ContextProcessor):
    """Context processor that still advertises the legacy ``get_required_keys()`` hook for a key that HAS a default:
    writes hooked = hk_scale * 10.  (The hook is "for backward compatibility and inspection purposes"; resolution follows
    the usual precedence, so the node runs fine without the key.)"""

    @classmethod
    def get_created_keys(cls) -> List[str]:
        return ["hooked"]

    @classmethod
    def get_required_keys(cls) -> List[str]:
        return ["hk_scale"]

    def _process_logic(self, hk_scale: float = 2.0):
        REC.add("VHookedCtx", None, {"hk_scale": hk_scale})
        self._notify_context_update("hooked", hk_scale * 10)


class VCtxBadWriter(ContextProcessor):
    """Fault component: writes a key it does not declare."""

    @classmethod
    def get_created_keys(cls) -> List[str]:
        return ["declared_only"]

    def _process_logic(self):
        REC.add("VCtxBadWriter", None, {})
        self._notify_context_update("undeclared_key", 1.0)


class VCtxBoom(ContextProcessor):
    """Fault component (any data type): raises VBoomError when fuse >= 1.0."""

    def _process_logic(self, fuse: float = 1.0):
        REC.add("VCtxBoom", None, {"fuse": fuse})
        if fuse >= 1.0:
            exc = PREBUILT.get("boom")
            if exc is not None:
                raise exc
            raise VBoomError(f"ctx boom fuse={fuse}")


class VCtxInterrupt(ContextProcessor):
    """Fault component (any data type): raises a KeyboardInterrupt subclass."""

    def _process_logic(self):
        REC.add("VCtxInterrupt", None, {})
        exc = PREBUILT.get("abort")
        if exc is not None:
            raise exc
        raise VAbort("abort")


# --------------------------------------------------------------------------- sinks
class VFileSink(DataSink):
    """Appends ``<value>\\n`` to the file ``path`` (a witness that the sink really ran)."""

    @classmethod
    def _send_data(cls, data: FloatDataType, path: str):
        REC.add("VFileSink", data, {"path": path})
        if not isinstance(path, str):
            raise TypeError("path must be a string")   # never open() an int (a file descriptor) or a float
        with open(path, "a", encoding="utf-8") as fh:
            fh.write(repr(plain(data)) + "\n")

    @classmethod
    def input_data_type(cls):
        return FloatDataType


class VNullSink(DataSink):
    """Sink that only records."""

    @classmethod
    def _send_data(cls, data: FloatDataType, tag: str = "t"):
        REC.add("VNullSink", data, {"tag": tag})

    @classmethod
    def input_data_type(cls):
        return FloatDataType


# IO components carrying a discouraged-but-legal extra type declaration (the catalogue only warns: SVA211 / SVA201).
# Nodes built on them are valid configurations: the sink node still passes its input type through, the source node
# still takes no data, and the generated adapter must agree with the node that wraps it.
class VLedgerSink(DataSink):
    """Sink that records; ALSO declares an output type different from its input type."""

    @classmethod
    def _send_data(cls, data: FloatDataType, tag: str = "t"):
        REC.add("VLedgerSink", data, {"tag": tag})

    @classmethod
    def input_data_type(cls):
        return FloatDataType

    @classmethod
    def output_data_type(cls):
        return FloatDataCollection


class VLedgerPayloadSink(PayloadSink):
    """Payload flavour of VLedgerSink."""

    @classmethod
    def _send_payload(cls, payload: Payload):
        REC.add("VLedgerPayloadSink", payload.data, {})

    @classmethod
    def input_data_type(cls):
        return FloatDataType

    @classmethod
    def output_data_type(cls):
        return FloatDataCollection


class VReplaySrc(DataSource):
    """Source (value, default 7.0) that ALSO declares an input type (left over from the operation it replaced)."""

    @classmethod
    def _get_data(cls, value: float = 7.0) -> FloatDataType:
        REC.add("VReplaySrc", None, {"value": value})
        return FloatDataType(float(value))

    @classmethod
    def input_data_type(cls):
        return FloatDataType

    @classmethod
    def output_data_type(cls):
        return FloatDataType


class VStore(DataSource, DataSink):
    """A store that can be read AND written (implements both IO roles): as a node it is a source (value, default 6.0)."""

    @classmethod
    def _get_data(cls, value: float = 6.0) -> FloatDataType:
        REC.add("VStore", None, {"value": value})
        return FloatDataType(float(value))

    @classmethod
    def _send_data(cls, data: FloatDataType, tag: str = "t"):
        REC.add("VStore.send", data, {"tag": tag})

    @classmethod
    def input_data_type(cls):
        return FloatDataType

    @classmethod
    def output_data_type(cls):
        return FloatDataType


class VLabSrc(DataSource):
    """Source with a parameter NAMED ``context`` (a free-text acquisition context): outputs value + len(context).
    The no-context-in-process-logic rule is about operations, probes and context processors; IO components are exempt."""

    @classmethod
    def _get_data(cls, value: float = 1.0, context: str = "lab") -> FloatDataType:
        REC.add("VLabSrc", None, {"value": value, "context": context})
        return FloatDataType(float(value) + len(context))

    @classmethod
    def output_data_type(cls):
        return FloatDataType


class VAuditedSink(DataSink):
    """Sink with a parameter NAMED ``context`` (an audit label)."""

    @classmethod
    def _send_data(cls, data: FloatDataType, context: str = "audit"):
        REC.add("VAuditedSink", data, {"context": context})

    @classmethod
    def input_data_type(cls):
        return FloatDataType


class VSrcDefaultSeries(VSrcDefault):
    """SUBCLASS of the source VSrcDefault that refines output type and parameters: outputs [value, value+1, ...] (n items)."""

    @classmethod
    def _get_data(cls, value: float = 42.0, n: int = 2) -> FloatDataCollection:
        REC.add("VSrcDefaultSeries", None, {"value": value, "n": n})
        return FloatDataCollection.from_list([FloatDataType(float(value) + i) for i in range(int(n))])

    @classmethod
    def output_data_type(cls):
        return FloatDataCollection


class VNullSinkColl(VNullSink):
    """SUBCLASS of the sink VNullSink that refines the input type (a collection sink)."""

    @classmethod
    def _send_data(cls, data: FloatDataCollection, tag: str = "t"):
        REC.add("VNullSinkColl", data, {"tag": tag})

    @classmethod
    def input_data_type(cls):
        return FloatDataCollection


# Components WITHOUT a docstring of their own (perfectly legal; most quick user components look like this)
class VNoDocSrc(DataSource):
    @classmethod
    def _get_data(cls, value: float = 3.0) -> FloatDataType:
        REC.add("VNoDocSrc", None, {"value": value})
        return FloatDataType(float(value))

    @classmethod
    def output_data_type(cls):
        return FloatDataType


class VNoDocSink(DataSink):
    @classmethod
    def _send_data(cls, data: FloatDataType, tag: str = "t"):
        REC.add("VNoDocSink", data, {"tag": tag})

    @classmethod
    def input_data_type(cls):
        return FloatDataType


class VNoDocProbe(DataProbe):
    @classmethod
    def input_data_type(cls):
        return FloatDataType

    def _process_logic(self, data, scale: float = 1.0):
        REC.add("VNoDocProbe", data, {"scale": scale})
        return data.data * scale


class VNoDocOp(DataOperation):
    @classmethod
    def input_data_type(cls):
        return FloatDataType

    @classmethod
    def output_data_type(cls):
        return FloatDataType

    def _process_logic(self, data, factor: float = 2.0):
        REC.add("VNoDocOp", data, {"factor": factor})
        return FloatDataType(data.data * factor)


class VNoDocPayloadSink(PayloadSink):
    @classmethod
    def _send_payload(cls, payload: Payload):
        REC.add("VNoDocPayloadSink", payload.data, {})

    @classmethod
    def input_data_type(cls):
        return FloatDataType


assert all(c.__doc__ is None for c in (VNoDocSrc, VNoDocSink, VNoDocProbe, VNoDocOp, VNoDocPayloadSink))


# --------------------------------------------------------------------------- fault components
class VBadWriter(_VFloatOp):
    """Fault component: operation that writes an undeclared context key."""

    @classmethod
    def context_keys(cls) -> List[str]:
        return ["declared_only"]

    def _process_logic(self, data):
        REC.add("VBadWriter", data, {})
        self._notify_context_update("undeclared_key", 1.0)
        return FloatDataType(data.data)


class VBoom(_VFloatOp):
    """Fault component: raises VBoomError when fuse >= 1.0, passes data through otherwise."""

    def _process_logic(self, data, fuse: float = 1.0):
        REC.add("VBoom", data, {"fuse": fuse})
        if fuse >= 1.0:
            exc = PREBUILT.get("boom")
            if exc is not None:
                raise exc
            raise VBoomError(f"boom fuse={fuse}")
        return FloatDataType(data.data)


def _odd_exception(kind: str) -> BaseException:
    """Exceptions of standard-library classes whose constructors / attributes are NOT 'one message string'."""
    if kind == "unicode_decode":
        try:
            b"\xff\xfe".decode("utf-8")
        except UnicodeDecodeError as exc:
            return exc
    if kind == "unicode_encode":
        try:
            "\u20ac".encode("ascii")
        except UnicodeEncodeError as exc:
            return exc
    if kind == "exception_group":
        return ExceptionGroup("two things went wrong", [ValueError("one"), KeyError("two")])
    if kind == "os_error":
        return FileNotFoundError(2, "No such file or directory", "/nonexistent/input.dat")
    if kind == "key_error_tuple":
        return KeyError(("a", 1))
    if kind == "stop_iteration":
        return StopIteration(3)
    if kind == "empty_message":
        return ValueError()
    if kind == "two_arg_custom":
        return VTwoArgError("stage-2", 17)
    # exactly ONE argument, and not a string / not JSON-encodable: a wrapped exception, a key that is a tuple holding a
    # frozenset, bytes
    if kind == "wraps_exception":
        return RuntimeError(ZeroDivisionError("float division by zero"))
    if kind == "key_error_frozenset":
        return KeyError((frozenset({"a"}), 2))
    if kind == "value_error_bytes":
        return ValueError(b"\xff raw")
    return ZeroDivisionError("float division by zero")


class VTwoArgError(Exception):
    """A user exception whose constructor needs two arguments."""

    def __init__(self, stage: str, code: int):
        super().__init__(stage, code)
        self.stage, self.code = stage, code


ODD_EXCEPTION_KINDS = ["unicode_decode", "unicode_encode", "exception_group", "os_error", "key_error_tuple",
                       "stop_iteration", "empty_message", "two_arg_custom", "zero_division",
                       "wraps_exception", "key_error_frozenset", "value_error_bytes"]


class VRaise(_VFloatOp):
    """Fault component: raises an exception of the standard-library / user class named by ``exc``."""

    def _process_logic(self, data, exc: str = "zero_division"):
        REC.add("VRaise", data, {"exc": exc})
        pre = PREBUILT.get("odd")
        if pre is not None:
            raise pre
        raise _odd_exception(exc)


NESTED: dict = {}       # set by a check: {"orchestrator": shared orchestrator object, "trace": driver for the inner run}


class VNestedRun(_VFloatOp):
    """Runs an INNER pipeline ([VSrcDefault, VMulDefault]) through the SAME orchestrator object that is running the outer
    pipeline (with its own trace driver) and adds the inner result to the data - a processor that delegates to a sub-pipeline."""

    def _process_logic(self, data, weight: float = 1.0):
        REC.add("VNestedRun", data, {"weight": weight})
        from semantiva.pipeline.pipeline import Pipeline

        inner = Pipeline([{"processor": "VSrcDefault"}, {"processor": "VMulDefault"}],
                         orchestrator=NESTED.get("orchestrator"), trace=NESTED.get("trace"))
        out = inner.process(Payload(NoDataType(), ContextType({})))
        return FloatDataType(data.data + weight * out.data.data)


class VBoomExit(_VFloatOp):
    """Fault component: calls sys.exit(9) (SystemExit, a BaseException that is neither Exception nor KeyboardInterrupt)
    when fuse >= 1.0, passes data through otherwise - what a wrapped command-line tool does on error."""

    def _process_logic(self, data, fuse: float = 1.0):
        REC.add("VBoomExit", data, {"fuse": fuse})
        if fuse >= 1.0:
            raise SystemExit(9)
        return FloatDataType(data.data)


class VInterrupt(_VFloatOp):
    """Fault component: raises a KeyboardInterrupt subclass."""

    def _process_logic(self, data):
        REC.add("VInterrupt", data, {})
        exc = PREBUILT.get("abort")
        if exc is not None:
            raise exc
        raise VAbort("abort")


class VBadPayloadSrc(PayloadSource):
    """Fault component: payload source whose returned context carries a key it does NOT declare as injected."""

    @classmethod
    def _get_payload(cls, seed: float = 5.0) -> Payload:
        REC.add("VBadPayloadSrc", None, {"seed": seed})
        return Payload(FloatDataType(float(seed)), ContextType({"ps_key": float(seed) * 2, "undeclared_key": 1.0}))

    @classmethod
    def output_data_type(cls):
        return FloatDataType

    @classmethod
    def _injected_context_keys(cls):
        return ["ps_key"]


class VWriteThenBoom(_VFloatOp):
    """Fault component: writes its declared context key ``note`` (= data + addend) and THEN raises VBoomError."""

    @classmethod
    def context_keys(cls) -> List[str]:
        return ["note"]

    def _process_logic(self, data, addend: float = 1.0):
        REC.add("VWriteThenBoom", data, {"addend": addend})
        self._notify_context_update("note", data.data + addend)
        exc = PREBUILT.get("boom")
        if exc is not None:
            raise exc
        raise VBoomError("boom after writing note")


class VCtxWriteThenBoom(ContextProcessor):
    """Fault component (any data): writes its declared key ``scaled`` (= base * 2) and THEN raises VBoomError."""

    @classmethod
    def get_created_keys(cls) -> List[str]:
        return ["scaled"]

    def _process_logic(self, base: float = 1.5):
        REC.add("VCtxWriteThenBoom", None, {"base": base})
        self._notify_context_update("scaled", base * 2)
        exc = PREBUILT.get("boom")
        if exc is not None:
            raise exc
        raise VBoomError("boom after writing scaled")


class VBadType(_VFloatOp):
    """Fault component: declares Float -> Float but returns a collection."""

    def _process_logic(self, data):
        REC.add("VBadType", data, {})
        return FloatDataCollection.from_list([FloatDataType(data.data)])


def register() -> None:
    from semantiva.registry.processor_registry import ProcessorRegistry

    ProcessorRegistry.register_modules(["vlib.components"])
