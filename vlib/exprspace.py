"""Expression space for C11 (safe-grammar confinement of sweep expressions).

Three independent pieces, none of which imports semantiva:

* the *documented whitelist* stated as an acceptance predicate: ``offences(tree, names)`` walks **every** field of
  every node of a parsed expression (``Call.keywords`` and ``**`` entries, ``ctx``, ``Compare.comparators``,
  ``IfExp.orelse``, starred elements, operators ...) and returns the list of elements that are outside the
  whitelist, each with its position (path) and whether it sits inside a call keyword value;
* ``mechanism_key(offs)``: deterministic classifier from that list to a mechanism key;
* the position-complete tree enumeration ``T1`` / ``T2`` / ``T3`` over ``ast.expr.__subclasses__()`` of the running
  interpreter, and the sandbox-escape corpus (idioms x whitelisted shells).

Trees are only a generation device: what is handed to the code under test (and to the predicate, after an own
``ast.parse``) is always the source string produced by ``ast.unparse``.
"""
from __future__ import annotations

import ast
import itertools
from typing import Callable, Iterator

# --------------------------------------------------------------------------- documented whitelist
FUNCS = frozenset({"abs", "min", "max", "round", "float", "int", "str", "bool"})
ALLOWED_EXPR = frozenset({ast.BinOp, ast.UnaryOp, ast.BoolOp, ast.Compare, ast.IfExp, ast.Call, ast.Name,
                          ast.Constant, ast.Tuple})
ALLOWED_OPS = frozenset({ast.Add, ast.Sub, ast.Mult, ast.Div, ast.FloorDiv, ast.Mod, ast.Pow, ast.USub, ast.UAdd,
                         ast.And, ast.Or, ast.Eq, ast.NotEq, ast.Lt, ast.LtE, ast.Gt, ast.GtE})
_OP_BASES = (ast.operator, ast.unaryop, ast.boolop, ast.cmpop)
WHITELISTED_ROOTS = frozenset(k.__name__ for k in ALLOWED_EXPR)


def offences(tree: ast.AST, names) -> list[dict]:
    """All elements of ``tree`` outside the documented whitelist (pre-order, field order). [] <=> predicate true.

    A disallowed node is reported once and not descended into. The walk stops at the first offence that is *not*
    inside a call keyword value (it decides the mechanism key); offences inside keyword values found before it
    are kept, so "every offence sits in a keyword value" <=> no entry has in_kw False.
    """
    out: list[dict] = []
    names = frozenset(names)
    if type(tree) is not ast.Expression:
        out.append({"what": "node", "name": type(tree).__name__, "path": "", "in_kw": False})
        return out
    try:
        _expr(tree.body, names, "body", False, False, out)
        for f in tree._fields:
            if f != "body":  # pragma: no cover - no such field today; a future one must not be skipped silently
                _field(tree, f, getattr(tree, f, None), names, f, False, out)
    except _Decided:
        pass
    return out


class _Decided(Exception):
    pass


def _off(out, what, name, path, in_kw):
    out.append({"what": what, "name": name, "path": path, "in_kw": in_kw})
    if not in_kw:
        raise _Decided()


def _expr(node, names, path, in_kw, is_func, out):
    t = type(node)
    if t not in ALLOWED_EXPR:
        if is_func:
            _off(out, "call", t.__name__, path, in_kw)
        else:
            _off(out, "node", t.__name__, path, in_kw)
        return
    if is_func:
        # the callee must be a bare Name from the function whitelist
        if t is not ast.Name or node.id not in FUNCS:
            _off(out, "call", node.id if t is ast.Name else t.__name__, path, in_kw)
            return
        if type(node.ctx) is not ast.Load:
            _off(out, "ctx", type(node.ctx).__name__, path + ".ctx", in_kw)
        return
    if t is ast.Name:
        if node.id not in names:
            _off(out, "name", node.id, path, in_kw)
        if type(node.ctx) is not ast.Load:
            _off(out, "ctx", type(node.ctx).__name__, path + ".ctx", in_kw)
        return
    for f in node._fields:
        _field(node, f, getattr(node, f, None), names, f"{path}.{f}", in_kw, out)


def _field(parent, fname, value, names, path, in_kw, out):
    if isinstance(value, list):
        for i, v in enumerate(value):
            _child(parent, fname, v, names, f"{path}[{i}]", in_kw, out)
    else:
        _child(parent, fname, value, names, path, in_kw, out)


def _child(parent, fname, v, names, path, in_kw, out):
    if not isinstance(v, ast.AST):
        return  # identifiers, constant values, None
    if isinstance(v, ast.expr):
        _expr(v, names, path, in_kw, type(parent) is ast.Call and fname == "func", out)
    elif isinstance(v, _OP_BASES):
        if type(v) not in ALLOWED_OPS:
            _off(out, "node", type(v).__name__, path, in_kw)
    elif isinstance(v, ast.expr_context):
        if type(v) is not ast.Load:
            _off(out, "ctx", type(v).__name__, path, in_kw)
    elif type(v) is ast.keyword and type(parent) is ast.Call and fname == "keywords":
        # named (k=v) or double-starred (**v): the value is a sub-expression under the same rules
        for f in v._fields:
            if f == "value":
                _expr(v.value, names, path + ".value", True, False, out)
            elif isinstance(getattr(v, f, None), (ast.AST, list)):  # pragma: no cover - future field
                _off(out, "node", f"keyword.{f}", path, in_kw)
    else:
        _off(out, "node", type(v).__name__, path, in_kw)


def mechanism_key(offs: list[dict]) -> str:
    """Deterministic mechanism key for "compile returned although ``offs`` is non-empty"."""
    outside = [o for o in offs if not o["in_kw"]]
    if not outside:
        # everything that is wrong with the expression sits inside call keyword values (k=<v> / **<v>)
        return "call_keyword_value_not_validated"
    o = outside[0]
    if o["what"] == "node":
        return f"disallowed_node_{o['name']}_accepted"
    if o["what"] == "name":
        return "undeclared_name_accepted"
    if o["what"] == "call":
        return "non_whitelisted_call_accepted"
    return f"name_context_{o['name']}_accepted"


# --------------------------------------------------------------------------- leaves (T1)
DECLARED = ("x", "y")
L = ast.Load()


def N(i: str, ctx=None) -> ast.Name:
    return ast.Name(id=i, ctx=ctx or L)


def C(v) -> ast.Constant:
    return ast.Constant(value=v)


X, Y = N("x"), N("y")
SAFE_FUNC = N("max")


def leaves() -> list[tuple[str, ast.expr]]:
    return [
        ("declared", X),
        ("undeclared", N("q_undeclared")),
        ("dunder", N("__import__")),
        ("wl_func", N("abs")),
        ("non_wl_builtin", N("len")),
        ("int", C(2)),
        ("float", C(1.5)),
        ("str", C("s")),
        ("bytes", C(b"b")),
        ("none", C(None)),
        ("ellipsis", C(...)),
    ]


def _subclasses(base) -> list[type]:
    return list(base.__subclasses__())


# --------------------------------------------------------------------------- T2: shapes per kind
# A shape = (n_slots, build(children) -> node, mode). mode "cross" = all |T1|^n combinations of leaves;
# "star" = each slot takes every leaf while the others hold the safe leaf, plus every leaf in all slots at once.
Shape = tuple[int, Callable[[list], ast.expr], str]


def _fv(v, conv=-1, spec=None):
    return ast.FormattedValue(value=v, conversion=conv, format_spec=spec)


def _comp(t, it, ifs=(), is_async=0):
    return ast.comprehension(target=t, iter=it, ifs=list(ifs), is_async=is_async)


def _args(posargs=(), defaults=(), vararg=None, kwonly=(), kw_defaults=(), kwarg=None):
    return ast.arguments(posonlyargs=[], args=[ast.arg(arg=a) for a in posargs], vararg=vararg and ast.arg(arg=vararg),
                         kwonlyargs=[ast.arg(arg=a) for a in kwonly], kw_defaults=list(kw_defaults),
                         kwarg=kwarg and ast.arg(arg=kwarg), defaults=list(defaults))


def shapes_for(kind: type) -> list[Shape] | None:
    """Shapes of one ``ast.expr`` kind; None = kind not modelled (new grammar node) -> generic fallback."""
    k = kind.__name__
    S: list[Shape] = []
    if k == "BoolOp":
        for op in _subclasses(ast.boolop):
            for n in (0, 1, 2):
                S.append((n, lambda c, op=op: ast.BoolOp(op=op(), values=list(c)), "cross"))
    elif k == "NamedExpr":
        S.append((2, lambda c: ast.NamedExpr(target=c[0], value=c[1]), "cross"))
    elif k == "BinOp":
        for op in _subclasses(ast.operator):
            S.append((2, lambda c, op=op: ast.BinOp(left=c[0], op=op(), right=c[1]), "cross"))
    elif k == "UnaryOp":
        for op in _subclasses(ast.unaryop):
            S.append((1, lambda c, op=op: ast.UnaryOp(op=op(), operand=c[0]), "cross"))
    elif k == "Lambda":
        S.append((1, lambda c: ast.Lambda(args=_args(), body=c[0]), "cross"))
        S.append((1, lambda c: ast.Lambda(args=_args(posargs=["a"]), body=c[0]), "cross"))
        S.append((1, lambda c: ast.Lambda(args=_args(vararg="a"), body=c[0]), "cross"))
        S.append((1, lambda c: ast.Lambda(args=_args(kwarg="a"), body=c[0]), "cross"))
        S.append((2, lambda c: ast.Lambda(args=_args(posargs=["a"], defaults=[c[0]]), body=c[1]), "cross"))
        S.append((2, lambda c: ast.Lambda(args=_args(kwonly=["a"], kw_defaults=[c[0]]), body=c[1]), "cross"))
    elif k == "IfExp":
        S.append((3, lambda c: ast.IfExp(test=c[0], body=c[1], orelse=c[2]), "cross"))
    elif k == "Dict":
        S.append((0, lambda c: ast.Dict(keys=[], values=[]), "cross"))
        S.append((2, lambda c: ast.Dict(keys=[c[0]], values=[c[1]]), "cross"))
        S.append((1, lambda c: ast.Dict(keys=[None], values=[c[0]]), "cross"))
        S.append((3, lambda c: ast.Dict(keys=[c[0], None], values=[c[1], c[2]]), "cross"))
        S.append((4, lambda c: ast.Dict(keys=[c[0], c[2]], values=[c[1], c[3]]), "star"))
    elif k in ("Set", "List", "Tuple"):
        for n in (0, 1, 2):
            if k == "Set":
                S.append((n, lambda c: ast.Set(elts=list(c)), "cross"))
            else:
                S.append((n, lambda c, kind=kind: kind(elts=list(c), ctx=L), "cross"))
    elif k in ("ListComp", "SetComp", "GeneratorExp"):
        S.append((3, lambda c, kind=kind: kind(elt=c[0], generators=[_comp(c[1], c[2])]), "cross"))
        S.append((3, lambda c, kind=kind: kind(elt=c[0], generators=[_comp(c[1], c[2], is_async=1)]), "star"))
        S.append((4, lambda c, kind=kind: kind(elt=c[0], generators=[_comp(c[1], c[2], [c[3]])]), "star"))
        S.append((0, lambda c, kind=kind: kind(elt=X, generators=[]), "cross"))
    elif k == "DictComp":
        S.append((4, lambda c: ast.DictComp(key=c[0], value=c[1], generators=[_comp(c[2], c[3])]), "star"))
        S.append((5, lambda c: ast.DictComp(key=c[0], value=c[1], generators=[_comp(c[2], c[3], [c[4]])]), "star"))
    elif k in ("Await", "YieldFrom"):
        S.append((1, lambda c, kind=kind: kind(value=c[0]), "cross"))
    elif k == "Yield":
        S.append((0, lambda c: ast.Yield(value=None), "cross"))
        S.append((1, lambda c: ast.Yield(value=c[0]), "cross"))
    elif k == "Compare":
        ops = _subclasses(ast.cmpop)
        for op in ops:
            S.append((2, lambda c, op=op: ast.Compare(left=c[0], ops=[op()], comparators=[c[1]]), "cross"))
        for a in ops:
            for b in ops:
                mode = "cross" if (a is ast.Lt and b is ast.LtE) else "star"
                S.append((3, lambda c, a=a, b=b: ast.Compare(left=c[0], ops=[a(), b()], comparators=[c[1], c[2]]),
                          mode))
    elif k == "Call":
        for nargs in (0, 1, 2):
            for named in (0, 1):
                for dstar in (0, 1):
                    def build(c, nargs=nargs, named=named, dstar=dstar):
                        kws, i = [], 1 + nargs
                        if named:
                            kws.append(ast.keyword(arg="key", value=c[i]))
                            i += 1
                        if dstar:
                            kws.append(ast.keyword(arg=None, value=c[i]))
                        return ast.Call(func=c[0], args=list(c[1:1 + nargs]), keywords=kws)
                    S.append((1 + nargs + named + dstar, build, "cross"))
    elif k == "FormattedValue":
        for conv in (-1, 114, 115, 97):
            S.append((1, lambda c, conv=conv: _fv(c[0], conv), "cross"))
        S.append((2, lambda c: _fv(c[0], -1, ast.JoinedStr(values=[_fv(c[1])])), "cross"))
    elif k == "JoinedStr":
        S.append((0, lambda c: ast.JoinedStr(values=[]), "cross"))
        S.append((0, lambda c: ast.JoinedStr(values=[C("s")]), "cross"))
        S.append((1, lambda c: ast.JoinedStr(values=[_fv(c[0])]), "cross"))
        S.append((2, lambda c: ast.JoinedStr(values=[_fv(c[0]), C("s"), _fv(c[1])]), "cross"))
        S.append((2, lambda c: ast.JoinedStr(values=[_fv(c[0], -1, ast.JoinedStr(values=[_fv(c[1])]))]), "cross"))
    elif k == "Constant":
        for v in (2, 1.5, "s", b"b", None, ..., True, False, 2j, 0, -0.0, 10 ** 6, "", "__import__('os')"):
            S.append((0, lambda c, v=v: C(v), "cross"))
        S.append((0, lambda c: ast.Constant(value="s", kind="u"), "cross"))
    elif k == "Attribute":
        for attr in ("real", "__class__", "__globals__"):
            S.append((1, lambda c, attr=attr: ast.Attribute(value=c[0], attr=attr, ctx=L), "cross"))
    elif k == "Subscript":
        S.append((2, lambda c: ast.Subscript(value=c[0], slice=c[1], ctx=L), "cross"))
    elif k == "Starred":
        S.append((1, lambda c: ast.Starred(value=c[0], ctx=L), "cross"))
    elif k == "Name":
        for i in ("x", "y", "q_undeclared", "__import__", "__builtins__", "__name__", "abs", "max", "len", "vars",
                  "eval", "True_", "X"):
            for ctx in (ast.Load, ast.Store):
                S.append((0, lambda c, i=i, ctx=ctx: ast.Name(id=i, ctx=ctx()), "cross"))
    elif k == "Slice":
        for mask in itertools.product((0, 1), repeat=3):
            def build(c, mask=mask):
                it = iter(c)
                vals = [next(it) if m else None for m in mask]
                return ast.Slice(lower=vals[0], upper=vals[1], step=vals[2])
            S.append((sum(mask), build, "cross"))
    else:
        return None
    return S


def _fallback_shapes(kind: type) -> list[Shape]:
    """Unknown expr kind (newer grammar): every field gets a leaf (no type information in 3.12)."""
    fields = list(kind._fields)
    return [(len(fields), lambda c, kind=kind, fields=fields: kind(**dict(zip(fields, c))), "star")]


def expr_kinds() -> list[type]:
    return list(ast.expr.__subclasses__())


def t2_trees() -> Iterator[tuple[str, ast.expr]]:
    """(kind name, tree) for every kind x shape x leaf combination."""
    lv = [n for _, n in leaves()]
    for kind in expr_kinds():
        shapes = shapes_for(kind)
        if shapes is None:
            shapes = _fallback_shapes(kind)
        for n, build, mode in shapes:
            if mode == "cross" or n <= 1:
                for combo in itertools.product(lv, repeat=n):
                    yield kind.__name__, build(list(combo))
            else:
                for slot in range(n):
                    for leaf in lv:
                        c = [X] * n
                        c[slot] = leaf
                        yield kind.__name__, build(c)
                for leaf in lv[1:]:
                    yield kind.__name__, build([leaf] * n)


def unmodelled_kinds() -> list[str]:
    return [k.__name__ for k in expr_kinds() if shapes_for(k) is None]


# --------------------------------------------------------------------------- T3: kind x slot templates
def t3_templates() -> list[tuple[str, Callable[[ast.expr], ast.expr]]]:
    """(label, embed(t)) for every child position of every expr kind; other slots hold the safe leaf (x / y / max)."""
    YS = N("y", ast.Store())
    T: list[tuple[str, Callable]] = []
    a = T.append
    a(("BoolOp.values[0]", lambda t: ast.BoolOp(op=ast.And(), values=[t, X])))
    a(("BoolOp.values[1]", lambda t: ast.BoolOp(op=ast.Or(), values=[X, t])))
    a(("NamedExpr.target", lambda t: ast.NamedExpr(target=t, value=X)))
    a(("NamedExpr.value", lambda t: ast.NamedExpr(target=YS, value=t)))
    a(("BinOp.left", lambda t: ast.BinOp(left=t, op=ast.Add(), right=X)))
    a(("BinOp.right", lambda t: ast.BinOp(left=X, op=ast.Mult(), right=t)))
    a(("UnaryOp.operand", lambda t: ast.UnaryOp(op=ast.USub(), operand=t)))
    a(("Lambda.args.defaults[0]", lambda t: ast.Lambda(args=_args(posargs=["a"], defaults=[t]), body=X)))
    a(("Lambda.body", lambda t: ast.Lambda(args=_args(), body=t)))
    a(("IfExp.test", lambda t: ast.IfExp(test=t, body=X, orelse=Y)))
    a(("IfExp.body", lambda t: ast.IfExp(test=X, body=t, orelse=Y)))
    a(("IfExp.orelse", lambda t: ast.IfExp(test=X, body=Y, orelse=t)))
    a(("Dict.keys[0]", lambda t: ast.Dict(keys=[t], values=[X])))
    a(("Dict.values[0]", lambda t: ast.Dict(keys=[X], values=[t])))
    a(("Dict.values[**]", lambda t: ast.Dict(keys=[None], values=[t])))
    a(("Set.elts[0]", lambda t: ast.Set(elts=[t, X])))
    a(("Set.elts[1]", lambda t: ast.Set(elts=[X, t])))
    for kind in (ast.ListComp, ast.SetComp, ast.GeneratorExp):
        k = kind.__name__
        a((k + ".elt", lambda t, kind=kind: kind(elt=t, generators=[_comp(YS, X, [X])])))
        a((k + ".generators[0].target", lambda t, kind=kind: kind(elt=X, generators=[_comp(t, X, [X])])))
        a((k + ".generators[0].iter", lambda t, kind=kind: kind(elt=X, generators=[_comp(YS, t, [X])])))
        a((k + ".generators[0].ifs[0]", lambda t, kind=kind: kind(elt=X, generators=[_comp(YS, X, [t])])))
    a(("DictComp.key", lambda t: ast.DictComp(key=t, value=X, generators=[_comp(YS, X, [X])])))
    a(("DictComp.value", lambda t: ast.DictComp(key=X, value=t, generators=[_comp(YS, X, [X])])))
    a(("DictComp.generators[0].target", lambda t: ast.DictComp(key=X, value=X, generators=[_comp(t, X, [X])])))
    a(("DictComp.generators[0].iter", lambda t: ast.DictComp(key=X, value=X, generators=[_comp(YS, t, [X])])))
    a(("DictComp.generators[0].ifs[0]", lambda t: ast.DictComp(key=X, value=X, generators=[_comp(YS, X, [t])])))
    a(("Await.value", lambda t: ast.Await(value=t)))
    a(("Yield.value", lambda t: ast.Yield(value=t)))
    a(("YieldFrom.value", lambda t: ast.YieldFrom(value=t)))
    a(("Compare.left", lambda t: ast.Compare(left=t, ops=[ast.Lt()], comparators=[X])))
    a(("Compare.comparators[0]", lambda t: ast.Compare(left=X, ops=[ast.Eq()], comparators=[t])))
    a(("Compare.comparators[1]", lambda t: ast.Compare(left=X, ops=[ast.LtE(), ast.Gt()], comparators=[Y, t])))
    a(("Call.func", lambda t: ast.Call(func=t, args=[X, Y], keywords=[])))
    a(("Call.args[0]", lambda t: ast.Call(func=SAFE_FUNC, args=[t, Y], keywords=[])))
    a(("Call.args[1]", lambda t: ast.Call(func=N("min"), args=[X, t], keywords=[])))
    a(("Call.args[0]~unary", lambda t: ast.Call(func=N("abs"), args=[t], keywords=[])))
    a(("Call.args[*]", lambda t: ast.Call(func=SAFE_FUNC, args=[X, ast.Starred(value=t, ctx=L)], keywords=[])))
    a(("Call.keywords[0].value~key", lambda t: ast.Call(func=SAFE_FUNC, args=[X, Y],
                                                        keywords=[ast.keyword(arg="key", value=t)])))
    a(("Call.keywords[0].value~ndigits", lambda t: ast.Call(func=N("round"), args=[X],
                                                            keywords=[ast.keyword(arg="ndigits", value=t)])))
    a(("Call.keywords[0].value~default", lambda t: ast.Call(func=SAFE_FUNC, args=[ast.Tuple(elts=[X, Y], ctx=L)],
                                                            keywords=[ast.keyword(arg="default", value=t)])))
    a(("Call.keywords[**].value", lambda t: ast.Call(func=SAFE_FUNC, args=[X, Y],
                                                     keywords=[ast.keyword(arg=None, value=t)])))
    a(("Call.keywords[1].value", lambda t: ast.Call(func=SAFE_FUNC, args=[X, Y],
                                                    keywords=[ast.keyword(arg="default", value=X),
                                                              ast.keyword(arg="key", value=t)])))
    a(("FormattedValue.value", lambda t: ast.JoinedStr(values=[_fv(t)])))
    a(("FormattedValue.format_spec", lambda t: ast.JoinedStr(values=[_fv(X, -1, ast.JoinedStr(values=[_fv(t)]))])))
    a(("JoinedStr.values[0]", lambda t: ast.JoinedStr(values=[t])))
    a(("Attribute.value", lambda t: ast.Attribute(value=t, attr="real", ctx=L)))
    a(("Subscript.value", lambda t: ast.Subscript(value=t, slice=X, ctx=L)))
    a(("Subscript.slice", lambda t: ast.Subscript(value=X, slice=t, ctx=L)))
    a(("Starred.value", lambda t: ast.Starred(value=t, ctx=L)))
    a(("List.elts[0]", lambda t: ast.List(elts=[t, X], ctx=L)))
    a(("List.elts[1]", lambda t: ast.List(elts=[X, t], ctx=L)))
    a(("Tuple.elts[0]", lambda t: ast.Tuple(elts=[t, X], ctx=L)))
    a(("Tuple.elts[1]", lambda t: ast.Tuple(elts=[X, t], ctx=L)))
    a(("Tuple.elts[*]", lambda t: ast.Tuple(elts=[X, ast.Starred(value=t, ctx=L)], ctx=L)))
    a(("Slice.lower", lambda t: ast.Subscript(value=X, slice=ast.Slice(lower=t, upper=None, step=None), ctx=L)))
    a(("Slice.upper", lambda t: ast.Subscript(value=X, slice=ast.Slice(lower=None, upper=t, step=None), ctx=L)))
    a(("Slice.step", lambda t: ast.Subscript(value=X, slice=ast.Slice(lower=None, upper=None, step=t), ctx=L)))
    # kinds of a newer grammar that are not modelled above: every field once
    for kind in expr_kinds():
        if shapes_for(kind) is None:
            for f in kind._fields:
                a((f"{kind.__name__}.{f}", lambda t, kind=kind, f=f: kind(**{g: (t if g == f else X)
                                                                            for g in kind._fields})))
    return T


def t3_kinds_covered() -> set[str]:
    return {lab.split(".")[0] for lab, _ in t3_templates()}


# --------------------------------------------------------------------------- corpus: escape idioms x shells
IDIOMS = [
    "__import__('os')", "__import__('colorsys')", "__import__('os').getcwd", "__import__('os').getcwd()",
    "__import__('colorsys').ONE_THIRD", "__import__", "__builtins__", "__builtins__['eval']", "__name__",
    "().__class__", "().__class__.__base__", "().__class__.__base__.__subclasses__()", "().__class__.__mro__[-1]",
    "x.__class__", "x.real", "x.real.imag", "x.__class__.__init__.__globals__", "max.__self__", "abs.__call__",
    "abs.__call__(x)", "max(x, y).real", "int.__subclasses__()", "int.from_bytes", "str.format", "'s'.join",
    "'{0.__class__}'.format(x)", "'s'.__class__", "str().join(('a', 'b'))",
    "lambda: x", "(lambda: x)()", "(lambda: __import__('os'))()", "lambda a=__import__('os'): a",
    "[x for x in (1, 2)]", "[q for q in ().__class__.__mro__]", "{x for x in (1, 2)}", "{x: y for x in (1, 2)}",
    "(x for x in (1, 2))", "[__import__('os') for _ in (1,)]", "max(a for a in (x, y))",
    "f'{x}'", "f'{x.__class__}'", "f'{x!r:>{y}}'", "f'{__import__(\"os\")}'", "f''",
    "(y := 5)", "(q := __import__('os'))", "(x := x)",
    "x[0]", "x[0:1]", "()[0]", "(x, y)[0]", "x[::2]", "x[__import__('os')]",
    "[x, y]", "[]", "{x, y}", "{x: y}", "{}", "{**x}", "[*x]", "(*x,)",
    "x @ y", "x << 2", "x >> 1", "x | y", "x & y", "x ^ y", "~x", "not x", "x is y", "x is not y", "x in (y,)",
    "x not in (y,)", "x in y",
    "await x", "(yield)", "(yield x)", "(yield from x)",
    "eval", "exec", "getattr", "globals", "type", "vars", "len", "q_undeclared", "X", "abs", "max",
    "eval('1')", "getattr(x, 'real')", "globals()", "type(x)", "len((x, y))", "compile('1', 's', 'eval')",
    "vars()", "locals()", "dir()", "x(y)", "x()", "(max)(x, y)", "(lambda a: a)(x)", "max(x, y)(x)", "abs(x)(y)",
    "max(x, key=len)", "max(x, key=__import__('os').getcwd)", "max(x, y, key=lambda a: a)",
    "max(x, **{'key': len})", "max(*x)", "max(*(x, y), key=abs)", "round(x, ndigits=y.real)",
    "int('7', base=__import__('os').O_RDONLY)", "str(object=().__class__)", "max(x, y, default=q_undeclared)",
    "min(x, y, **q_undeclared)", "bool(x=[1])",
    "True", "None", "...", "2j", "b'b'", "'__import__(\"os\")'",
]
STARRED_IDIOMS = ["x", "(x, y)", "__import__('os')", "q_undeclared", "[x]"]  # embedded as *<idiom> / **<idiom>

SHELLS = [
    "HERE__", "max(x, HERE__)", "max(HERE__, y)", "abs(HERE__)", "min(x, y, HERE__)", "round(HERE__, 1)",
    "max(x, key=HERE__)", "max(x, y, key=HERE__)", "max((x, y), default=HERE__)", "round(x, ndigits=HERE__)",
    "round(number=HERE__)", "int(x, base=HERE__)", "str(object=HERE__)", "float(x=HERE__)", "max(x, y, **HERE__)",
    "max(x, y, default=x, key=HERE__)", "HERE__(x)", "HERE__(x, y)", "HERE__()",
    "x + HERE__", "HERE__ * y", "x ** HERE__", "HERE__ // 2", "x % HERE__", "x / HERE__", "x - HERE__",
    "-HERE__", "+HERE__", "x and HERE__", "HERE__ or y", "x and y and HERE__",
    "x < HERE__", "HERE__ == y", "x < y <= HERE__", "x != HERE__ > y",
    "x if HERE__ else y", "HERE__ if x else y", "x if y else HERE__",
    "(x, HERE__)", "(HERE__,)", "(HERE__, x, y)", "((x, HERE__), y)",
    "max(x, abs(HERE__))", "max(x, key=max(y, key=HERE__))", "x + max(y, round(x, ndigits=HERE__))",
    "max(x, (y, HERE__))", "abs(-HERE__) if x else y", "max(x, y if HERE__ else x)", "max(x, y, key=(x, HERE__))",
    "(x + HERE__) * (y - 1) < 3 or x",
]
STAR_SHELLS = ["max(x, *HERE__)", "max(*HERE__)", "(x, *HERE__)", "max(x, **HERE__)", "round(**HERE__)",
               "max(x, key=max(*HERE__))", "max(x, y, key=abs, **HERE__)", "x + max(*HERE__, y)",
               # several unpackings in one call: every operand, not just the last one, must be validated
               "max(x, **HERE__, **y)", "max(x, **y, **HERE__)", "float(**HERE__, **x, **y)", "max(*HERE__, *y)",
               "max(*x, *HERE__, *y)", "max(x, key=y, **HERE__, **y)", "str(**HERE__, **y)"]
JUNK = ["", " ", "x +", "x y", "x;y", "x = 1", "import os", "# c", "x\n+1", " x", "(x", "x)", "max(x,", "x +* y",
        "max(x, key=)", "lambda", "x if y", "1x", "x ? y", "$x", "x := 1", "del x", "pass", "`x`", "x <> y",
        "max(x, x=1, x=2)", "max(**x, *y)", "max(k=1, x)", "f'{x'", "'unterminated", "x\\", "0777", "\t", "\n"]


class _Subst(ast.NodeTransformer):
    def __init__(self, repl):
        self.repl, self.n = repl, 0

    def visit_Name(self, node):
        if node.id == "HERE__":
            self.n += 1
            return self.repl
        return node


def corpus() -> Iterator[tuple[str, str, str | None]]:
    """(shell, idiom, source or None) — idiom spliced at AST level into every shell position; junk strings last."""
    parsed = {}
    for idi in IDIOMS + STARRED_IDIOMS:
        parsed[idi] = ast.parse(idi, mode="eval").body
    for shell in SHELLS:
        for idi in IDIOMS:
            tree = _Subst(parsed[idi]).visit(ast.parse(shell, mode="eval"))
            try:
                yield shell, idi, ast.unparse(tree)
            except Exception:
                yield shell, idi, None
    for shell in STAR_SHELLS:
        for idi in STARRED_IDIOMS + IDIOMS[:12]:
            tree = _Subst(parsed[idi]).visit(ast.parse(shell, mode="eval"))
            try:
                yield shell, idi, ast.unparse(tree)
            except Exception:
                yield shell, idi, None
    for j in JUNK:
        yield "<junk>", j, j
