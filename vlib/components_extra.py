"""A second harness module that is deliberately NOT registered as an extension: its components are only ever
referenced in the fully qualified ``module:Class`` form (legal, documented, unused by the repository's tests)."""
from __future__ import annotations

from semantiva.data_io import DataSource
from semantiva.data_processors.data_processors import DataOperation
from semantiva.examples.test_utils import FloatDataType

from vlib.components import REC


class XSrcDefault(DataSource):
    """Outputs FloatDataType(value), default 7.0."""

    @classmethod
    def _get_data(cls, value: float = 7.0) -> FloatDataType:
        REC.add("vlib.components_extra:XSrcDefault", None, {"value": value})
        return FloatDataType(float(value))

    @classmethod
    def output_data_type(cls):
        return FloatDataType


class XMulDefault(DataOperation):
    """data * factor (default 3.0)."""

    @classmethod
    def input_data_type(cls):
        return FloatDataType

    @classmethod
    def output_data_type(cls):
        return FloatDataType

    def _process_logic(self, data, factor: float = 3.0):
        REC.add("vlib.components_extra:XMulDefault", data, {"factor": factor})
        return FloatDataType(data.data * factor)
