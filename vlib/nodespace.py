"""Node-configuration space for C16: a small *spec algebra* over the component library, the independent
expectation of what a node built for a spec must declare, and the enumeration of the space.

A spec is a JSON-able nested list:

    ["comp", name]                          a library component (vlib.refmodel.COMPONENTS + EXTRA below)
    ["slice", spec]                         slice:<op-or-probe>:FloatDataCollection
    ["sweep", spec, block]                  derive.parameter_sweep block (variables / parameters / mode / ...)
    ["rename", src, dst] ["delete", key] ["template", tpl, out]        context shorthands
    ["with_key", name, key]                 ContextProcessor.with_context_key(key) variant
    ["mf_mapped", indep, dep, key|None]     ModelFittingContextProcessor with variable mapping

``expect(spec)`` is written from the documentation / the property statement and the component table only; it never
looks at a semantiva class.  ``realise_class`` / ``build`` construct the real thing through semantiva's Python API.
A *case* is JSON-able too: {"route": "factory"|"injector"|"ctxdata", ...} (see ``build``).
"""
from __future__ import annotations

import copy
from dataclasses import dataclass, field
from typing import Any, Optional

from . import refmodel as rm

REQ = rm.REQ
COLLECTION = "FloatDataCollection"


@dataclass(frozen=True)
class Entry:
    role: str            # source | psource | op | probe | ctx | sink | psink
    in_t: str            # NoData | Float | Coll | Any
    out_t: Optional[str]
    params: tuple        # ((name, default|REQ), ...)
    created: tuple = ()
    fault: Optional[str] = None


# Repository examples / core processors that vlib.refmodel.COMPONENTS does not list (read off their definitions in
# semantiva/examples/test_utils.py and semantiva/workflows/fitting_model.py).
EXTRA = {
    "FloatMultiplyOperationWithDefault": Entry("op", "Float", "Float", (("factor", 2.0),)),
    "FloatAddOperation": Entry("op", "Float", "Float", (("addend", REQ),)),
    "FloatSqrtOperation": Entry("op", "Float", "Float", ()),
    "FloatDivideOperation": Entry("op", "Float", "Float", (("divisor", REQ),)),
    "FloatValueDataSourceWithDefault": Entry("source", "NoData", "Float", (("value", 42.0),)),
    "FloatMockDataSink": Entry("sink", "Float", "Float", (("path", REQ),)),
    "FloatPayloadSource": Entry("psource", "NoData", "Float", ()),
    "FloatPayloadSink": Entry("psink", "Float", "Float", ()),
    "VLedgerPayloadSink": Entry("psink", "Float", "Float", ()),
    "VNoDocPayloadSink": Entry("psink", "Float", "Float", ()),
    "VLabSrc": Entry("source", "NoData", "Float", (("value", 1.0), ("context", "lab"))),          # IO components with a parameter NAMED ``context``
    "VAuditedSink": Entry("sink", "Float", "Float", (("context", "audit"),)),
    "ModelFittingContextProcessor": Entry("ctx", "Any", None,
                                          (("x_values", REQ), ("y_values", REQ), ("fitting_model", REQ)),
                                          ("fit.parameters",)),
}


def library() -> dict:
    lib = {}
    for name, c in rm.COMPONENTS.items():
        lib[name] = Entry(c.kind, c.in_type, c.out_type if c.kind in ("source", "psource", "op") else None,
                          tuple((n, d) for n, d in c.params), tuple(c.created), c.fault)
    lib.update(EXTRA)
    return lib


LIB = library()

ROLE_LABEL = {"source": "source", "psource": "payload_source", "sink": "sink", "psink": "payload_sink",
              "op": "op", "probe": "probe", "ctx": "ctx"}


@dataclass
class Exp:
    """What the documentation says a processor built for a spec declares."""
    role: str
    in_t: str
    out_t: Optional[str]
    created: set
    wrappers: list = field(default_factory=list)   # outermost first: "sweep" | "slicer"
    leaf: str = ""
    params: list = field(default_factory=list)     # parameter names the leaf takes
    ctx_kind: str = "ctx"                          # ctx | ctx_rename | ctx_delete | ctx_template | ctx_with_context_key | ...
    shape: str = ""                                # key shape of shorthands: plain | dotted | underscore


class NotModelled(Exception):
    pass


def _shape(*keys) -> str:
    if any("." in k for k in keys):
        return "dotted"
    if any(k.startswith("_") for k in keys):
        return "underscore"
    return "plain"


def expect(spec) -> Exp:
    op = spec[0]
    if op == "comp":
        e = LIB.get(spec[1])
        if e is None:
            raise NotModelled(spec[1])
        return Exp(e.role, e.in_t, e.out_t, set(e.created), [], spec[1], [n for n, _ in e.params])
    if op == "slice":
        inner = expect(spec[1])
        if inner.role not in ("op", "probe"):
            raise NotModelled("slice of " + inner.role)
        return Exp(inner.role, "Coll", "Coll" if inner.role == "op" else None, set(inner.created),
                   ["slicer"] + inner.wrappers, inner.leaf, inner.params)
    if op == "sweep":
        inner = expect(spec[1])
        if inner.role not in ("source", "op", "probe"):
            raise NotModelled("sweep of " + inner.role)
        created = {f"{v}_values" for v in spec[2]["variables"]}
        if inner.role != "source":
            created |= inner.created
        out_t = None if inner.role == "probe" else "Coll"
        return Exp(inner.role, inner.in_t, out_t, created, ["sweep"] + inner.wrappers, inner.leaf, inner.params)
    if op == "rename":
        return Exp("ctx", "Any", None, {spec[2]}, [], "rename", [spec[1]], "ctx_rename", _shape(spec[1], spec[2]))
    if op == "delete":
        return Exp("ctx", "Any", None, set(), [], "delete", [spec[1]], "ctx_delete", _shape(spec[1]))
    if op == "template":
        return Exp("ctx", "Any", None, {spec[2]}, [], "template", [], "ctx_template", _shape(spec[2]))
    if op == "with_key":
        return Exp("ctx", "Any", None, {spec[2]}, [], spec[1], [], "ctx_with_context_key", _shape(spec[2]))
    if op == "mf_mapped":
        return Exp("ctx", "Any", None, {spec[3] or "fit.parameters"}, [], "ModelFittingContextProcessor", [],
                   "ctx_model_fitting_mapped", _shape(spec[1], spec[2]))
    raise NotModelled(str(op))


def kind_of(exp: Exp, route: str = "factory") -> str:
    if route == "injector":
        base = "op_context_injector_probe"
    elif route == "ctxdata":
        base = "context_data_processor"
    elif exp.role == "ctx":
        base = exp.ctx_kind
    else:
        base = ROLE_LABEL[exp.role]
    return base + ("_" + "_of_".join(exp.wrappers) if exp.wrappers else "")


# --------------------------------------------------------------------------- definitions -> specs
def spec_from_definition(defn: dict):
    """Spec of a node definition written with string processors (what generators and YAML files contain)."""
    proc = defn.get("processor")
    if not isinstance(proc, str):
        return None
    params = defn.get("parameters") or {}
    m = rm._RE_RENAME.match(proc)
    if m:
        return ["rename", m.group(1), m.group(2)]
    m = rm._RE_DELETE.match(proc)
    if m:
        return ["delete", m.group(1)]
    m = rm._RE_TEMPLATE.match(proc)
    if m:
        return ["template", m.group(2), m.group(3)]
    m = rm._RE_SLICE.match(proc)
    if m:
        if m.group(1) not in LIB or m.group(2) != COLLECTION:
            return None
        spec = ["slice", ["comp", m.group(1)]]
    else:
        mod, sep, cls_name = proc.partition(":")
        name = cls_name if sep and "." in mod else proc       # fully qualified "package.module:Class"
        if name not in LIB:
            return None
        spec = ["comp", name]
        if name == "ModelFittingContextProcessor" and isinstance(params, dict):
            if "independent_var_key" in params and "dependent_var_key" in params:
                return ["mf_mapped", params["independent_var_key"], params["dependent_var_key"], params.get("context_key")]
            if "context_key" in params:
                return ["with_key", name, params["context_key"]]
    derive = defn.get("derive")
    if isinstance(derive, dict) and isinstance(derive.get("parameter_sweep"), dict):
        spec = ["sweep", spec, derive["parameter_sweep"]]
    return spec


# --------------------------------------------------------------------------- realisation (semantiva Python API)
def _var_specs(raw: dict) -> dict:
    """Sweep variable declarations -> the public spec objects of the Python API (RangeSpec / SequenceSpec /
    FromContext), as documented for ParametricSweepFactory.create; nothing private of the repository is used."""
    from semantiva.data_processors.parametric_sweep_factory import FromContext, RangeSpec, SequenceSpec

    out = {}
    for var, spec in raw.items():
        if isinstance(spec, list):
            out[var] = (RangeSpec(lo=float(spec[0]), hi=float(spec[1]), steps=10)
                        if len(spec) == 2 and all(isinstance(x, (int, float)) for x in spec) else SequenceSpec(spec))
        elif "from_context" in spec:
            out[var] = FromContext(spec["from_context"])
        elif {"lo", "hi", "steps"} <= set(spec):
            out[var] = RangeSpec(lo=float(spec["lo"]), hi=float(spec["hi"]), steps=int(spec["steps"]),
                                 scale=spec.get("scale", "linear"), endpoint=spec.get("endpoint", True))
        else:
            out[var] = SequenceSpec(spec["values"])
    return out


def realise_class(spec):
    from semantiva.registry import resolve_symbol

    op = spec[0]
    if op == "comp":
        return resolve_symbol(spec[1])
    if op == "slice":
        from semantiva.data_processors.data_slicer_factory import slice as make_slice

        return make_slice(realise_class(spec[1]), resolve_symbol(COLLECTION))
    if op == "sweep":
        from semantiva.data_processors.parametric_sweep_factory import ParametricSweepFactory

        inner = expect(spec[1])
        blk = spec[2]
        kind = {"source": "DataSource", "op": "DataOperation", "probe": "DataProbe"}[inner.role]
        return ParametricSweepFactory.create(
            element=realise_class(spec[1]), element_kind=kind,
            collection_output=None if inner.role == "probe" else resolve_symbol(COLLECTION),
            vars=_var_specs(blk["variables"]), parametric_expressions=dict(blk.get("parameters") or {}),
            mode=blk.get("mode", "combinatorial"), broadcast=bool(blk.get("broadcast", False)))
    if op == "rename":
        return resolve_symbol(f"rename:{spec[1]}:{spec[2]}")
    if op == "delete":
        return resolve_symbol(f"delete:{spec[1]}")
    if op == "template":
        return resolve_symbol(f'template:"{spec[1]}":{spec[2]}')
    if op == "with_key":
        return resolve_symbol(spec[1]).with_context_key(spec[2])
    raise NotModelled(str(op))


def definition_of(case: dict) -> dict:
    """Node definition for a route=factory case."""
    if "definition" in case:
        return copy.deepcopy(case["definition"])
    spec = case["spec"]
    form = case.get("form", "class")
    defn: dict = {}
    if form == "class" and spec[0] == "sweep":
        defn["processor"] = realise_class(spec[1])
        defn["derive"] = {"parameter_sweep": copy.deepcopy(spec[2])}
    else:
        defn["processor"] = realise_class(spec)
    if case.get("parameters"):
        defn["parameters"] = copy.deepcopy(case["parameters"])
    if case.get("context_key") is not None:
        defn["context_key"] = case["context_key"]
    return defn


def build(case: dict):
    """Construct the node of a case through the real factories."""
    from semantiva.pipeline.nodes._pipeline_node_factory import _PipelineNodeFactory, _pipeline_node_factory

    route = case["route"]
    if route == "factory":
        return _pipeline_node_factory(definition_of(case))
    if route == "injector":
        return _PipelineNodeFactory.create_data_operation_context_injector_probe_node(
            processor_cls=realise_class(case["spec"]), context_key=case["context_key"], **(case.get("kwargs") or {}))
    if route == "ctxdata":
        return _PipelineNodeFactory.create_context_processor_node(
            input_context_key=case["in_key"], output_context_key=case["out_key"],
            processor_cls=realise_class(case["spec"]), **(case.get("kwargs") or {}))
    raise ValueError(route)


def case_spec(case: dict):
    if "spec" in case:
        return case["spec"]
    return spec_from_definition(case["definition"])


def case_context_key(case: dict):
    if case["route"] == "injector":
        return case["context_key"]
    if case["route"] == "ctxdata":
        return case["out_key"]
    if "definition" in case:
        return case["definition"].get("context_key")
    return case.get("context_key")


# --------------------------------------------------------------------------- enumeration
KEY_SHAPES = ["k", "probe.result", "a_b", "_u", "x.y.z", "res1"]


def _value(name: str, rng) -> Any:
    if name in ("path",):
        return f"/nonexistent/verif-c16/{rng.randint(0, 999)}.txt"
    if name == "tag":
        return "tg"
    if name == "n":
        return rng.randint(0, 4)
    if name == "fitting_model":
        return "model:PolynomialFittingModel:degree=1"
    if name in ("x_values", "y_values"):
        return [1.0, 2.0, 3.0]
    return rng.choice([0.5, 1.0, 2.0, 3.0, -1.5, 10.0, 0.25, 4.0])


def placements(params: list, skip=frozenset()) -> list:
    """Which parameter names are written in the node configuration (the rest come from context / default)."""
    names = [n for n in params if n not in skip]
    out = [tuple(names)]
    if names:
        out.append(())
    if len(names) >= 2:
        out.append((names[0],))
        out.append((names[-1],))
    return out


def sweep_blocks(exp: Exp, rng, few: bool = False) -> list:
    """Sweep blocks over the parameters of a leaf: range / sequence / from_context variables, both modes."""
    ps = exp.params
    coll = {} if exp.role == "probe" else {"collection": COLLECTION}
    p0 = ps[0] if ps else None
    lo = rng.choice([0.0, 1.0, 0.5])
    seq = [rng.choice([0.5, 1.0, 2.0, 3.0]) for _ in range(rng.randint(1, 4))]
    v, w = rng.choice([("t", "s"), ("a", "b"), ("x1", "x10"), ("c", "a")])
    ck = rng.choice(["seq", "t_values", "grid_points"])
    blocks = [
        dict(coll, variables={v: {"lo": lo, "hi": lo + 2.0, "steps": rng.randint(1, 4)}},
             parameters=({p0: f"2.0 * {v}"} if p0 else {})),
        dict(coll, variables={v: {"values": seq}}, parameters=({p0: v} if p0 else {}), mode="by_position"),
        dict(coll, variables={v: {"from_context": ck}}, parameters=({p0: f"{v} + 1.0"} if p0 else {}), mode="combinatorial"),
    ]
    if few:
        return blocks[:2]
    blocks.append(dict(coll, variables={v: {"lo": 1.0, "hi": 100.0, "steps": 3, "scale": "log", "endpoint": False},
                                        w: [1.0, 2.0, 3.0]},
                       parameters=({p0: f"{v} * {w}"} if p0 else {}), mode="by_position", broadcast=True))
    blocks.append(dict(coll, variables={v: {"from_context": ck}, w: {"values": seq}},
                       parameters=({p0: f"min({v}, {w})"} if p0 else {}), mode="combinatorial", broadcast=False))
    if len(ps) >= 2:
        blocks.append(dict(coll, variables={v: {"values": seq}, w: {"lo": 0.0, "hi": 1.0, "steps": 2}},
                           parameters={ps[0]: v, ps[1]: f"{w} - {v}"}))
    return blocks


def _params(names, rng) -> dict:
    return {n: _value(n, rng) for n in names}


def enumerate_cases(rng, scale: int = 1) -> list:
    """Every component kind x every wrapping factory x nested combinations x parameter placements.
    Structure is enumerated; values and key names are drawn from ``rng`` (so shards differ in values, not shape)."""
    cases: list = []
    names = sorted(LIB)

    def factory(defn):
        cases.append({"route": "factory", "definition": defn})

    def add_node(proc: str, exp: Exp, placement, derive=None, spec=None):
        defn: dict = {"processor": proc}
        if placement:
            defn["parameters"] = _params(placement, rng)
        if exp.role == "probe":
            defn["context_key"] = rng.choice(KEY_SHAPES)
        if derive is not None:
            defn["derive"] = {"parameter_sweep": derive}
        factory(defn)

    # A. plain components (string name, fully qualified name, class)
    for name in names:
        exp = expect(["comp", name])
        if name == "ModelFittingContextProcessor":
            continue
        for pl in placements(exp.params):
            add_node(name, exp, pl)
        cases.append({"route": "factory", "spec": ["comp", name], "form": "class",
                      "parameters": _params(exp.params[:1], rng),
                      "context_key": rng.choice(KEY_SHAPES) if exp.role == "probe" else None})
    for name in ("VMul", "VValueProbe", "VSrc", "VNullSink", "VCtxScale"):
        exp = expect(["comp", name])
        add_node(f"vlib.components:{name}", exp, tuple(exp.params))
    # B. slicers
    sliceable = [n for n in names if (LIB[n].role == "op" and LIB[n].in_t == "Float" and LIB[n].out_t == "Float")
                 or (LIB[n].role == "probe" and LIB[n].in_t == "Float")]
    for name in sliceable:
        exp = expect(["slice", ["comp", name]])
        for pl in placements(exp.params):
            add_node(f"slice:{name}:{COLLECTION}", exp, pl)
        cases.append({"route": "factory", "spec": ["slice", ["comp", name]], "form": "class",
                      "context_key": rng.choice(KEY_SHAPES) if exp.role == "probe" else None})
    # C. sweeps x3 kinds
    sweepable = [n for n in names if LIB[n].role in ("source", "op", "probe") and not LIB[n].fault
                 and not (LIB[n].role == "op" and LIB[n].out_t != "Float")]
    for name in sweepable:
        inner = expect(["comp", name])
        for blk in sweep_blocks(inner, rng, few=not inner.params):
            for pl in placements(inner.params, skip=set(blk["parameters"]))[:2 * scale]:
                add_node(name, inner, pl, derive=blk)
        blk = sweep_blocks(inner, rng)[0]
        cases.append({"route": "factory", "spec": ["sweep", ["comp", name], blk], "form": "class_direct",
                      "context_key": rng.choice(KEY_SHAPES) if inner.role == "probe" else None})
        cases.append({"route": "factory", "spec": ["sweep", ["comp", name], blk], "form": "class",
                      "context_key": rng.choice(KEY_SHAPES) if inner.role == "probe" else None})
    # D. shorthands
    for src, dst in [("a", "b"), ("a.b", "c.d"), ("_x", "y_1"), ("a", "a"), ("long.dotted.key", "k9"), ("t_values", "kept")]:
        factory({"processor": f"rename:{src}:{dst}"})
    for key in ["a", "a.b", "_u", "t_values", "x.y.z"]:
        factory({"processor": f"delete:{key}"})
    for tpl, out, q in [("x_{a}", "out", '"'), ("{a}_{b}", "path.to", "'"), ("{a}{a}", "label", '"'),
                        ("/tmp/f_{run}_{k}.txt", "path", '"'), ("{_u}", "_v", "'")]:
        factory({"processor": f"template:{q}{tpl}{q}:{out}"})
    cases.append({"route": "factory", "spec": ["rename", "p", "q.r"], "form": "class"})
    cases.append({"route": "factory", "spec": ["delete", "p.q"], "form": "class"})
    cases.append({"route": "factory", "spec": ["template", "{p}-{q}", "r"], "form": "class"})
    # E. with_context_key variants and the model-fitting mapping factory
    fm = "model:PolynomialFittingModel:degree=1"
    factory({"processor": "ModelFittingContextProcessor", "parameters": {"fitting_model": fm}})
    factory({"processor": "ModelFittingContextProcessor"})
    for key in ["fit", "fit.out", "a_b", "x.y.z", "res[0]"]:
        factory({"processor": "ModelFittingContextProcessor", "parameters": {"fitting_model": fm, "context_key": key}})
        cases.append({"route": "factory", "spec": ["with_key", "ModelFittingContextProcessor", key], "form": "class"})
    for indep, dep, key in [("t_values", "res", None), ("x", "info.value", "fit.coeffs"), ("grid", "probe_out.abs_value", "k"),
                            ("t_values", "y", "fit.parameters")]:
        p = {"fitting_model": fm, "independent_var_key": indep, "dependent_var_key": dep}
        if key is not None:
            p["context_key"] = key
        factory({"processor": "ModelFittingContextProcessor", "parameters": p})
    # F. context-injecting operation probe node
    ops = [n for n in names if LIB[n].role == "op"]
    float_ops = [n for n in ops if LIB[n].in_t == "Float" and LIB[n].out_t == "Float"]
    for name in ops:
        exp = expect(["comp", name])
        for pl in placements(exp.params)[:2]:
            cases.append({"route": "injector", "spec": ["comp", name], "context_key": rng.choice(KEY_SHAPES),
                          "kwargs": _params(pl, rng)})
    for name in float_ops:
        cases.append({"route": "injector", "spec": ["slice", ["comp", name]], "context_key": rng.choice(KEY_SHAPES)})
    for name in [n for n in float_ops if not LIB[n].fault]:
        inner = expect(["comp", name])
        for blk in sweep_blocks(inner, rng, few=True):
            cases.append({"route": "injector", "spec": ["sweep", ["comp", name], blk], "context_key": rng.choice(KEY_SHAPES)})
    # G. context-data-processor node
    for name in [n for n in names if LIB[n].role in ("op", "probe")]:
        exp = expect(["comp", name])
        i, o = rng.choice([("a", "b"), ("in.key", "out.key"), ("v", "v"), ("_x", "y_1")])
        cases.append({"route": "ctxdata", "spec": ["comp", name], "in_key": i, "out_key": o,
                      "kwargs": {}})
        if LIB[name].in_t == "Float" and (LIB[name].role == "probe" or LIB[name].out_t == "Float"):
            cases.append({"route": "ctxdata", "spec": ["slice", ["comp", name]], "in_key": i, "out_key": o})
            if not LIB[name].fault:
                blk = sweep_blocks(exp, rng, few=True)[rng.randrange(2)]
                cases.append({"route": "ctxdata", "spec": ["sweep", ["comp", name], blk], "in_key": i, "out_key": o})
    # H. nested combinations reachable through the Python API
    for name in sliceable:
        if LIB[name].fault:
            continue
        inner = expect(["slice", ["comp", name]])
        for blk in sweep_blocks(inner, rng, few=True):
            ck = rng.choice(KEY_SHAPES) if inner.role == "probe" else None
            # sweep of a sliced operation / probe (class handed to the node definition, sweep through derive)
            cases.append({"route": "factory", "spec": ["sweep", ["slice", ["comp", name]], blk], "form": "class",
                          "context_key": ck, "parameters": {}})
            cases.append({"route": "factory", "spec": ["sweep", ["slice", ["comp", name]], blk], "form": "class_direct",
                          "context_key": ck})
        if LIB[name].role == "op":
            cases.append({"route": "injector", "spec": ["sweep", ["slice", ["comp", name]], sweep_blocks(inner, rng, few=True)[0]],
                          "context_key": rng.choice(KEY_SHAPES)})
    for name in [n for n in names if LIB[n].role == "probe" and LIB[n].in_t == "Float"]:
        inner = expect(["comp", name])
        for blk in sweep_blocks(inner, rng, few=not inner.params)[:3]:
            # slicer of a swept probe
            cases.append({"route": "factory", "spec": ["slice", ["sweep", ["comp", name], blk]], "form": "class",
                          "context_key": rng.choice(KEY_SHAPES)})
    # the same nesting written with strings (the loader resolves slice:... only as a processor name)
    factory({"processor": f"slice:VMul:{COLLECTION}",
             "derive": {"parameter_sweep": {"parameters": {"factor": "t"}, "variables": {"t": [1.0, 2.0, 3.0]},
                                            "collection": COLLECTION}}})
    return cases
