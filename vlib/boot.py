"""Environment bootstrap shared by every check.

* puts VERIF_REPO (default /repo) first on sys.path and asserts semantiva is imported from it
* adds /verif (for the harness extension ``vlib.components``) and /verif/.deps (icontract)
* silences the semantiva console logger
* loads the registry defaults, the repository's example extension and the harness extension
"""
from __future__ import annotations

import logging
import os
import sys
import time

VERIF_DIR = os.path.dirname(os.path.dirname(os.path.abspath(__file__)))
REPO = os.path.abspath(os.environ.get("VERIF_REPO", "/repo"))
DEPS = os.path.join(VERIF_DIR, ".deps")

EXTENSIONS = ["semantiva-examples", "vlib.components"]


def _paths() -> None:
    for p in (DEPS, VERIF_DIR, REPO):
        while p in sys.path:
            sys.path.remove(p)
    sys.path.insert(0, DEPS)
    sys.path.insert(0, VERIF_DIR)
    sys.path.insert(0, REPO)


def child_env(extra: dict | None = None) -> dict:
    """Environment for subprocesses that must see the same tree and the harness extension."""
    env = dict(os.environ)
    env["PYTHONPATH"] = os.pathsep.join([REPO, VERIF_DIR, DEPS])
    env["VERIF_REPO"] = REPO
    env.setdefault("PYTHONHASHSEED", "0")
    if extra:
        env.update({k: str(v) for k, v in extra.items()})
    return env


_BOOTED = False


def boot(quiet: bool = True):
    """Idempotent. Returns the imported semantiva package."""
    global _BOOTED
    _paths()
    import semantiva  # noqa

    here = os.path.abspath(semantiva.__file__)
    if not here.startswith(REPO + os.sep):
        raise RuntimeError(f"semantiva imported from {here}, expected under {REPO}")
    if _BOOTED:
        return semantiva
    if quiet:
        silence()
    from semantiva.registry import load_extensions
    from semantiva.registry.bootstrap import DEFAULT_MODULES
    from semantiva.registry.processor_registry import ProcessorRegistry

    ProcessorRegistry.register_modules(DEFAULT_MODULES)
    ProcessorRegistry.ensure_default_modules(DEFAULT_MODULES)
    load_extensions(EXTENSIONS)
    _BOOTED = True
    return semantiva


def silence() -> None:
    lg = logging.getLogger("Semantiva")
    lg.handlers = [logging.NullHandler()]
    lg.setLevel(logging.CRITICAL + 10)
    lg.propagate = False
    try:
        from semantiva.logger import Logger

        Logger._initialized = True
    except Exception:
        pass


def set_tz(tz: str) -> None:
    os.environ["TZ"] = tz
    time.tzset()
