"""Harness for the queue orchestrator / worker loop (C15): client-boundary history monitor, transport taps,
yield injection under real threads, and a *quiescence* detector that decides "this Future can no longer complete"
from observed state instead of from a timeout.

Everything attaches from outside:

* ``TapQueue`` is substituted for ``orchestrator.job_queue`` after construction (attribute substitution).  It counts
  the master's ``get`` calls (= loop-head passes) and, optionally, caps the hard-coded 0.2 s poll timeout.
* ``TransportTap`` is a per-party proxy around the one shared ``InMemorySemantivaTransport``; it records
  publish / deliver events and, for workers, whether the worker is between "message handed out" and "came back
  to the subscription iterator" (= inside a job) and whether a complete subscription sweep found nothing.
* ``UuidShim`` replaces the name ``uuid`` in the queue_orchestrator module namespace so that the job id drawn by
  ``enqueue`` is known at the client boundary.
* ``YieldInjector`` is a sys.monitoring LINE callback (tool id 5) on every code object of queue_orchestrator.py,
  worker.py and in_memory.py: with probability p it calls ``time.sleep(0)`` or sleeps ~50 us; PRNG per thread.
  The same callback counts passes over the ``while`` line of ``run_forever`` (master loop iterations).
"""
from __future__ import annotations

import ast
import inspect
import logging
import queue
import random
import sys
import threading
import time
import uuid as _real_uuid
import zlib
from typing import Any, Optional

MASTER_NAME = "c15-master"
WORKER_PREFIX = "c15-w"
TOOL_ID = 5


# ------------------------------------------------------------------------------------------------ monitor state
class Monitor:
    """Thread-safe shared state of one batch.  Every mutation happens under ``lock``."""

    def __init__(self) -> None:
        self.lock = threading.Lock()
        self.tick = 0
        self.events: list = []                 # (tick, role, what, job_id, extra)
        self.master_gets = 0                   # loop-head passes seen at TapQueue.get
        self.loop_line_hits = 0                # loop-head passes seen by the LINE probe (single writer: master)
        self.published: dict = {}              # channel kind -> {job_id: n}
        self.delivered: dict = {}
        self.w_in_job: dict = {}               # worker role -> job id or None
        self.w_sweep_start: dict = {}          # worker role -> tick of the running sweep's start
        self.w_last_idle_start: dict = {}      # worker role -> start tick of the last sweep that found nothing
        self.w_sweeps: dict = {}
        self.w_jobs: dict = {}
        self.completions: dict = {}            # job index -> [snapshots]
        self.thread_deaths: dict = {}          # role -> exception
        self.worker_log: dict = {}             # job id -> [event names]

    def ev(self, role: str, what: str, jid: Optional[str] = None, extra: Any = None) -> int:
        with self.lock:
            self.tick += 1
            self.events.append((self.tick, role, what, jid, extra))
            return self.tick

    def now(self) -> int:
        with self.lock:
            self.tick += 1
            return self.tick

    def bump(self, table: dict, kind: str, jid: str) -> None:
        with self.lock:
            d = table.setdefault(kind, {})
            d[jid] = d.get(jid, 0) + 1


def channel_parts(channel: str):
    p = channel.split(".")
    if len(p) == 3 and p[0] == "jobs":
        return p[1], p[2]
    return None, channel


# ------------------------------------------------------------------------------------------------ taps
class TapQueue(queue.Queue):
    """Drop-in for ``orchestrator.job_queue``: counts the master's gets; ``poll`` caps the poll timeout."""

    def __init__(self, mon: Monitor, poll: Optional[float], hold_until_statuses: int = 0):
        super().__init__()
        self._mon, self._poll = mon, poll
        # status backlog: once the job queue is empty the master stays in its poll (as if descheduled there) until this
        # many status messages have been published by the workers, or 3 s have passed - then the poll times out as usual
        self._hold = hold_until_statuses
        self._held = False

    def get(self, block=True, timeout=None):
        if threading.current_thread().name == MASTER_NAME:
            with self._mon.lock:
                self._mon.master_gets += 1
            if self._hold and not self._held and timeout is not None and self.empty():
                import time as _t

                t_end = _t.monotonic() + 3.0
                while _t.monotonic() < t_end and self.empty():
                    with self._mon.lock:
                        n = sum((self._mon.published.get("status") or {}).values())
                    if n >= self._hold:
                        break
                    _t.sleep(0.002)
                if self.empty():
                    self._held = True
        if timeout is not None and self._poll is not None:
            timeout = min(timeout, self._poll)
        return super().get(block, timeout)


class SubTap:
    def __init__(self, sub, tap: "TransportTap", pattern: str):
        self._sub, self._tap, self._pattern = sub, tap, pattern

    def __iter__(self):
        tap, mon, role = self._tap, self._tap.mon, self._tap.role
        is_cfg = self._pattern.endswith(".cfg")
        if is_cfg:
            with mon.lock:
                mon.tick += 1
                mon.w_sweep_start[role] = mon.tick
        hold = getattr(tap, "hold_cfg_until", 0)
        if is_cfg and hold:
            # status backlog: the workers only start taking jobs once the master has published all of them (busy workers
            # that come back later), so no status is consumed while the master is still publishing
            import time as _t

            t_end = _t.monotonic() + 3.0
            while _t.monotonic() < t_end:
                with mon.lock:
                    if sum((mon.published.get("cfg") or {}).values()) >= hold:
                        break
                _t.sleep(0.001)
        it = iter(self._sub)
        first = True
        while True:
            if is_cfg:
                with mon.lock:
                    mon.w_in_job[role] = None
            try:
                msg = next(it)
            except StopIteration:
                if is_cfg:
                    with mon.lock:
                        mon.w_sweeps[role] = mon.w_sweeps.get(role, 0) + 1
                        if first:
                            mon.w_last_idle_start[role] = mon.w_sweep_start[role]
                return
            first = False
            jid = None
            try:
                if is_cfg:
                    jid = msg.metadata.get("job_id")
                else:
                    jid = msg.context.get_value("job_id")
            except Exception:
                pass
            if is_cfg:
                with mon.lock:
                    mon.w_in_job[role] = jid or "<unknown>"
                    mon.w_jobs[role] = mon.w_jobs.get(role, 0) + 1
            kind = "cfg" if is_cfg else "status"
            mon.bump(mon.delivered, kind, str(jid))
            mon.ev(role, "deliver_" + kind, jid)
            yield msg

    def close(self) -> None:
        self._sub.close()

    def __getattr__(self, name):
        return getattr(self._sub, name)


class TransportTap:
    """Per-party proxy of the shared transport (the party's only handle on it)."""

    def __init__(self, real, mon: Monitor, role: str):
        self.real, self.mon, self.role = real, mon, role

    def connect(self) -> None:
        self.real.connect()

    def close(self) -> None:
        self.real.close()

    def publish(self, channel, data, context, metadata=None, require_ack=False):
        jid, kind = channel_parts(channel)
        self.mon.bump(self.mon.published, kind, str(jid))
        self.mon.ev(self.role, "publish_" + str(kind), jid)
        return self.real.publish(channel, data=data, context=context, metadata=metadata, require_ack=require_ack)

    def subscribe(self, channel, *, callback=None):
        return SubTap(self.real.subscribe(channel, callback=callback), self, channel)

    def __repr__(self) -> str:
        return f"TransportTap({self.role})"


class UuidShim:
    """Stands in for the ``uuid`` module inside queue_orchestrator: remembers the last id drawn per thread."""

    def __init__(self) -> None:
        self._tls = threading.local()

    def uuid4(self):
        u = _real_uuid.uuid4()
        self._tls.last = str(u)
        return u

    def take(self) -> Optional[str]:
        v = getattr(self._tls, "last", None)
        self._tls.last = None
        return v

    def __getattr__(self, name):
        return getattr(_real_uuid, name)


class JobLogHandler(logging.Handler):
    """Worker-side log record of what the worker said it did with each job (evidence for classification only)."""

    PATTERNS = (("Picked up job ", "picked"), ("Completed job ", "completed"), ("Worker failed job ", "failed"),
                ("Failed to load pipeline YAML for job ", "yaml_load_failed"),
                ("Invalid pipeline configuration received for job ", "invalid_cfg"))

    def __init__(self, mon: Monitor):
        super().__init__(level=logging.INFO)
        self.mon = mon

    def emit(self, record) -> None:
        try:
            msg = record.getMessage()
        except Exception:
            return
        for pat, name in self.PATTERNS:
            if msg.startswith(pat):
                jid = msg[len(pat):].split(" ", 1)[0].split(":", 1)[0]
                with self.mon.lock:
                    self.mon.worker_log.setdefault(jid, []).append(name)
                return


def make_logger(name: str, handler: Optional[logging.Handler] = None):
    from semantiva.logger.logger import Logger

    pl = logging.Logger(name)          # not registered with the logging manager: garbage-collected with the batch
    pl.propagate = False
    if handler is None:
        pl.addHandler(logging.NullHandler())
        pl.setLevel(logging.CRITICAL + 10)
    else:
        pl.addHandler(handler)
        pl.setLevel(logging.INFO)
    return Logger(logger=pl)


# ------------------------------------------------------------------------------------------------ yield injection
def _modules():
    from semantiva.execution.job_queue import queue_orchestrator, worker
    from semantiva.execution.transport import in_memory

    return [queue_orchestrator, worker, in_memory]


def find_loop_line():
    """(code object of run_forever, line number of its ``while`` statement) or (None, None)."""
    from semantiva.execution.job_queue import queue_orchestrator as qo

    try:
        fn = qo.QueueSemantivaOrchestrator.run_forever
        code = fn.__code__
        tree = ast.parse(inspect.getsource(qo))
        for node in ast.walk(tree):
            if isinstance(node, ast.FunctionDef) and node.name == "run_forever":
                for sub in ast.walk(node):
                    if isinstance(sub, ast.While):
                        return code, sub.lineno
    except Exception:
        pass
    return None, None


class YieldInjector:
    """LINE events on the job-queue modules: seeded per-thread yields, first-N order record, loop-head counter."""

    ORDER_N = 400

    def __init__(self) -> None:
        from vlib.sched import code_objects

        self.codes: list = []
        for m in _modules():
            self.codes += code_objects(m)
        self.index = {c: i for i, c in enumerate(self.codes)}
        self.loop_code, self.loop_line = find_loop_line()
        self.tls = threading.local()
        self.gen = 0
        self.p = 0.0
        self.seed = 0
        self.mon: Optional[Monitor] = None
        self.order: list = []
        self.states: list = []
        self.installed = False
        self.line_events_total = 0
        self.yields_total = 0
        self.hot: frozenset = frozenset()
        self.slow = None
        # every (code index, line) pair that can raise a LINE event: the population hot lines are drawn from
        self.points = sorted({(i, ln) for i, c in enumerate(self.codes) for (_s, _e, ln) in c.co_lines() if ln is not None})

    def install(self) -> "YieldInjector":
        mon = sys.monitoring
        mon.use_tool_id(TOOL_ID, "verif-c15-yield")
        mon.register_callback(TOOL_ID, mon.events.LINE, self._line)
        for c in self.codes:
            mon.set_local_events(TOOL_ID, c, mon.events.LINE)
        self.installed = True
        return self

    def uninstall(self) -> None:
        if not self.installed:
            return
        mon = sys.monitoring
        for c in self.codes:
            try:
                mon.set_local_events(TOOL_ID, c, 0)
            except Exception:
                pass
        mon.register_callback(TOOL_ID, mon.events.LINE, None)
        mon.free_tool_id(TOOL_ID)
        self.installed = False

    def begin_batch(self, seed: int, p: float, mon: Monitor, hot=(), slow=None) -> None:
        """``hot`` = (code index, line) pairs at which every thread always pauses ~0.3 ms (widens one chosen window);
        ``slow`` = name of one thread that pauses ~0.1 ms at every LINE event (widens all of that thread's windows)."""
        self.slow = slow
        self.gen += 1
        self.seed, self.p, self.mon = seed, p, mon
        self.hot = frozenset((self.codes[i], ln) for i, ln in hot if 0 <= i < len(self.codes))
        self.order = []
        self.states = []

    def end_batch(self):
        """-> (line events, injected yields, first-N order) of the batch just finished."""
        self.mon = None
        self.hot = frozenset()
        self.slow = None
        p, self.p = self.p, 0.0
        self.gen += 1
        ev = sum(s[2] for s in self.states)
        yl = sum(s[3] for s in self.states)
        self.line_events_total += ev
        self.yields_total += yl
        return ev, yl, list(self.order[: self.ORDER_N])

    def _state(self):
        name = threading.current_thread().name
        rng = random.Random((self.seed << 32) ^ zlib.crc32(name.encode()))
        st = [self.gen, rng, 0, 0, name]          # gen, rng, line events, yields, role
        self.tls.st = st
        self.states.append(st)
        return st

    def _line(self, code, line):
        try:
            st = self.tls.st
            if st[0] != self.gen:
                st = self._state()
        except AttributeError:
            st = self._state()
        st[2] += 1
        if code is self.loop_code and line == self.loop_line:
            m = self.mon
            if m is not None:
                m.loop_line_hits += 1
        if self.hot and (code, line) in self.hot:
            st[3] += 1
            if len(self.order) < self.ORDER_N:
                self.order.append((st[4], self.index.get(code, -1), line))
            time.sleep(3e-4)
            return None
        if self.slow is not None and st[4] == self.slow:
            st[3] += 1
            if len(self.order) < self.ORDER_N:
                self.order.append((st[4], self.index.get(code, -1), line))
            time.sleep(1e-4)
            return None
        p = self.p
        if p <= 0.0:
            return None
        r = st[1].random()
        if r < p:
            st[3] += 1
            if len(self.order) < self.ORDER_N:
                self.order.append((st[4], self.index.get(code, -1), line))
            if r < p * 0.5:
                time.sleep(0)
            else:
                time.sleep(5e-5)
        return None


# ------------------------------------------------------------------------------------------------ quiescence
def transport_depths(real):
    """{"cfg": n, "status": n, "other": n} from the transport's real queues, or None when they cannot be seen.

    The channel table is found STRUCTURALLY (any dict held by the transport whose values are, or contain as tuple
    members / attributes, a deque), so renaming a private attribute of the transport cannot blind the quiescence check."""
    import collections

    out = {"cfg": 0, "status": 0, "other": 0}
    seen_table = False
    try:
        for v in list(vars(real).values()):
            if not isinstance(v, dict):
                continue
            for ch, ent in list(v.items()):
                if isinstance(ent, collections.deque):
                    dq = ent
                else:
                    parts = list(ent) if isinstance(ent, (tuple, list)) else list(vars(ent).values()) if hasattr(ent, "__dict__") else []
                    dq = next((x for x in parts if isinstance(x, collections.deque)), None)
                if dq is None or not isinstance(ch, str):
                    continue
                seen_table = True
                _, kind = channel_parts(ch)
                out[kind if kind in ("cfg", "status") else "other"] += len(dq)
            if not v and not seen_table:
                seen_table = seen_table or False
    except Exception:
        return None
    if not seen_table:
        # no channel exists yet (nothing was ever published): an empty table is a visible, empty transport as long as the
        # transport holds at least one dict that could be the table
        if any(isinstance(v, dict) and not v for v in vars(real).values()):
            return out
        return None
    return out


class Quiescence:
    """Polled state machine.  ``established`` becomes True only through the chain of stable facts below.

    A  all enqueue calls have returned and the job queue is empty           (only the client puts => stays empty)
    B  the master passed its loop head >= 3 more times                      (nothing dequeued is still unpublished
                                                                             => no cfg message will ever be created)
    C  every cfg channel is empty                                           (no producer left => stays empty)
    D  every worker is dead, or is outside a job and has finished a sweep
       that started after C and found nothing                               (=> no status message will be created)
    E  every status channel is empty                                        (no producer left => stays empty)
    F  the master passed its loop head >= 3 more times                      (nothing popped is still unprocessed)
    G  re-check of A, C, D, E and the leaf recorder did not grow since D    (=> no message exists or can be created)
    """

    def __init__(self, mon: Monitor, orch, real_transport, worker_roles: list, threads: dict, rec):
        self.mon, self.orch, self.real, self.roles, self.threads, self.rec = mon, orch, real_transport, worker_roles, threads, rec
        self.phase = "A"
        self.mark_iters = None
        self.mark_tick = None
        self.rec_len = None
        self.established = False
        self.master_dead = False
        self.trace: list = []
        self.uses_line_probe = False

    def iters(self):
        with self.mon.lock:
            return self.mon.master_gets, self.mon.loop_line_hits

    def _advanced(self, mark, k=3) -> bool:
        g, h = self.iters()
        ok = g >= mark[0] + k
        if self.uses_line_probe:
            ok = ok and h >= mark[1] + k
        return ok

    def _workers_idle_since(self, tick) -> bool:
        with self.mon.lock:
            for r in self.roles:
                t = self.threads.get(r)
                if t is not None and not t.is_alive():
                    continue
                if self.mon.w_in_job.get(r) is not None:
                    return False
                if self.mon.w_last_idle_start.get(r, -1) <= tick:
                    return False
        return True

    def _any_worker_alive(self) -> bool:
        return any(self.threads[r].is_alive() for r in self.roles)

    def step(self) -> bool:
        """Advance as far as possible; True when quiescence is established."""
        if self.established:
            return True
        mt = self.threads.get(MASTER_NAME)
        self.master_dead = mt is not None and not mt.is_alive()
        while True:
            ph = self.phase
            if ph == "A":
                if self.orch.job_queue.qsize() != 0 and not self.master_dead:
                    return False
                self.mark_iters = self.iters()
                self._to("B")
            elif ph == "B":
                if not self.master_dead and not self._advanced(self.mark_iters):
                    return False
                self._to("C")
            elif ph == "C":
                d = transport_depths(self.real)
                if d is None:
                    return False
                if d["cfg"] != 0 and self._any_worker_alive():
                    return False
                self.mark_tick = self.mon.now()
                self._to("D")
            elif ph == "D":
                if not self._workers_idle_since(self.mark_tick):
                    return False
                self.rec_len = len(self.rec)
                self._to("E")
            elif ph == "E":
                d = transport_depths(self.real)
                if d is None:
                    return False
                if d["status"] != 0 and not self.master_dead:
                    return False
                self.mark_iters = self.iters()
                self._to("F")
            elif ph == "F":
                if not self.master_dead and not self._advanced(self.mark_iters):
                    return False
                self._to("G")
            elif ph == "G":
                d = transport_depths(self.real)
                with self.mon.lock:
                    in_job = [r for r in self.roles if self.mon.w_in_job.get(r) is not None and self.threads[r].is_alive()]
                stable = (d is not None and (d["cfg"] == 0 or not self._any_worker_alive())
                          and (d["status"] == 0 or self.master_dead)
                          and (self.orch.job_queue.qsize() == 0 or self.master_dead)
                          and not in_job and len(self.rec) == self.rec_len)
                if not stable:
                    self.phase = "A"       # something moved although it should not have: start over
                    self.trace.append("restart")
                    return False
                self.established = True
                self._to("Q")
                return True
            else:
                return self.established

    def _to(self, ph: str) -> None:
        self.trace.append(ph)
        self.phase = ph


def install_uuid_shim():
    from semantiva.execution.job_queue import queue_orchestrator as qo

    shim = UuidShim()
    old = qo.uuid
    qo.uuid = shim

    def restore():
        qo.uuid = old

    return shim, restore
