"""Contracts-on run of the repository's own test suite (thorough tiers): the existing tests become extra workload
for the harness's oracles.  Executed in an rsync scratch copy of the tree under test (the suite writes logs/ and
output*.txt into its cwd), removed afterwards."""
from __future__ import annotations

import json
import os
import shutil
import subprocess
import tempfile

from . import boot


def run_suite_with_contracts(run, contracts: str = "resolution", timeout: int = 1500) -> dict:
    t = tempfile.mkdtemp(prefix="verif-suite-", dir="/var/tmp")
    out = os.path.join(t, "_verif_suite_out.json")
    try:
        subprocess.run(["rsync", "-a", "--exclude", ".git", "--exclude", "logs", "--exclude", "__pycache__", boot.REPO + "/", t + "/"], check=True)
        env = dict(os.environ)
        env.update({"PYTHONPATH": os.pathsep.join([t, boot.VERIF_DIR, boot.DEPS]), "VERIF_REPO": t, "VERIF_SUITE_OUT": out,
                    "VERIF_SUITE_CONTRACTS": contracts, "PYTHONHASHSEED": "0"})
        env.pop("SEMANTIVA_VERIF", None)
        p = subprocess.run(["/venv/bin/python", "-m", "pytest", "-q", "-p", "no:cacheprovider", "-p", "vlib.suite_plugin",
                            "--timeout=900", "-x", "--deselect", "tests/test_export_ontology.py::test_export_framework_ontology_script"],
                           cwd=t, env=env, capture_output=True, text=True, timeout=timeout)
        tail = p.stdout.strip().splitlines()[-1] if p.stdout.strip() else ""
        run.info["suite_with_contracts"] = {"summary_line": tail, "returncode": p.returncode}
        if not os.path.exists(out):
            run.note_inconclusive(f"contracts-on suite run produced no report: {tail!r} {p.stderr[-300:]!r}")
            return {}
        with open(out, encoding="utf-8") as fh:
            rep = json.load(fh)
        run.count("suite_contract_evaluations_resolution", rep.get("resolution_evaluations", 0))
        run.count("suite_contract_evaluations_runspace", rep.get("runspace_evaluations", 0))
        for v in rep.get("violations", []):
            run.violation(v["key"] + "@repo_suite", "during the repository's own test suite: " + v["what"], {"witness": v["witness"]})
        if p.returncode not in (0,):
            run.info["suite_with_contracts"]["note"] = "suite did not pass under the plugin (exit %s): %s" % (p.returncode, tail)
        return rep
    except subprocess.TimeoutExpired:
        run.note_inconclusive("contracts-on suite run hit its watchdog")
        return {}
    finally:
        shutil.rmtree(t, ignore_errors=True)
