"""Seeded generators of pipeline configurations, sweeps and initial payloads.

Own PRNG code (``random.Random(seed)``), so VERIF_SEED fully determines a workload and a replay file can
name the exact case.  A *case* is JSON-able: {"nodes": [...], "ctx": {...}, "data": "NoData"|float|[floats]}.
"""
from __future__ import annotations

import random
from typing import Any, Optional

from . import refmodel as rm

VALS = [0.5, 1.0, 2.0, 3.0, -1.5, 10.0, 0.25, 4.0]
KEY_ALPHABET = ["factor", "addend", "value", "base", "k", "scale", "a", "b", "note", "offset", "seed", "scaled", "ps_key"]

SOURCES = ["VSrc", "VSrcDefault", "VCollSrc", "FloatDataSource", "VPayloadSrc"]
FLOAT_OPS = ["VMul", "VMulDefault", "VAdd", "VAddDefault", "VAffine", "VAddNote", "FloatSquareOperation", "VMemoMul", "VInPlaceMul"]
COLL_OPS = ["VCollSum", "FloatCollectionSumOperation"]
FLOAT_PROBES = ["VValueProbe", "VScaledProbe", "VOffsetProbe", "FloatBasicProbe", "VMemoScaledProbe"]
SINKS = ["VNullSink", "VFileSink", "FloatDataSink"]
FAULTS = ["VBadWriter", "VBoom", "VBadType", "VCtxBadWriter", "VWriteThenBoom", "VCtxWriteThenBoom"]
SLICEABLE_OPS = ["VMul", "VMulDefault", "VAdd", "VAddDefault", "VAffine", "VAddNote", "FloatSquareOperation", "VInPlaceMul"]
SLICEABLE_PROBES = ["VValueProbe", "VScaledProbe", "VOffsetProbe"]
ODD_EXC = ["unicode_decode", "unicode_encode", "exception_group", "os_error", "key_error_tuple", "stop_iteration",
           "empty_message", "two_arg_custom", "zero_division", "wraps_exception", "key_error_frozenset", "value_error_bytes"]
SWEEP_OPS = ["VMul", "VMulDefault", "VAdd", "VAffine", "VAddNote", "VPoly", "VMemoMul"]   # not VInPlaceMul: every step of a sweep is handed the same input object; whether an in-place operation may compound over the steps is not documented
SWEEP_PROBES = ["VScaledProbe", "VOffsetProbe", "VMemoScaledProbe"]
SWEEP_SRCS = ["VSrc", "VSrcDefault"]

EXPR_TEMPLATES_1 = ["{x}", "2.0 * {x}", "{x} + 1.0", "{x} * {x}", "-{x}", "abs({x}) + 0.5", "max({x}, 1.0)", "{x} / 2.0",
                    "float({x})", "{x} ** 2", "({x} + 1.0) * 3.0", "{x} if {x} > 1.0 else 1.0"]
EXPR_TEMPLATES_2 = ["{x} + {y}", "{x} * {y}", "{x} - {y}", "min({x}, {y})", "{x} * 2.0 + {y}", "{y} - {x}", "({x} + {y}) / 2.0",
                    "{x} if {x} > {y} else {y}"]


class Gen:
    def __init__(self, seed: int, scratch: Optional[str] = None):
        self.rng = random.Random(seed)
        self.scratch = scratch or "."
        self._n = 0

    # ------------------------------------------------------------------ helpers
    def val(self) -> float:
        return self.rng.choice(VALS)

    def cval(self) -> float:
        """A value for the context / payload channel: now and then falsy-but-not-None (0.0), the class of value that
        ``if value:`` / ``value or default`` shortcuts silently mistake for "absent"."""
        return 0.0 if self.rng.random() < 0.07 else self.rng.choice(VALS)

    def fresh(self, prefix: str) -> str:
        self._n += 1
        return f"{prefix}{self._n}"

    def chance(self, p: float) -> bool:
        return self.rng.random() < p

    # ------------------------------------------------------------------ sweeps
    def var_spec(self, allow_ctx_key: Optional[str] = None, plain_list_ok: bool = True) -> Any:
        if self.rng.random() < 0.05:
            # values of tiny magnitude (tolerances, step sizes): 1e-9 is a value, not "zero up to noise"
            if self.rng.random() < 0.5:
                return {"lo": 0.0, "hi": self.rng.choice([4e-9, 8e-9]), "steps": self.rng.randint(3, 5)}
            return {"lo": 1e-9, "hi": 1e-6, "steps": self.rng.randint(2, 4), "scale": "log"}
        r = self.rng.random()
        if allow_ctx_key and r < 0.25:
            return {"from_context": allow_ctx_key}
        if r < 0.55:
            lo = self.rng.choice([0.0, 1.0, -1.0, 0.5, 2.0])
            hi = lo + self.rng.choice([1.0, 2.0, 3.0, 0.5])
            spec = {"lo": lo, "hi": hi, "steps": self.rng.randint(1, 5)}
            if self.chance(0.35):
                spec["endpoint"] = self.chance(0.5)
            if self.chance(0.3):
                spec["scale"] = "log"
                spec["lo"] = self.rng.choice([0.1, 1.0, 2.0])
                spec["hi"] = spec["lo"] * self.rng.choice([10.0, 100.0, 2.0])
            elif self.chance(0.2):
                spec["scale"] = "linear"
            return spec
        n = self.rng.randint(1, 4)
        vals = [self.val() for _ in range(n)]
        if plain_list_ok and n >= 3 and self.chance(0.5):
            return vals
        return {"values": vals}

    def sweep_block(self, comp_name: str, ctx_keys_with_lists: list, nvars: Optional[int] = None) -> dict:
        comp = rm.COMPONENTS[comp_name]
        pnames = [n for n, _ in comp.params]
        nvars = nvars or self.rng.choice([1, 1, 2, 2, 3])
        pool = self.rng.choice([["c", "a", "b"], ["x10", "x9", "x1"], ["t", "s", "u"], ["b", "a", "c"]])
        if self.chance(0.06):
            # variables named like the functions of the expression grammar: a declared variable is a variable
            pool = self.rng.choice([["max", "abs", "min"], ["round", "int", "t"], ["str", "float", "bool"]])
        names = pool[:nvars]
        variables = {}
        for v in names:
            key = self.rng.choice(ctx_keys_with_lists) if ctx_keys_with_lists and self.chance(0.5) else None
            variables[v] = self.var_spec(key)
        exprs = {}
        targets = [p for p in pnames if self.chance(0.75)] or (pnames[:1])
        for p in targets:
            if len(names) >= 2 and self.chance(0.6):
                x, y = self.rng.sample(names, 2)
                exprs[p] = self.rng.choice(EXPR_TEMPLATES_2).format(x=x, y=y)
            else:
                exprs[p] = self.rng.choice(EXPR_TEMPLATES_1).format(x=self.rng.choice(names))
        if targets and self.chance(0.12):
            # a variable whose items are themselves lists ("windows"); expressions reduce them with max/min
            variables["w"] = {"values": [[self.val(), self.val()] for _ in range(self.rng.randint(1, 3))]}
            exprs[self.rng.choice(targets)] = self.rng.choice(["max(w)", "min(w) + 1.0", "max(w) * 2.0"])
            names = names + ["w"]
        block: dict = {"parameters": exprs, "variables": variables}
        if comp.kind != "probe":
            block["collection"] = "FloatDataCollection"
        mode = self.rng.choice(["combinatorial", "by_position", None])
        if mode:
            block["mode"] = mode
        if mode == "by_position":
            # steer lengths: often equal, sometimes broadcast, sometimes unequal-without-broadcast (must be rejected)
            r = self.rng.random()
            if r < 0.5:
                n = self.rng.randint(1, 4)
                for v in names:
                    if not (isinstance(variables[v], dict) and "from_context" in variables[v]):
                        variables[v] = {"values": [self.val() for _ in range(n)]} if self.chance(0.5) else {"lo": 0.0, "hi": 1.0, "steps": n}
            if self.chance(0.5):
                block["broadcast"] = self.chance(0.7)
        elif self.chance(0.15):
            block["broadcast"] = self.chance(0.5)
        return block

    # ------------------------------------------------------------------ pipelines
    def pipeline(self, max_len: int = 8, fault_bias: float = 0.3, allow_sweeps: bool = True,
                 force_fault: Optional[str] = None) -> dict:
        rng = self.rng
        ill = self.chance(fault_bias)
        target_len = rng.randint(1, max_len)
        nodes: list = []
        ctx: dict = {}
        keys: set = set()       # keys believed present in context at the current position
        list_keys: list = []    # keys believed to hold lists of floats
        r = rng.random()
        if r < 0.7:
            data: Any = rm.NODATA
            cur = "NoData"
        elif r < 0.9:
            data = self.cval()
            cur = "Float"
        else:
            data = [self.cval() for _ in range(rng.randint(0, 3))]
            cur = "Coll"
        for k in KEY_ALPHABET:
            if self.chance(0.12):
                ctx[k] = self.cval()
                keys.add(k)
        if self.chance(0.3):
            lk = rng.choice(["seq", "t_values", "a_values"])
            ctx[lk] = [self.val() for _ in range(rng.randint(1, 4))]
            keys.add(lk)
            list_keys.append(lk)

        def place_params(node: dict, comp_name: str, skip: set = frozenset()) -> list:
            """Place every parameter of comp; returns producer nodes to insert before."""
            comp = rm.COMPONENTS[comp_name]
            pre = []
            for name, default in comp.params:
                if name in skip:
                    continue
                if name in ("path", "tag"):
                    v = f"{self.scratch}/{self.fresh('sink')}.txt" if name == "path" else "tg"
                    if self.chance(0.75):
                        node.setdefault("parameters", {})[name] = v
                    elif self.chance(0.6):
                        ctx[name] = v
                        keys.add(name)
                    continue
                if name == "n":
                    if self.chance(0.5):
                        node.setdefault("parameters", {})[name] = rng.randint(0, 4)
                    continue
                r = rng.random()
                if default is not rm.REQ and self.chance(0.04):
                    # the key is present in the context with the value None: context still beats the default
                    if cur == "Float" and self.chance(0.5):
                        pre.append({"processor": "VNoneProbe", "context_key": name})
                    else:
                        ctx[name] = None
                    keys.add(name)
                    continue
                if default is not rm.REQ and self.chance(0.03):
                    # the node configuration sets the parameter to null explicitly: configuration still beats the default
                    node.setdefault("parameters", {})[name] = None
                    continue
                if r < 0.35:
                    node.setdefault("parameters", {})[name] = self.val()
                    if self.chance(0.25):  # same name also in context on purpose: config must win
                        ctx.setdefault(name, self.cval())
                        keys.add(name)
                elif r < 0.55:
                    ctx.setdefault(name, self.cval())
                    keys.add(name)
                elif r < 0.70 and cur == "Float":
                    prod = rng.choice(["VValueProbe", "VScaledProbe", "rename"])
                    if prod == "rename":
                        tmp = self.fresh("tmp")
                        ctx[tmp] = self.cval()
                        pre.append({"processor": f"rename:{tmp}:{name}"})
                    else:
                        pn = {"processor": prod, "context_key": name}
                        if prod == "VScaledProbe" and self.chance(0.5):
                            pn["parameters"] = {"scale": self.val()}
                        pre.append(pn)
                    keys.add(name)
                elif r < 0.85 or default is not rm.REQ:
                    pass  # default (or missing when there is none)
                else:
                    if not ill:
                        node.setdefault("parameters", {})[name] = self.val()
            return pre

        faults_left = 1 if (ill or force_fault) else 0
        while len(nodes) < target_len:
            r = rng.random()
            node: dict
            pre: list = []
            wrong_type = ill and self.chance(0.12)
            # ---------------- context processors (any data type)
            if r < 0.16:
                kind = rng.choice(["rename", "delete", "template", "VCtxScale", "VCtxScale", "VHookedCtx"])
                if kind == "rename":
                    src = rng.choice(sorted(keys)) if keys and self.chance(0.85) else rng.choice(KEY_ALPHABET)
                    dst = rng.choice(KEY_ALPHABET) if self.chance(0.8) else src
                    node = {"processor": f"rename:{src}:{dst}"}
                    keys.discard(src)
                    keys.add(dst)
                elif kind == "delete":
                    key = rng.choice(sorted(keys)) if keys and self.chance(0.85) else rng.choice(KEY_ALPHABET)
                    node = {"processor": f"delete:{key}"}
                    keys.discard(key)
                elif kind == "template":
                    scal = sorted(k for k in keys if k not in list_keys and not k.endswith("_values")
                                  and not k.startswith(("info", "plist", "seq")) and k not in ("path", "tag", "label"))
                    srcs = rng.sample(scal, min(len(scal), rng.randint(1, 2))) if scal and self.chance(0.85) else [rng.choice(KEY_ALPHABET)]
                    out = rng.choice(["path", "tag", "label", srcs[0]])
                    q = rng.choice(['"', "'"])
                    tpl = f"{self.scratch}/t_" + "_".join("{%s}" % s for s in srcs) + ".txt"
                    node = {"processor": f"template:{q}{tpl}{q}:{out}"}
                    keys.add(out)
                elif kind == "VHookedCtx":
                    node = {"processor": "VHookedCtx"}
                    pre = place_params(node, "VHookedCtx")
                    keys.add("hooked")
                else:
                    node = {"processor": "VCtxScale"}
                    pre = place_params(node, "VCtxScale")
                    keys.add("scaled")
            # ---------------- faults
            elif faults_left and r < 0.16 + 0.10:
                f = force_fault or rng.choice(FAULTS)
                faults_left -= 1
                node = {"processor": f}
                if f in ("VBadWriter", "VCtxBadWriter") and self.chance(0.4):
                    # the undeclared key ALREADY EXISTS in the context: a write to an undeclared key is still a failure
                    ctx.setdefault("undeclared_key", self.cval())
                if f == "VBoom" and self.chance(0.5):
                    node["parameters"] = {"fuse": rng.choice([0.0, 1.0, 2.0])}
                elif f == "VBoom" and force_fault is None and self.chance(0.3):
                    # processor error of a class that is not "one message string" (UnicodeDecodeError, ExceptionGroup, ...)
                    node = {"processor": "VRaise", "parameters": {"exc": rng.choice(ODD_EXC)}}
            # ---------------- by current data type
            elif cur == "NoData" or (wrong_type and self.chance(0.3)):
                name = rng.choice(SOURCES)
                if faults_left and force_fault is None and self.chance(0.25):
                    name = "VBadPayloadSrc"      # returns a context key it does not declare as injected
                    faults_left -= 1
                node = {"processor": name}
                if allow_sweeps and name in SWEEP_SRCS and self.chance(0.3):
                    blk = self.sweep_block(name, list_keys)
                    node["derive"] = {"parameter_sweep": blk}
                    pre = place_params(node, name, skip=set(blk["parameters"]))
                    new = "Coll"
                    for v in blk["variables"]:
                        keys.add(f"{v}_values"); list_keys.append(f"{v}_values")
                else:
                    pre = place_params(node, name)
                    new = rm.COMPONENTS[name].out_type
                if name == "VPayloadSrc":
                    keys.add("ps_key")
                cur = new if not wrong_type or cur == "NoData" else cur
                if cur not in ("Float", "Coll", "NoData"):
                    cur = "Float"
            elif cur == "Float":
                c = rng.random()
                if c < 0.45:
                    name = rng.choice(FLOAT_OPS)
                    node = {"processor": name}
                    if allow_sweeps and name in SWEEP_OPS and self.chance(0.25):
                        blk = self.sweep_block(name, list_keys)
                        node["derive"] = {"parameter_sweep": blk}
                        pre = place_params(node, name, skip=set(blk["parameters"]))
                        cur = "Coll"
                        for v in blk["variables"]:
                            keys.add(f"{v}_values"); list_keys.append(f"{v}_values")
                    else:
                        pre = place_params(node, name)
                    if name == "VAddNote":
                        keys.add("note")
                elif c < 0.70:
                    name = rng.choice(FLOAT_PROBES + (["CopyDataProbe"] if self.chance(0.2) else []))
                    ck = rng.choice(KEY_ALPHABET) if name in ("VValueProbe", "VScaledProbe", "VOffsetProbe") else self.fresh("info")
                    node = {"processor": name, "context_key": ck}
                    if allow_sweeps and name in SWEEP_PROBES and self.chance(0.3):
                        blk = self.sweep_block(name, list_keys)
                        node["derive"] = {"parameter_sweep": blk}
                        node["context_key"] = self.fresh("plist")
                        list_keys.append(node["context_key"])
                        pre = place_params(node, name, skip=set(blk["parameters"]))
                        for v in blk["variables"]:
                            keys.add(f"{v}_values"); list_keys.append(f"{v}_values")
                    else:
                        pre = place_params(node, name)
                    keys.add(node["context_key"])
                elif c < 0.85:
                    name = rng.choice(SINKS)
                    node = {"processor": name}
                    pre = place_params(node, name)
                else:
                    node = {"processor": "DataDump"}
                    cur = "NoData"
            else:  # Coll
                c = rng.random()
                if c < 0.35:
                    name = rng.choice(SLICEABLE_OPS)
                    node = {"processor": f"slice:{name}:FloatDataCollection"}
                    pre = place_params(node, name)
                    if name == "VAddNote":
                        keys.add("note")
                elif c < 0.55:
                    name = rng.choice(SLICEABLE_PROBES)
                    ck = self.fresh("plist") if self.chance(0.6) else rng.choice(KEY_ALPHABET)
                    node = {"processor": f"slice:{name}:FloatDataCollection", "context_key": ck}
                    pre = place_params(node, name)
                    keys.add(ck); list_keys.append(ck)
                elif c < 0.9:
                    name = rng.choice(COLL_OPS)
                    node = {"processor": name}
                    pre = place_params(node, name)
                    cur = "Float"
                else:
                    node = {"processor": "DataDump"}
                    cur = "NoData"
            for p in pre:
                if len(nodes) < max_len - 1:
                    nodes.append(p)
            nodes.append(node)
        nodes = nodes[:max_len]
        # construction faults (small fraction): unknown parameter / probe without key
        if ill and self.chance(0.12) and nodes:
            i = rng.randrange(len(nodes))
            n = nodes[i]
            try:
                pm = rm.describe_node(i, n) if isinstance(n.get("processor"), str) else None
            except rm.ConfigRejected:
                pm = None
            if pm is not None and pm.sweep is None and pm.shorthand is None:
                if pm.role == "probe" and self.chance(0.5):
                    n.pop("context_key", None)
                else:
                    n.setdefault("parameters", {})[rng.choice(["bogus", "factr", "extra_param"])] = self.val()
        return {"nodes": nodes, "ctx": ctx, "data": data}


EXOTIC_VALUES = [
    {(0, 1): 3.0},                 # dict with tuple keys (not JSON-encodable)
    {"inner": {(2, 3): "x"}},      # nested
    {1.5, 2.5},                    # set
    b"raw-bytes",
    complex(1.0, 2.0),
    float("nan"),
    float("inf"),
    ("tuple", 1, 2.0),
    "x" * 5000,                    # long string
    {"a": None, "b": [1, {"c": (1, 2)}]},
    range(3),
    "caf\udce9.dat",              # lone surrogate (what os.fsdecode yields for an undecodable file name): not UTF-8 encodable
    "\ud800 lone high surrogate",
    "emoji \U0001f600 and NUL \x00 and CR\r\n",   # non-BMP, control characters
    {"name": "r\udcffsum\udce9", "n": 1},
    {1: 10.0, 2: 0.5},             # a lookup table keyed by numbers (JSON can only write such keys as strings)
    {"table": {1.5: "a", 2: "b"}, "k": [1, {3: 4}]},
]


def add_exotic_parameter(case: dict, g: "Gen") -> dict:
    """Append a sink whose (defaulted) ``tag`` parameter is resolved from the context with an exotic value: the
    value really passed to the leaf is a legal Python object that JSON cannot (or can only oddly) encode."""
    c = {"nodes": list(case["nodes"]) + [{"processor": "VNullSink"}], "ctx": dict(case["ctx"]), "data": case["data"]}
    c["ctx"]["tag"] = g.rng.choice(EXOTIC_VALUES)
    return c


def to_yaml(nodes: list, extra: Optional[dict] = None, extensions=("semantiva-examples", "vlib.components")) -> str:
    import yaml

    doc: dict = {"extensions": list(extensions), "pipeline": {"nodes": nodes}}
    if extra:
        doc.update(extra)
    return yaml.safe_dump(doc, sort_keys=False, default_flow_style=False)


# --------------------------------------------------------------------------- C03: sweep-centred cases
def _string_sweep_case(g: "Gen") -> dict:
    """Sweeps whose results are sensitive to operand ORDER and to the exact TYPE of each value (strings, 1 vs 1.0 vs
    True, 0.0 vs -0.0): two sweep nodes of one pipeline whose expressions are commuted forms of each other (a + b vs
    b + a on strings), and sequences with ==-equal but distinct items under str()."""
    rng = g.rng
    src = {"processor": "VSrc", "parameters": {"value": g.val()}}
    pat = rng.choice(["commuted_twins", "equal_not_identical", "both"])
    nodes = [src]
    words = rng.sample(["ab", "cd", "x", "yz", "q"], 3)
    if pat in ("commuted_twins", "both"):
        variables = {"a": {"values": words[:2]}, "b": {"values": [words[2], "k"]}}
        mode = rng.choice(["combinatorial", "by_position"])
        e1, e2 = rng.choice([("a + b", "b + a"), ("a + b + a", "a + a + b"), ("(a + b) + b", "b + (b + a)")])
        for ck, expr in (("tags1", e1), ("tags2", e2)):
            nodes.append({"processor": "VTagProbe", "context_key": ck,
                          "derive": {"parameter_sweep": {"parameters": {"tag": expr}, "variables": variables, "mode": mode}}})
    if pat in ("equal_not_identical", "both"):
        vals = rng.choice([[1, 1.0, True], [2, 2.0], [0.0, -0.0, 0], [1.0, 1, 1.0], [True, 1]])
        expr = rng.choice(["str(n)", "str(n) + 'z'", "str((n, n))"])
        mode = rng.choice(["combinatorial", "by_position"])
        nodes.append({"processor": "VTagProbe", "context_key": "typed",
                      "derive": {"parameter_sweep": {"parameters": {"tag": expr}, "variables": {"n": {"values": vals}}, "mode": mode}}})
    return {"nodes": nodes, "ctx": {}, "data": rm.NODATA}


def _null_param_sweep_case(g: "Gen") -> dict:
    """A sweep whose wrapped element has a NON-swept parameter with a default, explicitly given as null (node
    configuration or context): node parameters / context beat the default for null too (`limit: null` = "no limit").
    The element then receives None - with the harness arithmetic that is a processor error at that node, exactly as
    without a sweep; it must not silently fall back to the default."""
    rng = g.rng
    which = rng.choice(["VAffine", "VPoly", "VCollSrc"])
    ctx: dict = {}
    if which == "VAffine":
        node = {"processor": "VAffine", "derive": {"parameter_sweep": {"parameters": {"a": "t"}, "variables": {"t": [g.val(), g.val()]}, "collection": "FloatDataCollection"}}}
        null_name = "b"
        nodes = [{"processor": "VSrc", "parameters": {"value": g.val()}}, node]
    elif which == "VPoly":
        node = {"processor": "VPoly", "parameters": {"q": g.val(), "r": g.val()},
                "derive": {"parameter_sweep": {"parameters": {"p": "t + 1.0"}, "variables": {"t": [g.val(), g.val(), g.val()]}, "collection": "FloatDataCollection"}}}
        null_name = "s"
        nodes = [{"processor": "VSrc", "parameters": {"value": g.val()}}, node]
    else:
        node = {"processor": "VCollSrc", "derive": {"parameter_sweep": {"parameters": {"n": "int(t)"}, "variables": {"t": [1.0, 2.0]}, "collection": "FloatDataCollection"}}}
        null_name = "start"
        nodes = [node]
    if rng.random() < 0.6:
        node.setdefault("parameters", {})[null_name] = None
    else:
        ctx[null_name] = None
    return {"nodes": nodes, "ctx": ctx, "data": rm.NODATA}


def sweep_case(g: "Gen") -> dict:
    """A pipeline built around one derive.parameter_sweep node (all three wrapped kinds), embedded in a
    surrounding pipeline, with non-swept parameters placed in node config / context / default."""
    rng = g.rng
    if g.chance(0.08):
        return _string_sweep_case(g)
    if g.chance(0.06):
        return _null_param_sweep_case(g)
    kind = rng.choice(["source", "op", "op", "probe", "probe"])
    ctx: dict = {}
    list_keys = []
    for lk in ("seq", "seq2"):
        if g.chance(0.5):
            ctx[lk] = [g.val() for _ in range(rng.randint(1, 4))]
            list_keys.append(lk)
    if g.chance(0.08):
        ctx["bad_seq"] = rng.choice(["abc", 3.0, []])
        list_keys.append("bad_seq")
    nodes: list = []
    data = rm.NODATA
    # ---- prefix
    if kind == "source":
        if g.chance(0.3):
            nodes += [{"processor": "VSrcDefault"}, {"processor": "DataDump"}]
    else:
        r = rng.random()
        if r < 0.4:
            data = g.val()
        elif r < 0.8:
            nodes.append({"processor": "VSrc", "parameters": {"value": g.val()}})
        else:
            nodes += [{"processor": "VCollSrc", "parameters": {"n": rng.randint(1, 3)}}, {"processor": "VCollSum"}]
        if g.chance(0.3):
            nodes.append({"processor": "VValueProbe", "context_key": rng.choice(["factor", "addend", "scale", "offset", "a", "b"])})
        if g.chance(0.2):
            nodes.append({"processor": "VAddNote"})
    # a producer of a list key earlier in the pipeline (slicer probe) for from_context
    if kind != "source" and g.chance(0.15):
        pass
    name = rng.choice({"source": SWEEP_SRCS, "op": SWEEP_OPS, "probe": SWEEP_PROBES}[kind])
    comp = rm.COMPONENTS[name]
    blk = g.sweep_block(name, list_keys)
    if g.chance(0.15):
        # the key a sweep publishes (<var>_values) ALREADY EXISTS in the context with another sequence (an earlier sweep
        # over the same variable name, a previous run on the same context): the sweep publishes ITS sequence
        v0 = sorted(blk["variables"])[0]
        ctx[f"{v0}_values"] = [99.0, 98.0, 97.0][: rng.randint(1, 3)]
    node: dict = {"processor": name, "derive": {"parameter_sweep": blk}}
    if kind == "probe":
        node["context_key"] = rng.choice(["plist", "results", "t_values", "a_values"])
    # non-swept parameters: config / context / default / (rarely) missing
    for pname, default in comp.params:
        if pname in blk["parameters"]:
            if g.chance(0.2):  # node parameter for a computed name: computed value must win
                node.setdefault("parameters", {})[pname] = 99.0
            continue
        r = rng.random()
        if r < 0.4:
            node.setdefault("parameters", {})[pname] = g.val()
            if g.chance(0.3):
                ctx[pname] = g.val()
        elif r < 0.7:
            ctx[pname] = g.val()
        elif default is rm.REQ and r < 0.93:
            node.setdefault("parameters", {})[pname] = g.val()
    nodes.append(node)
    # ---- suffix
    vars_ = list(blk["variables"])
    r = rng.random()
    if kind == "probe":
        if r < 0.3:
            nodes.append({"processor": "VAddDefault"})
        elif r < 0.55:
            v = rng.choice(vars_)
            nodes.append({"processor": "VMul", "derive": {"parameter_sweep": {
                "parameters": {"factor": "q"}, "variables": {"q": {"from_context": f"{v}_values"}},
                "collection": "FloatDataCollection"}}})
        elif r < 0.7:
            nodes.append({"processor": f"delete:{rng.choice(vars_)}_values"})
    else:
        if r < 0.3:
            nodes.append({"processor": rng.choice(["VCollSum", "FloatCollectionSumOperation"])})
        elif r < 0.5:
            nodes.append({"processor": "slice:VAddDefault:FloatDataCollection"})
        elif r < 0.65:
            nodes.append({"processor": "slice:VValueProbe:FloatDataCollection", "context_key": "each"})
        elif r < 0.8:
            v = rng.choice(vars_)
            nodes += [{"processor": "VCollSum"},
                      {"processor": "VScaledProbe", "context_key": "again", "derive": {"parameter_sweep": {
                          "parameters": {"scale": "q * 1.0"}, "variables": {"q": {"from_context": f"{v}_values"}}}}}]
        elif r < 0.9:
            nodes.append({"processor": f"rename:{rng.choice(vars_)}_values:kept"})
    return {"nodes": nodes, "ctx": ctx, "data": data}


# --------------------------------------------------------------------------- C02: templates aimed at the static analysis
def flow_case(g: "Gen") -> dict:
    """Pipelines aimed at the key-flow / type-flow analysis (use-before-create, create-and-require in one node,
    delete-then-require, delete-then-recreate, type changes across context-only nodes, sweep-published keys
    consumed downstream, defaults shadowed by earlier producers).  Returns {"nodes": ..., "pattern": name}."""
    rng = g.rng
    pat = rng.choice(["use_before_create", "create_and_require_same", "delete_then_require", "delete_recreate_require",
                      "type_across_ctx", "type_after_passthrough", "sweep_key_downstream", "default_shadowed",
                      "from_context_chain", "none_valued_key", "plain", "from_context_named_like_swept_param",
                      "rewritten_key_consumed"])
    src = {"processor": "VSrc", "parameters": {"value": g.val()}}
    key = rng.choice(["factor", "addend", "a", "scale", "offset"])
    consumer = {"factor": {"processor": "VMul"}, "addend": {"processor": "VAdd"}, "a": {"processor": "VAffine"},
                "scale": {"processor": "VScaledProbe", "context_key": g.fresh("pk")},
                "offset": {"processor": "VOffsetProbe", "context_key": g.fresh("pk")}}[key]
    producer = rng.choice([
        {"processor": "VValueProbe", "context_key": key},
        {"processor": "VScaledProbe", "context_key": key, "parameters": {"scale": g.val()}},
        {"processor": f"rename:{g.fresh('ext')}:{key}"},
    ])
    filler = lambda: rng.choice([{"processor": "VAddDefault"}, {"processor": "VMulDefault"},
                                 {"processor": "VNullSink"}, {"processor": "FloatSquareOperation"}])  # noqa: E731
    nodes: list
    if pat == "rewritten_key_consumed":
        # ONE key written by two different nodes with no delete in between (the second writer is not a probe's context_key:
        # an operation's declared key, a rename onto a live key, a template onto its own input), then consumed: the
        # consumer's value comes from the LAST writer
        first_w = rng.choice([{"processor": "VValueProbe", "context_key": key}, {"processor": f"rename:{g.fresh('ext')}:{key}"}])
        second_w = rng.choice([{"processor": f"rename:{g.fresh('ext')}:{key}"}, {"processor": "VCtxScale", "parameters": {"base": g.val()}},
                               {"processor": "VAddNote"}])
        if second_w["processor"] == "VCtxScale":
            first_w = rng.choice([{"processor": "VValueProbe", "context_key": "scaled"}, {"processor": f"rename:{g.fresh('ext')}:scaled"}])
            consumer = {"processor": "template:'s_{scaled}':label"} if g.chance(0.5) else {"processor": "rename:scaled:kept"}
        elif second_w["processor"] == "VAddNote":
            first_w = rng.choice([{"processor": "VValueProbe", "context_key": "note"}, {"processor": f"rename:{g.fresh('ext')}:note"}])
            consumer = {"processor": "template:'n_{note}':label"} if g.chance(0.5) else {"processor": "rename:note:kept"}
        nodes = [src, first_w] + [filler() for _ in range(rng.randint(0, 1))] + [second_w] + [filler() for _ in range(rng.randint(0, 1))] + [consumer]
    elif pat == "use_before_create":
        nodes = [src] + [filler() for _ in range(rng.randint(0, 2))] + [consumer] + [filler() for _ in range(rng.randint(0, 1))] + [producer]
    elif pat == "create_and_require_same":
        k2 = rng.choice(["x", "label", key])
        one = rng.choice([{"processor": f"template:\"v_{{{k2}}}\":{k2}"}, {"processor": f"rename:{k2}:{k2}"},
                          {"processor": "VValueProbe", "context_key": key}])
        nodes = [src, one] + ([consumer] if g.chance(0.5) else [])
    elif pat == "delete_then_require":
        nodes = [src, producer if g.chance(0.5) else filler(), {"processor": f"delete:{key}"}] + [filler() for _ in range(rng.randint(0, 1))] + [consumer]
    elif pat == "delete_recreate_require":
        nodes = [src, producer, {"processor": f"delete:{key}"}, producer if g.chance(0.7) else {"processor": "VValueProbe", "context_key": key}, consumer]
    elif pat == "type_across_ctx":
        first = rng.choice([{"processor": "VCollSrc"}, src, {"processor": "VSrc", "parameters": {"value": 1.0}, "derive": {"parameter_sweep": {
            "parameters": {}, "variables": {"t": [1.0, 2.0, 3.0]}, "collection": "FloatDataCollection"}}}])
        ctxnodes = [rng.choice([{"processor": "VCtxScale", "parameters": {"base": g.val()}},
                                {"processor": f"rename:{g.fresh('ext')}:moved"},
                                {"processor": f"template:'p_{{{g.fresh('ext')}}}':label"}]) for _ in range(rng.randint(1, 2))]
        last = rng.choice([{"processor": "VMulDefault"}, {"processor": "VCollSum"}, {"processor": "VNullSink"},
                           {"processor": "slice:VMulDefault:FloatDataCollection"}, {"processor": "VSrcDefault"},
                           {"processor": "VValueProbe", "context_key": "pv"}])
        nodes = [first] + ctxnodes + [last]
    elif pat == "type_after_passthrough":
        if g.chance(0.5):
            first = [src]
            through = rng.choice([{"processor": "VValueProbe", "context_key": "pv"}, {"processor": "VNullSink"},
                                  {"processor": "CopyDataProbe", "context_key": "cp"}, {"processor": "FloatDataSink"}])
            last = rng.choice([{"processor": "VCollSum"}, {"processor": "slice:VMulDefault:FloatDataCollection"},
                               {"processor": "VSrcDefault"}, {"processor": "VMulDefault"}])
        else:
            first = [{"processor": "VCollSrc"}]
            through = rng.choice([{"processor": "slice:VValueProbe:FloatDataCollection", "context_key": "pv"},
                                  {"processor": "CopyDataProbe", "context_key": "cp"}])
            last = rng.choice([{"processor": "VMulDefault"}, {"processor": "VNullSink"}, {"processor": "VCollSum"},
                               {"processor": "VValueProbe", "context_key": "pz"}])
        nodes = first + [through] + ([{"processor": "VCtxScale", "parameters": {"base": 1.0}}] if g.chance(0.3) else []) + [last]
    elif pat == "sweep_key_downstream":
        kind = rng.choice(["source", "op", "probe"])
        if kind == "source":
            sw = {"processor": "VSrcDefault", "derive": {"parameter_sweep": {"parameters": {"value": "t * 1.0"}, "variables": {"t": g.var_spec(None)}, "collection": "FloatDataCollection"}}}
            nodes = [sw, {"processor": "VCollSum"}]
        elif kind == "op":
            sw = {"processor": "VMulDefault", "derive": {"parameter_sweep": {"parameters": {"factor": "t + 1.0"}, "variables": {"t": g.var_spec(None)}, "collection": "FloatDataCollection"}}}
            nodes = [src, sw, {"processor": "VCollSum"}]
        else:
            sw = {"processor": "VScaledProbe", "context_key": "pl", "derive": {"parameter_sweep": {"parameters": {"scale": "t"}, "variables": {"t": g.var_spec(None)}}}}
            nodes = [src, sw]
        down = rng.choice([
            {"processor": "VMul", "derive": {"parameter_sweep": {"parameters": {"factor": "q"}, "variables": {"q": {"from_context": "t_values"}}, "collection": "FloatDataCollection"}}},
            {"processor": "template:'n_{t_values}':label"},
            {"processor": "rename:t_values:kept"},
        ])
        nodes.append(down)
    elif pat == "default_shadowed":
        prod = rng.choice([{"processor": "VValueProbe", "context_key": "factor"}, {"processor": "rename:ext_f:factor"}])
        nodes = [src, prod, {"processor": "VMulDefault"}] + ([{"processor": "delete:factor"}, {"processor": "VMulDefault"}] if g.chance(0.5) else [])
    elif pat == "none_valued_key":
        # a key that is present with the value None: context still beats the signature default
        k2, cons = rng.choice([("tag", {"processor": "VNullSink"}), ("scale", {"processor": "VScaledProbe", "context_key": "sp"}),
                               ("factor", {"processor": "VMulDefault"}), ("k", {"processor": "VCtxScale", "parameters": {"base": 2.0}})])
        nodes = [src, {"processor": "VNoneProbe", "context_key": k2}] + [filler() for _ in range(rng.randint(0, 1))] + [cons]
    elif pat == "from_context_named_like_swept_param":
        # a from_context key named exactly like the element parameter the expression computes (v <- "value", value = v * w);
        # the loader may refuse it, but if the configuration is accepted both keys must be reported as required
        kind = rng.choice(["source", "op", "probe"])
        if kind == "source":
            sweep = {"processor": "VSrc", "derive": {"parameter_sweep": {"parameters": {"value": "v * w"}, "variables": {"v": {"from_context": "value"}, "w": {"from_context": "weights"}},
                                                                           "collection": "FloatDataCollection"}}}
            nodes = [sweep, {"processor": "VCollSum"}]
        elif kind == "op":
            sweep = {"processor": "VMul", "derive": {"parameter_sweep": {"parameters": {"factor": "v * w"}, "variables": {"v": {"from_context": "factor"}, "w": {"from_context": "weights"}},
                                                                           "collection": "FloatDataCollection"}}}
            nodes = [src, sweep, {"processor": "VCollSum"}]
        else:
            sweep = {"processor": "VScaledProbe", "context_key": "pl", "derive": {"parameter_sweep": {"parameters": {"scale": "v * w"}, "variables": {"v": {"from_context": "scale"}, "w": {"from_context": "weights"}}}}}
            nodes = [src, sweep]
    elif pat == "from_context_chain":
        nodes = [src, {"processor": "VAdd", "derive": {"parameter_sweep": {"parameters": {"addend": "s"}, "variables": {"s": {"from_context": "seq"}}, "collection": "FloatDataCollection"}}},
                 {"processor": "slice:VValueProbe:FloatDataCollection", "context_key": "each"},
                 {"processor": "VCollSum"},
                 {"processor": "VOffsetProbe", "context_key": "fin", "derive": {"parameter_sweep": {"parameters": {"offset": "e"}, "variables": {"e": {"from_context": rng.choice(["each", "s_values", "seq"])}}}}}]
    else:
        case = g.pipeline(fault_bias=0.1)
        return {"nodes": case["nodes"], "pattern": "generated"}
    if g.chance(0.15) and nodes:
        i = rng.randrange(len(nodes))
        n = nodes[i] = dict(nodes[i])
        if isinstance(n.get("processor"), str) and ":" not in n["processor"] and "derive" not in n:
            n["parameters"] = dict(n.get("parameters") or {}, **{rng.choice(["bogus", "factr"]): 1.0})
            pat += "+unknown_param"
    return {"nodes": [dict(n) for n in nodes], "pattern": pat}
