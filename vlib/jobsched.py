"""Systematic schedule exploration of the REAL queue orchestrator / worker loop (C15) under vlib.sched.

One execution = the real ``QueueSemantivaOrchestrator.run_forever`` (thread "master"), the real ``worker_loop``
(threads "w0".."wk") and a "client" thread calling the real ``enqueue()``, all managed threads of one
``sched.Scheduler``.  Yield points: ``sys.monitoring`` LINE events on every code object of queue_orchestrator.py and
worker.py (NOT in_memory.py: a transport operation is one atomic step between two yield points; C14 covers the
transport).  Nothing blocks for real:

* ``<module>.queue``      -> ``ShimQueueModule`` (``Queue`` = scheduler-aware FIFO, timed ``get`` = scheduler timed block)
* ``<module>.time``       -> ``TimeShim`` (``sleep`` = scheduler timed block)
* ``<module>.threading``  -> ``sched.ThreadingShim`` (only matters if a tree under test adds a lock / event)
* ``queue_orchestrator.uuid`` -> ``jobq.UuidShim`` (job ids known at the client boundary)
  (every module attribute is restored on ``Harness.__exit__``)
* stop event              -> ``StopFlag`` (is_set / set, never blocks)
* transport               -> ``ProgressTap`` (a ``jobq.TransportTap`` that also bumps the global progress counter) around
                             ONE shared real ``InMemorySemantivaTransport`` per execution

Timed waits use the scheduler's virtual clock; with ``Scheduler.early_budget`` > 0 a timed wait may also expire while
other threads are runnable (the OS descheduled them for longer than the timeout) - a scheduling alternative like any
other, explored by the DFS / PCT / random choosers.

Termination is *logical quiescence*, never wall-clock: the idle points are the master's timed ``get`` on the empty job
queue and the workers' ``sleep``.  Per looping thread an idle streak counts consecutive timeout wake-ups during which
the global progress counter (queue put / get, transport publish / delivery, Future completion) did not move.  When
the client has returned from every ``enqueue`` and every live looping thread has completed two fruitless rounds at
the current progress value (one round suffices once every Future is done), nothing exists that anybody could still
consume: the harness sets the stop flag and ``orch.running = False``; the loops exit at their next check and the
execution ends by itself.  A Future still pending at that moment can never complete.

Exploration: DFS rows = scenario x class of preempted thread (``Scope``: client / master / workers) x preemption bound x
early-expiry budget, each enumerated by ``sched.DFS`` up to the moment the outcome of every Future is fixed
(``StopAware``); plus PCT and uniform random walks with early expiries taken with a small probability (``EarlyWrap``).
Oracle per deterministic execution: ``oracle`` (same mechanism keys as the perturbation-based part of checks/c15.py).
A violating schedule is written as the list of thread names chosen at every decision and re-executed by ``replay``.
"""
from __future__ import annotations

import collections
import queue as _real_queue
import random
import threading as _real_threading
import time as _real_time

from vlib import boot, sched

WATCHDOG_S = 120.0
MAX_DECISIONS = 40000            # runaway guard (a tree under test that keeps producing progress for ever)
POLLS = [0.1, 0.3, 0.15]         # worker poll intervals (virtual seconds); the master's 0.2 s is hard-coded in semantiva


# ------------------------------------------------------------------------------------------ scenario family
# (name, workers, [(ok-kind | None, fail?)...]) - jobs are materialised by c15.make_job with unique tokens
SCENARIO_NAMES = ["S1_1ok_1w", "S2_1fail_1w", "S3_2jobs_1fail_1w", "S4_2ok_2w", "S5_3jobs_2w", "S6_chain_2jobs_1w"]
OK_KINDS = ["float_chain", "ctx_param", "collection", "source", "zero", "many_keys"]


def scenario(name: str, variant: int = 0) -> dict:
    """Deterministic scenario ``name`` / ``variant`` (variant rotates fail kinds, failing position, job kinds)."""
    from checks import c15

    k = SCENARIO_NAMES.index(name)
    chain: dict = {}
    rng = random.Random(f"jobsched|{name}|{variant}")
    b = 400 + 16 * k + (variant % 16)
    fk = c15.FAIL_KINDS[variant % len(c15.FAIL_KINDS)]
    ok = lambda i: OK_KINDS[(variant + i) % len(OK_KINDS)]      # noqa: E731
    if name == "S1_1ok_1w":
        plan, workers = [(ok(0), None)], 1
    elif name == "S2_1fail_1w":
        plan, workers = [(None, fk)], 1
    elif name == "S3_2jobs_1fail_1w":
        plan, workers = ([(None, fk), (ok(1), None)] if variant % 2 else [(ok(0), None), (None, fk)]), 1
    elif name == "S4_2ok_2w":
        plan, workers = [(ok(0), None), ("empty_sum" if variant % 3 == 2 else ok(2), None)], 2
    elif name == "S5_3jobs_2w":
        plan, workers = [(ok(0), None), (None, fk), (ok(3), None)], 2
        plan = plan[variant % 3:] + plan[:variant % 3]
    elif name == "S6_chain_2jobs_1w":
        # job chaining: job 1 is enqueued (with a Future) from the done-callback of job 0's Future, i.e. on whatever
        # thread completes Futures; job 0 fails in odd variants (the follow-up then is the recovery job)
        plan, workers = [((None, fk) if variant % 2 else (ok(0), None)), (ok(1), None)], 1
        chain = {0: 1}
    else:
        raise ValueError(name)
    jobs = []
    for j, (kind, fail) in enumerate(plan):
        job = c15.make_job(rng, None, b, j, fail_kind=fail, force=kind)
        if job["kind"] == "many_keys":
            job["many"] = 40
        jobs.append(job)
    return {"name": name, "variant": variant, "workers": workers, "poll_worker": POLLS[variant % len(POLLS)] if variant else 0.1,
            "jobs": jobs, "chain": chain}


# ------------------------------------------------------------------------------------------ shims
class StopFlag:
    """Stand-in for the ``threading.Event`` handed to the orchestrator and the workers: never blocks."""

    def __init__(self, x=None):
        self._flag = False
        self._x = x

    def is_set(self):
        return self._flag

    def set(self):
        self._flag = True

    def clear(self):
        self._flag = False

    def wait(self, timeout=None):          # a real Event.wait would block; under the scheduler it is a timed block
        s, t = sched._ctx()
        if self._flag or t is None or timeout is None:
            return self._flag
        s.block(t, timeout)
        if not self._flag and self._x is not None:
            self._x.idle_wakeup(s, t)      # a loop that idles in stop_event.wait(poll) instead of sleep(poll)
        return self._flag


class SchedQueue(sched._Waitable):
    """Scheduler-aware FIFO with the part of the ``queue.Queue`` API the orchestrator uses."""

    def __init__(self, harness, maxsize=0):
        self._h = harness
        self._items = collections.deque()
        self._waiters = []
        self.maxsize = maxsize

    def put(self, item, block=True, timeout=None):
        self._items.append(item)
        x = self._h.x
        if x is not None:
            x.progress += 1
            x.puts += 1
        if self._waiters:
            self._wake_all()

    put_nowait = put

    def get(self, block=True, timeout=None):
        x = self._h.x
        while True:
            if self._items:
                if x is not None:
                    x.progress += 1
                    x.gets += 1
                return self._items.popleft()
            s, t = sched._ctx()
            if not block or t is None or (timeout is not None and timeout <= 0):
                raise _real_queue.Empty         # unmanaged thread / non-blocking: never block for real
            if not self._wait(s, t, timeout):
                if self._items:                 # (cannot happen: a put makes the waiter READY before the timeout)
                    continue
                if x is not None:
                    x.idle_wakeup(s, t)
                raise _real_queue.Empty

    def get_nowait(self):
        return self.get(False)

    def qsize(self):
        return len(self._items)

    def empty(self):
        return not self._items

    def full(self):
        return False

    def task_done(self):
        pass

    def join(self):
        pass


class ShimQueueModule:
    """Install as ``<module>.queue``."""

    Empty = _real_queue.Empty
    Full = _real_queue.Full

    def __init__(self, harness):
        self._h = harness
        self.created = 0

    def Queue(self, maxsize=0):
        self.created += 1
        return SchedQueue(self._h, maxsize)

    SimpleQueue = LifoQueue = Queue

    def __getattr__(self, name):
        return getattr(_real_queue, name)


class TimeShim:
    """Install as ``<module>.time``: ``sleep`` is a scheduler timed block; the rest is the real module."""

    def __init__(self, harness):
        self._h = harness

    def sleep(self, dt):
        s, t = sched._ctx()
        if t is None:
            return                               # unmanaged thread: never block for real
        s.block(t, max(0.0, float(dt)))
        x = self._h.x
        if x is not None:
            x.sleeps += 1
            x.idle_wakeup(s, t)

    def __getattr__(self, name):
        return getattr(_real_time, name)


def _progress_tap_class():
    from vlib import jobq

    class _Sub:
        def __init__(self, inner, x):
            self._inner, self._x = inner, x

        def __iter__(self):
            x = self._x
            for msg in self._inner:
                x.progress += 1
                x.deliveries += 1
                yield msg

        def close(self):
            self._inner.close()

        def __getattr__(self, name):
            return getattr(self._inner, name)

    class ProgressTap(jobq.TransportTap):
        """Per-party recording proxy (jobq.TransportTap) that also bumps the execution's progress counter."""

        def __init__(self, real, mon, role, x):
            super().__init__(real, mon, role)
            self.x = x

        def publish(self, channel, data, context, metadata=None, require_ack=False):
            self.x.progress += 1
            self.x.publishes += 1
            return super().publish(channel, data, context, metadata=metadata, require_ack=require_ack)

        def subscribe(self, channel, *, callback=None):
            return _Sub(super().subscribe(channel, callback=callback), self.x)

    return ProgressTap


# ------------------------------------------------------------------------------------------ one execution
class Exec:
    """State and result of one execution."""

    def __init__(self, scn, strategy, bound, early_budget, scope=None):
        self.scn, self.strategy, self.bound, self.early_budget, self.scope = scn, strategy, bound, early_budget, scope
        self.sch = None
        self.mon = None
        self.orch = None
        self.stop = StopFlag(self)
        self.progress = 0
        self.puts = self.gets = self.publishes = self.deliveries = self.sleeps = self.future_completions = 0
        self.idle_wakeups = 0
        self.loops: dict = {}              # looping thread name -> [idle streak, progress value at the last timeout]
        self.client_done = False
        n = len(scn["jobs"])
        self.futures = [None] * n
        self.job_ids = [None] * n
        self.completions: dict = {}
        self.stop_requested = False
        self.stop_reason = None
        self.quiescence = None             # the witness: counters at the moment quiescence was declared
        self.runaway = False
        self.fixed_rule_decisions = 0      # decisions taken after the explored part (see StopAware)
        self.findings: list = []
        self.obs_leaves = None
        self.wall = 0.0

    @property
    def deterministic(self):
        return self.sch.deterministic

    # ---- quiescence
    def idle_wakeup(self, s, t):
        """Thread ``t`` woke up from its idle point by time-out (virtual clock or early expiry)."""
        self.idle_wakeups += 1
        st = self.loops.get(t.name)
        if st is None:
            st = self.loops[t.name] = [0, -1]
        if st[1] == self.progress:
            st[0] += 1
        else:
            st[0], st[1] = 0, self.progress
        self.check_stop(s)

    def all_done(self):
        return all(f is not None and f.done() for f in self.futures)

    def check_stop(self, s):
        if self.stop_requested or not self.client_done:
            return
        need = 1 if self.all_done() else 2
        idle = {}
        for t in s.threads:
            if t.name == "client" or t.state == sched.DONE:
                continue                                     # a dead thread has no idle streak to wait for
            if t.state == sched.BLOCKED and t.deadline is None:
                idle[t.name] = "blocked_untimed"             # can only be woken by progress
                continue
            st = self.loops.get(t.name)
            if st is None or st[1] != self.progress or st[0] < need:
                return
            idle[t.name] = st[0]
        self.request_stop(s, "quiescent_all_done" if need == 1 else "quiescent_futures_pending", idle)

    def request_stop(self, s, reason, idle=None):
        self.stop_requested = True
        self.stop_reason = reason
        self.quiescence = {
            "reason": reason, "progress": self.progress, "idle_streaks": idle, "job_queue_puts": self.puts,
            "job_queue_gets": self.gets, "transport_publishes": self.publishes, "transport_deliveries": self.deliveries,
            "future_completions": self.future_completions, "vclock": round(s.vclock, 3), "decisions": len(s.schedule),
            "job_queue_len": _qlen(self.orch), "dead_threads": [t.name for t in s.threads if t.state == sched.DONE and t.name != "client"],
            "futures_pending": [j for j, f in enumerate(self.futures) if f is None or not f.done()],
        }
        self.stop.set()
        try:
            self.orch.running = False
        except Exception:  # noqa: BLE001
            pass


def _qlen(orch):
    try:
        return orch.job_queue.qsize()
    except Exception:  # noqa: BLE001
        return None


class StopAware:
    """Chooser wrapper delimiting the explored part of an execution.  Scheduling alternatives are enumerated until the
    client has returned from every enqueue() AND every Future is done (no Future's outcome can change any more: a done
    Future is immutable and a late second completion raises InvalidStateError in the master whenever it is attempted),
    or until quiescence was declared with Futures still pending.  The continuation (the fruitless rounds that establish
    quiescence, then the loops running out) follows a fixed rule: continue the current thread, else the first READY
    thread, never an early expiry.  Also the runaway guard."""

    def __init__(self, inner, x):
        self.inner, self.x = inner, x

    def __call__(self, s, cur, kind, enabled):
        x = self.x
        if not x.stop_requested and len(s.schedule) > MAX_DECISIONS:
            x.runaway = True
            x.request_stop(s, "runaway")
        if x.stop_requested or (x.client_done and x.all_done()):
            x.fixed_rule_decisions += 1
            if kind == sched.K_YIELD:
                return cur
            return enabled[0]
        return self.inner(s, cur, kind, enabled)


class Scope:
    """Chooser wrapper for DFS rows: preemption alternatives are enumerated only at yield points of the threads whose name
    starts with ``prefix`` (a row = one class of preempted thread: "client", "master", "w"); other threads' yield
    points continue without consulting the inner chooser.  The union of the three rows is the unrestricted tree of the
    same preemption bound 1; each row is small enough to be exhaustive on its own."""

    def __init__(self, inner, prefix):
        self.inner, self.prefix = inner, prefix

    def __call__(self, s, cur, kind, enabled):
        if kind == sched.K_YIELD and not cur.name.startswith(self.prefix):
            return cur
        return self.inner(s, cur, kind, enabled)


class EarlyWrap:
    """For the randomised choosers: an offered early expiry is taken with probability ``p`` per decision; otherwise the
    inner chooser sees the READY threads only (a PCT priority would otherwise burn the budget at the first decision)."""

    def __init__(self, inner, rng, p):
        self.inner, self.rng, self.p = inner, rng, p

    def __call__(self, s, cur, kind, enabled):
        if enabled[-1].state == sched.BLOCKED:
            ready = [t for t in enabled if t.state != sched.BLOCKED]
            if self.rng.random() < self.p:
                extra = enabled[len(ready):]
                return extra[int(self.rng.random() * len(extra))]
            enabled = ready
        return self.inner(s, cur, kind, enabled)


class Harness:
    def __init__(self, scratch: str):
        boot.boot()
        from semantiva.execution.job_queue import queue_orchestrator as qo
        from semantiva.execution.job_queue import worker as wk
        from vlib import jobq

        self.qo, self.wk, self.jobq = qo, wk, jobq
        self.scratch = scratch
        self.codes = sched.code_objects(qo) + sched.code_objects(wk)
        self.instr = sched.Instrumentation(self.codes)
        self.x: Exec | None = None
        self.qshim = ShimQueueModule(self)
        self.tshim = TimeShim(self)
        self.thshim = sched.ThreadingShim()
        self.uuid = jobq.UuidShim()
        self.Tap = _progress_tap_class()
        self._saved: list = []
        self._prepared: dict = {}
        self._steps: dict = {}
        self.master_log = self.worker_log = None

    def __enter__(self):
        for m in (self.qo, self.wk):
            for attr, real, shim in (("queue", _real_queue, self.qshim), ("time", _real_time, self.tshim),
                                     ("threading", _real_threading, self.thshim)):
                if getattr(m, attr, None) is real:
                    self._saved.append((m, attr, real))
                    setattr(m, attr, shim)
        self._saved.append((self.qo, "uuid", self.qo.uuid))
        self.qo.uuid = self.uuid
        self.master_log = self.jobq.make_logger("c15-sys-master")
        self.worker_log = self.jobq.make_logger("c15-sys-worker")
        self.instr.install()
        return self

    def __exit__(self, *a):
        try:
            self.instr.uninstall()
        finally:
            for m, attr, old in reversed(self._saved):
                setattr(m, attr, old)
            self._saved = []
            self.x = None

    # ---- expected results, once per scenario
    def prepare(self, scn):
        from checks import c15
        from vlib.components import REC

        key = (scn["name"], scn["variant"])
        p = self._prepared.get(key)
        if p is None:
            jobs = scn["jobs"]
            expected = [c15.direct_run(job, self.scratch) for job in jobs]
            falsy = [c15.input_falsy(job) for job in jobs]
            replaced = [c15.direct_run(dict(job, data="NoData"), self.scratch) if falsy[j] else None for j, job in enumerate(jobs)]
            REC.clear()
            p = self._prepared[key] = {"expected": expected, "falsy": falsy, "replaced": replaced}
        return p

    def execute(self, scn, chooser, strategy="replay", bound=None, early_budget=0, wrap=True, scope=None) -> Exec:
        from checks import c15
        from semantiva.context_processors.context_types import ContextType
        from semantiva.execution.executor.executor import SequentialSemantivaExecutor
        from semantiva.execution.transport.in_memory import InMemorySemantivaTransport
        from vlib import account
        from vlib.components import REC

        t0 = _real_time.perf_counter()
        prep = self.prepare(scn)
        jobs = scn["jobs"]
        x = Exec(scn, strategy, bound, early_budget, scope)
        self.x = x
        x.mon = mon = self.jobq.Monitor()
        real = InMemorySemantivaTransport()
        orch = self.qo.QueueSemantivaOrchestrator(transport=self.Tap(real, mon, "master", x), stop_event=x.stop,
                                                  logger=self.master_log)
        x.orch = orch
        shim = self.uuid
        inputs = [(c15.job_cfg(job, self.scratch, for_queue=True), c15.job_data(job), ContextType(c15.job_ctx(job))) for job in jobs]
        REC.clear()

        chain = {int(k): int(v) for k, v in (scn.get("chain") or {}).items()}
        x.chain_started = {}

        def enqueue_job(j, who):
            cfg, data, ctx = inputs[j]
            mon.ev(who, "enqueue_call", None, j)
            shim.take()
            fut = orch.enqueue(cfg, data=data, context=ctx, return_future=True)
            x.job_ids[j] = shim.take()
            mon.ev(who, "enqueue_return", x.job_ids[j], j)
            x.futures[j] = fut
            fut.add_done_callback(on_done(j))

        def on_done(idx):
            def cb(fut):
                snap = {}
                try:
                    exc = fut.exception()
                    if exc is not None:
                        snap.update(kind="exception", exc=type(exc).__name__, msg=str(exc)[:300])
                    else:
                        data, ctx = fut.result()
                        snap.update(kind="result", data=account.plain(data), dtype=type(data).__name__,
                                    ctx=account.plain(ctx.to_dict()))
                except BaseException as e:  # noqa: BLE001
                    snap.update(kind="unreadable", exc=type(e).__name__, msg=str(e)[:300])
                x.progress += 1
                x.future_completions += 1
                me = sched._ctx()[1]
                snap["tick"] = mon.ev(me.name if me is not None else "?", "future_done", x.job_ids[idx], idx)
                x.completions.setdefault(idx, []).append(snap)
                if idx in chain and chain[idx] not in x.chain_started:
                    # job chaining: the follow-up job is enqueued from the completion callback
                    x.chain_started[chain[idx]] = "called"
                    enqueue_job(chain[idx], me.name if me is not None else "?")
                    x.chain_started[chain[idx]] = "returned"
            return cb

        def client():
            try:
                for j in range(len(inputs)):
                    if j not in chain.values():
                        enqueue_job(j, "client")
            finally:
                x.client_done = True

        def worker(i):
            tap = self.Tap(real, mon, f"w{i}", x)
            ex = SequentialSemantivaExecutor()
            return lambda: self.wk.worker_loop(i, tap, ex, x.stop, self.worker_log, scn.get("poll_worker", 0.1))

        s = sched.Scheduler(StopAware(chooser, x) if wrap else chooser, watchdog_s=WATCHDOG_S)
        s.early_budget = early_budget
        x.sch = s
        s.spawn("client", client)
        s.spawn("master", orch.run_forever)
        for i in range(scn["workers"]):
            s.spawn(f"w{i}", worker(i))
        try:
            s.run()
        finally:
            self.x = None
            x.obs_leaves = collections.Counter(c15.leaf_key(e) for e in REC.snapshot())
            REC.clear()
        if s.deterministic and not x.runaway:
            x.findings = oracle(x, prep)
        x.wall = _real_time.perf_counter() - t0
        return x

    def steps_estimate(self, scn) -> int:
        key = (scn["name"], scn["variant"])
        n = self._steps.get(key)
        if n is None:
            ex = self.execute(scn, sched.ReplayChooser([]), "estimate")
            # decisions of the explored part only (what follows the last Future's completion is not scheduled by the chooser)
            n = self._steps[key] = max(2, len(ex.sch.schedule) - ex.fixed_rule_decisions)
        return n

    def readable_trace(self, s, limit=3000):
        names = [t.name for t in s.threads]
        return [f"{names[v >> 24]} {self.instr.describe(v & 0xFFFFFF)}" for v in s.trace[:limit]]


# ------------------------------------------------------------------------------------------ oracle
def oracle(x: Exec, prep: dict) -> list:
    """[(mechanism key, what, extra witness fields)] for one deterministic execution.  Same keys as the
    perturbation-based part of checks/c15.py wherever the meaning is the same."""
    from checks import c15
    from vlib import account

    s, scn, mon = x.sch, x.scn, x.mon
    jobs, n = scn["jobs"], len(scn["jobs"])
    expected, replaced, falsy = prep["expected"], prep["replaced"], prep["falsy"]
    out: list = []
    deaths = {t.name: t.exc for t in s.threads if t.exc is not None}
    for name, exc in deaths.items():
        en = type(exc).__name__
        role = "master" if name == "master" else "client" if name == "client" else "worker"
        out.append((f"{role}_thread_died_{en}", f"thread {name} died with {en}: {str(exc)[:200]}", {"role": name, "exc": repr(exc)[:300]}))
    if s.deadlock is not None and not x.stop_requested:
        out.append(("thread_deadlock", f"every live thread blocked with no time-out: {s.deadlock}", {"blocked": s.deadlock}))
        return out
    master_died = "master" in deaths
    published, delivered = mon.published, mon.delivered
    ids_index = {jid: j for j, jid in enumerate(x.job_ids) if jid}
    flagged = set()

    def jw(j, **kw):
        w = {"job_index": j, "job_id": x.job_ids[j], "job_kind": jobs[j]["kind"],
             "expected": {k: v for k, v in expected[j].items() if k != "leaves"}, "completions": x.completions.get(j, [])}
        w.update(kw)
        return w

    for j in range(n):
        fut, exp, job = x.futures[j], expected[j], jobs[j]
        comps = x.completions.get(j, [])
        if len(comps) > 1:
            flagged.add(j)
            out.append(("future_completed_twice", f"job {j}: {len(comps)} completion events on one Future", jw(j)))
        if fut is None:
            flagged.add(j)
            started = getattr(x, "chain_started", {}).get(j)
            if started == "called":
                out.append(("future_never_completes_enqueue_from_done_callback_never_returned",
                            f"job {j}: enqueue(..., return_future=True) was called from the done-callback of job "
                            f"{[a for a, b in (scn.get('chain') or {}).items() if int(b) == j]}'s Future and never returned "
                            f"(blocked threads at the end: {s.deadlock})", jw(j)))
            elif started is None and j in [int(b) for b in (scn.get("chain") or {}).values()] and not master_died:
                parent = [int(a) for a, b in (scn.get("chain") or {}).items() if int(b) == j][0]
                if x.futures[parent] is not None and x.futures[parent].done() and not x.completions.get(parent):
                    out.append(("done_callback_not_invoked", f"job {parent}'s Future is done but its done-callback never ran", jw(j)))
            continue                    # enqueue() never returned: the client's death is reported above
        if not fut.done():
            flagged.add(j)
            if master_died or x.stop_reason not in ("quiescent_futures_pending", "quiescent_all_done"):
                continue                # explained by the master's death (reported above)
            cls = c15.never_classifier(job, exp, replaced[j], x.job_ids[j], published, delivered)
            out.append((f"future_never_completes_{cls}",
                        f"job {j} ({job['kind']}): client returned from enqueue, job queue empty, every live master/worker "
                        f"thread completed two fruitless rounds with no progress, Future still pending"
                        + (f"; direct run raises {exp['exc']}" if not exp["ok"] else f"; direct run returns {exp['data']!r}"), jw(j)))
            continue
        try:
            exc = fut.exception(timeout=0)
            res = None if exc is not None else fut.result(timeout=0)
        except BaseException as e:  # noqa: BLE001
            exc, res = e, None
        if exc is not None:
            others = [k for k, jid in enumerate(x.job_ids) if k != j and jid and jid in str(exc)]
            if others:
                flagged.add(j)
                out.append(("cross_talk", f"job {j}: its Future received the failure report of job {others[0]}: {str(exc)[:160]}",
                            jw(j, observed={"exception": type(exc).__name__, "msg": str(exc)[:300]}, other_job=others[0])))
            elif exp["ok"]:
                flagged.add(j)
                hyp = replaced[j]
                cls = ("falsy_payload_data_replaced" if hyp is not None and not hyp["ok"]
                       and (hyp["exc"] in str(exc) or hyp["exc"] == type(exc).__name__) else "unexpected_exception")
                out.append((f"wrong_result_{cls}", f"job {j} ({job['kind']}): Future raised {type(exc).__name__}: {str(exc)[:160]} but the "
                            f"direct run returns {exp['data']!r}", jw(j, observed={"exception": type(exc).__name__, "msg": str(exc)[:300]})))
            continue
        try:
            data, ctx = res
            obs = {"data": account.plain(data), "dtype": type(data).__name__, "ctx": account.plain(ctx.to_dict())}
        except Exception as e:  # noqa: BLE001
            flagged.add(j)
            out.append(("wrong_result_not_a_data_context_pair", f"job {j}: Future result is not (data, context): {type(e).__name__}: {e}",
                        jw(j, observed=repr(res)[:300])))
            continue
        snap = comps[0] if comps else None
        if snap is not None and snap.get("kind") == "result":
            if not (account.close(snap["data"], obs["data"]) and account.close(snap["ctx"], obs["ctx"])):
                flagged.add(j)
                out.append(("result_mutated_after_completion", f"job {j}: (data, context) read at completion differs from the one read "
                            f"after quiescence", jw(j, observed=obs)))
                continue
        octx = dict(obs["ctx"])
        ann = octx.pop("job_id", None)
        foreign = sorted(k for k in octx if k.startswith(c15.TOKEN_PREFIXES) and not k.endswith("_" + job["uid"]))
        if not exp["ok"]:
            flagged.add(j)
            if foreign:
                out.append(("cross_talk", f"job {j}: its Future completed with foreign context keys {foreign[:4]}",
                            jw(j, observed=obs, foreign_keys=foreign[:10])))
                continue
            key = ("wrong_result_falsy_payload_data_replaced" if c15.matches_replaced(replaced[j], obs)
                   else "failing_job_future_not_exceptional")
            out.append((key, f"job {j} ({job['kind']}): direct run raises {exp['exc']} but the Future completed with a result "
                        f"{obs['data']!r} ({obs['dtype']})", jw(j, observed=obs)))
            continue
        same = obs["dtype"] == exp["dtype"] and account.close(obs["data"], exp["data"]) and account.close(octx, exp["ctx"])
        ann_ok = isinstance(ann, str) and (x.job_ids[j] is None or ann == x.job_ids[j])
        if same and ann_ok:
            continue
        flagged.add(j)
        other = None
        for k in range(n):
            if k != j and expected[k]["ok"] and account.close(obs["data"], expected[k]["data"]) and account.close(octx, expected[k]["ctx"]):
                other = k
                break
        if other is None and isinstance(ann, str) and ann in ids_index and ids_index[ann] != j:
            other = ids_index[ann]
        if other is not None or foreign:
            out.append(("cross_talk", f"job {j}: its Future received job {other}'s result / foreign context keys {foreign[:4]}",
                        jw(j, observed=obs, other_job=other, foreign_keys=foreign[:10])))
        elif same and not ann_ok:
            out.append(("wrong_result_job_id_annotation", f"job {j}: result equals the direct run but job_id annotation is {ann!r} "
                        f"(assigned id {x.job_ids[j]!r})", jw(j, observed=obs)))
        else:
            cls = c15.result_classifier(job, exp, obs, octx, replaced[j])
            out.append((f"wrong_result_{cls}", f"job {j} ({job['kind']}): Future returned data={obs['data']!r} ({obs['dtype']}), direct run "
                        f"returns {exp['data']!r} ({exp['dtype']}); context differs in "
                        f"{sorted(set(octx) ^ set(exp['ctx']))[:6] or [k for k in octx if not account.close(octx[k], exp['ctx'].get(k))][:6]}",
                        jw(j, observed=obs)))
    # exactly-once execution (leaf flight recorder), only for a cleanly quiesced execution
    if x.stop_reason in ("quiescent_all_done", "quiescent_futures_pending") and not deaths and x.obs_leaves is not None:
        exp_leaves: collections.Counter = collections.Counter()
        owner: dict = {}
        for j in range(n):
            for lk in expected[j]["leaves"]:
                exp_leaves[lk] += 1
                owner.setdefault(lk, set()).add(j)
        for lk, c in (x.obs_leaves - exp_leaves).items():
            js = owner.get(lk, set())
            if (js and js <= flagged) or (not js and any(falsy[k] and k in flagged for k in range(n))):
                continue
            out.append(("job_executed_twice" if js else "foreign_leaf_execution",
                        f"leaf {lk} ran {c} time(s) more in the queue run than in the direct runs of jobs {sorted(js)}",
                        {"leaf": lk, "jobs": sorted(js), "extra": c}))
            break
        for lk, c in (exp_leaves - x.obs_leaves).items():
            js = owner.get(lk, set())
            if js & flagged or any(falsy[k] for k in js):
                continue
            out.append(("result_without_execution", f"leaf {lk} of jobs {sorted(js)} ran {c} time(s) less than in the direct runs "
                        f"although the Futures completed", {"leaf": lk, "jobs": sorted(js), "missing": c}))
            break
    return out


# ------------------------------------------------------------------------------------------ accounting / exploration
def rle(names):
    out, last, k = [], None, 0
    for v in names:
        if v == last:
            k += 1
        else:
            if last is not None:
                out.append(f"{last}*{k}")
            last, k = v, 1
    if last is not None:
        out.append(f"{last}*{k}")
    return " ".join(out)


def bump(run, table, key, n=1):
    d = run.info.setdefault(table, {})
    d[key] = d.get(key, 0) + n


class Acct:
    def __init__(self, run):
        self.run = run
        self.hashes: set = set()
        self.reported: set = set()
        self.max_pre = 0
        self.samples = 0
        self.executions = 0
        self.wall = 0.0
        self.pin = None

    def account(self, H: Harness, x: Exec):
        run, s, scn = self.run, x.sch, x.scn
        self.executions += 1
        self.wall += x.wall
        if self.pin is not None and self.executions % 100 == 0:
            self.pin.check()
        run.count("systematic_executions_started")
        if s.watchdog_fired:
            run.count("systematic_watchdog_activations")
            return None
        if s.diverged is not None:
            run.count("systematic_schedule_divergences")
            return None
        if x.runaway:
            run.count("systematic_runaway_executions")
            return None
        run.count("systematic_executions")
        run.count(f"systematic_executions_{x.strategy}")
        bump(run, "systematic_executions_per_scenario", scn["name"])
        h = s.interleaving_hash(f"{scn['name']}|{scn['variant']}")
        if h not in self.hashes:
            self.hashes.add(h)
            run.count("systematic_distinct_interleavings")
        nontrivial = s.preemptions >= 1 or s.early_used >= 1 or s.interleaved()
        run.count("systematic_yield_points", len(s.trace))
        run.count("systematic_scheduling_decisions", len(s.schedule))
        run.count("systematic_timed_blocks", s.blocks)
        run.count("systematic_preemptions_total", s.preemptions)
        run.count("systematic_early_expiries_used", s.early_used)
        run.count("systematic_idle_wakeups", x.idle_wakeups)
        run.count("systematic_jobs_enqueued", sum(1 for f in x.futures if f is not None))
        run.count("systematic_futures_completed", sum(1 for f in x.futures if f is not None and f.done()))
        run.count("systematic_transport_publishes", x.publishes)
        run.count("systematic_transport_deliveries", x.deliveries)
        run.count(f"systematic_stop_{x.stop_reason}")
        if s.deadlock is not None:
            run.count("systematic_deadlocks_after_stop" if x.stop_requested else "systematic_deadlocks")
        if x.strategy == "dfs" and s.preemptions > self.max_pre:
            self.max_pre = s.preemptions
        sample = None
        if self.samples < 2 and nontrivial and s.early_used:
            self.samples += 1
            sample = {"systematic": True, "scenario": scn["name"], "strategy": x.strategy, "bound": x.bound, "early_budget": x.early_budget,
                      "preemptions": s.preemptions, "early_expiries": s.early_used, "schedule_rle": rle(s.names())[:600],
                      "quiescence": x.quiescence, "findings": [k for k, _, _ in x.findings]}
        run.case(h, nontrivial, sample=sample)
        for key, what, extra in x.findings:
            run.count(f"systematic_finding_{key}")
            rk = (key, scn["name"], x.strategy if run.shard[1] == 1 else "")
            if rk in self.reported:
                run.count("systematic_findings_same_key_and_scenario_not_rereported")
                continue
            self.reported.add(rk)
            names = s.names()
            run.violation(key, f"[systematic {scn['name']}/{x.strategy} preempt={x.scope or 'any'} bound={x.bound} early={x.early_budget}] {what}; "
                               f"schedule {rle(names)[:400]}", witness(H, x, extra))
        return h


def witness(H: Harness, x: Exec, extra=None) -> dict:
    s = x.sch
    names = s.names()
    return {"mode": "systematic", "scenario": x.scn, "strategy": x.strategy, "bound": x.bound, "early_budget": x.early_budget,
            "preempted_thread_class": x.scope,
            "schedule": names, "schedule_rle": rle(names), "preemptions": s.preemptions, "early_expiries_used": s.early_used,
            "interleaving": s.interleaving_hash(f"{x.scn['name']}|{x.scn['variant']}"), "quiescence": x.quiescence,
            "job_ids": x.job_ids, "history": [list(e) for e in x.mon.events][:200], "trace": H.readable_trace(s),
            "observed": {k: w for k, w, _ in x.findings}, "detail": extra,
            "expected": "every Future completes exactly once with the direct-run (data, context) + job_id; failing job => exceptional"}


def explore_dfs(run, acct, H, scn, scope, bound, early, max_schedules=None, dshard=(0, 1)):
    """One DFS row: scenario x class of preempted thread (``scope``: "client" / "master" / "w" / None = any) x
    preemption bound x early-expiry budget.  ``dshard`` splits one row over several processes (sched.DFS sharding)."""
    key = f"{scn['name']}|v{scn['variant']}|workers={scn['workers']}|preempt={scope or 'any'}|bound={bound}|early={early}"
    salt = sum(key.encode()) % max(1, dshard[1])
    dfs = sched.DFS(bound, shard=dshard, max_schedules=max_schedules, salt=salt)
    seen, losing = set(), 0
    t0 = _real_time.perf_counter()
    for chooser in dfs:
        x = H.execute(scn, Scope(chooser, scope) if scope else chooser, "dfs", bound, early, scope=scope)
        if not x.deterministic or x.runaway:
            dfs.aborted = True
        if dfs.is_spine and dshard[0] != 0:
            continue                      # discovery run every row-shard needs; row-shard 0 accounts for it
        h = acct.account(H, x)
        if h is not None:
            seen.add(h)
            if x.findings:
                losing += 1
    bump(run, "systematic_dfs_schedules", key, dfs.executed - (dfs.spine_executed if dshard[0] != 0 else 0))
    bump(run, "systematic_dfs_distinct_interleavings", key, len(seen))
    bump(run, "systematic_dfs_schedules_with_findings", key, losing)
    bump(run, "systematic_dfs_exhaustive_shards", key, 1 if dfs.exhausted else 0)
    bump(run, "systematic_dfs_shards", key, 1)
    bump(run, "systematic_dfs_wall_s", key, round(_real_time.perf_counter() - t0, 1))
    if dshard[0] == 0:
        run.count("systematic_dfs_rows")
        # a row split over several processes has no schedule cap: each part exhausts unless an execution was
        # non-deterministic, which is counted below and makes the run inconclusive anyway
        run.count("systematic_dfs_rows_exhaustive", 1 if dfs.exhausted else 0)
    if not dfs.exhausted:
        run.count("systematic_dfs_row_shards_not_exhaustive")
    return dfs


def explore_random(run, acct, H, rng, n_total, scenarios, variant0=0):
    """``n_total`` executions, alternating PCT (depth 1..3) and uniform random walks, early budget 1..2."""
    for i in range(n_total):
        name = scenarios[i % len(scenarios)]
        scn = scenario(name, variant0 + i // len(scenarios))
        early = 1 + (i // 2) % 2
        est = H.steps_estimate(scn)
        if i % 2 == 0:
            strategy = "pct"
            inner = sched.PCTChooser(rng, 1 + (i // 4) % 3, est)
        else:
            strategy = "random"
            inner = sched.RandomChooser(rng)
        chooser = EarlyWrap(inner, rng, min(0.25, 3.0 * early / est))
        acct.account(H, H.execute(scn, chooser, strategy, None, early))


S1, S2, S3, S4, S5, S6 = SCENARIO_NAMES


def plan(tier: str, seed: int, shard=(0, 1)):
    """-> ([(scenario, variant, scope, bound, early, cap, dfs-shard)], number of PCT/random executions).

    quick (one process):  S1 and S2 (failing job, kind rotates with the seed): every scope with 1 preemption + 1 early
    expiry (with no early expiry a polling thread never runs while another thread is inside a job: its time-out only
    expires when nobody can run); S3: client scope with 1 preemption, plus the first 150 schedules of client scope with
    1 preemption + 1 early expiry (a prefix: reported as not exhaustive); 160 PCT / random executions over S1..S5.
    thorough: the units below are dealt round-robin to the check's shards (a fresh process each; semantiva keeps every
    generated class alive, so no process runs more than a few thousand executions); 200 PCT / random executions per shard.
    """
    v = seed % 5
    if tier == "quick":
        one = (0, 1)
        rows = [(S1, 0, "client", 1, 1, 1500, one), (S1, 0, "master", 1, 1, 1500, one), (S1, 0, "w", 1, 1, 1500, one),
                (S2, v, "client", 1, 1, 1500, one), (S2, v, "master", 1, 1, 1500, one), (S2, v, "w", 1, 1, 1500, one),
                (S3, v, "client", 1, 0, 900, one), (S3, v, "client", 1, 1, 150, one)]
        return rows, 160
    units = []
    for scn_name, var in ((S1, 0), (S2, v)):
        for scope in ("client", "master"):
            units += [(scn_name, var, scope, 2, 2, None, (k, 4)) for k in range(4)]
        units += [(scn_name, var, "w", 2, 1, None, (k, 4)) for k in range(4)]
        units += [(scn_name, var, "client", 1, 2, 4000, (0, 1)), (scn_name, var, "master", 1, 2, 4000, (0, 1))]
    for scope in ("client", "master", "w"):
        units.append((S3, v, scope, 1, 1, 4000, (0, 1)))
        units.append((S4, seed % 3, scope, 1, 0, 4000, (0, 1)))
    units += [(S4, seed % 3, "client", 1, 1, 3000, (0, 1)), (S5, v, "client", 1, 0, 3000, (0, 1))]
    for d in (1, 2, 3, 4):
        units.append((S2, (v + d) % 5, "client", 1, 1, 4000, (0, 1)))
    units += [(S3, (v + 1) % 5, "client", 1, 1, 4000, (0, 1)), (S3, (v + 2) % 5, "master", 1, 1, 4000, (0, 1))]
    i, n = shard
    return [u for k, u in enumerate(units) if k % n == i], 200


class _Pinned:
    """Token passing runs one thread at a time: one core for the duration of the pass avoids cross-core wake-ups (speed
    only, about 2x).  The idlest core (a 50 ms /proc/stat sample) is taken; ``check()`` gives the core up again when the
    process gets less than half of it (other pinned processes on a shared machine); the previous affinity is restored
    for the perturbation-based batches, which want real parallelism."""

    def __init__(self, run):
        self.run, self.old, self.pinned = run, None, False
        self.mark = None
        self.released = False

    @staticmethod
    def _idle_ticks():
        out = {}
        try:
            with open("/proc/stat", encoding="ascii") as fh:
                for line in fh:
                    if line.startswith("cpu") and line[3].isdigit():
                        f = line.split()
                        out[int(f[0][3:])] = int(f[4]) + int(f[5])
        except (OSError, ValueError, IndexError):
            pass
        return out

    @staticmethod
    def _set_all(mask):
        import os

        try:
            tids = [int(x) for x in os.listdir("/proc/self/task")]
        except OSError:
            tids = [0]
        for tid in tids:
            try:
                os.sched_setaffinity(tid, mask)
            except OSError:
                pass

    def __enter__(self):
        import os

        try:
            self.old = os.sched_getaffinity(0)
            a = self._idle_ticks()
            _real_time.sleep(0.05)
            b = self._idle_ticks()
            cpus = sorted(self.old)
            best = max(cpus, key=lambda c: (b.get(c, 0) - a.get(c, 0), -c)) if a and b else cpus[(os.getpid() + self.run.shard[0]) % len(cpus)]
            os.sched_setaffinity(0, {best})
            self.pinned = True
            self.mark = (_real_time.perf_counter(), _real_time.process_time())
        except (AttributeError, OSError):
            self.old = None
        return self

    def check(self):
        """Called every few hundred executions: give the core up if this process is being starved on it."""
        if not self.pinned:
            return
        w, c = _real_time.perf_counter(), _real_time.process_time()
        w0, c0 = self.mark
        if w - w0 < 1.0:
            return
        self.mark = (w, c)
        if (c - c0) < 0.5 * (w - w0):
            self._set_all(self.old)
            self.pinned = False
            self.released = True

    def __exit__(self, *a):
        if self.old is not None:
            self._set_all(self.old)


def run_pass(run, scratch: str):
    """The systematic pass of C15 (called from checks/c15.py before the perturbation-based batches)."""
    rows, n_rand = plan(run.tier, run.seed, run.shard)
    for k in ("systematic_watchdog_activations", "systematic_schedule_divergences", "systematic_runaway_executions",
              "systematic_deadlocks", "systematic_dfs_rows_exhaustive", "systematic_early_expiries_used",
              "systematic_dfs_row_shards_not_exhaustive"):
        run.count(k, 0)
    rng = random.Random(run.seed * 1000 + run.shard[0] + 15)
    acct = Acct(run)
    t0 = _real_time.time()
    with _Pinned(run) as pin, Harness(scratch) as H:
        acct.pin = pin
        for name, variant, scope, bound, early, cap, dshard in rows:
            explore_dfs(run, acct, H, scenario(name, variant), scope, bound, early, cap, dshard)
        t1 = _real_time.time()
        explore_random(run, acct, H, rng, n_rand, SCENARIO_NAMES, variant0=run.seed + 7 * run.shard[0])
        run.count("systematic_yield_point_code_objects", len(H.codes) if run.shard[0] == 0 else 0)
    wall = _real_time.time() - t0
    bump(run, "systematic_wall_s", "dfs", round(t1 - t0, 1))
    bump(run, "systematic_wall_s", "pct_random", round(wall - (t1 - t0), 1))
    bump(run, "systematic_wall_s", "shards_that_gave_up_their_pinned_core", 1 if pin.released else 0)
    bump(run, "systematic_dfs_preemptions_max_seen_by_shards", str(acct.max_pre))
    if run.shard[0] == 0:
        # counters are summed over shards: only shard 0 (which holds a row of the largest preemption bound) reports it
        run.count("systematic_preemptions_max", acct.max_pre)
    if run.counters.get("systematic_watchdog_activations", 0) or run.counters.get("systematic_schedule_divergences", 0):
        run.note_inconclusive("systematic pass: a watchdog fired or a schedule diverged (non-deterministic execution)")


def replay(run, w):
    """Re-execute one systematic witness with ReplayChooser (./check C15 --replay FILE)."""
    import shutil
    import tempfile

    boot.boot()
    scn = w["scenario"]
    scratch = tempfile.mkdtemp(prefix="verif-c15s-")
    try:
        acct = Acct(run)
        with Harness(scratch) as H:
            x = H.execute(scn, sched.ReplayChooser(w["schedule"]), "replay", w.get("bound"), w.get("early_budget", 0), wrap=False)
            acct.account(H, x)
            same = x.sch.interleaving_hash(f"{scn['name']}|{scn['variant']}") == w.get("interleaving")
            print(f"replayed {len(x.sch.schedule)} decisions, preemptions={x.sch.preemptions}, early expiries={x.sch.early_used}, "
                  f"diverged={x.sch.diverged}, same interleaving: {same}")
            print("quiescence:", x.quiescence)
            print("findings:", [(k, wh) for k, wh, _ in x.findings])
            x2 = H.execute(scn, sched.ReplayChooser([]), "replay", None, 0)
            run.case("replay-serial-" + x2.sch.interleaving_hash(), True)
            run.case("replay-" + str(w.get("interleaving", "x")), True)
    finally:
        shutil.rmtree(scratch, ignore_errors=True)
