"""icontract contracts on the *real* functions (attached from outside the repository).

Conditions record and return True (a raising contract would abort what it observes); every contract counts
its evaluations and a zero count is inconclusive, never held.  Never used under more than one thread.
"""
from __future__ import annotations

import inspect
from typing import Any

import icontract


class PostBroken(Exception):
    pass


_MISSING = object()


def _sig_default(processor_cls, name):
    fn = getattr(processor_cls, "_process_logic", None)
    if fn is None:
        return _MISSING
    try:
        p = inspect.signature(fn).parameters.get(name)
    except (TypeError, ValueError):
        return _MISSING
    if p is None or p.default is inspect.Parameter.empty:
        return _MISSING
    return p.default


def install_resolution_contract(run) -> dict:
    """ensure: resolve_runtime_value returns config value if configured, else the context value if the key
    is in the context, else the signature default."""
    import semantiva.pipeline._param_resolution as pr
    import semantiva.pipeline.nodes.nodes as nodes_mod

    state: dict[str, Any] = {"evaluations": 0, "violations": [], "orig": pr.resolve_runtime_value,
                             "patched": []}
    orig = pr.resolve_runtime_value

    def precedence_holds(name, processor_cls, processor_config, context, result):
        state["evaluations"] += 1
        try:
            if name in processor_config:
                ok = result is processor_config[name] or result == processor_config[name]
                chan = "config"
            elif name in context.keys():
                v = context.get_value(name)
                ok = result is v or result == v
                chan = "context"
            else:
                d = _sig_default(processor_cls, name)
                if d is _MISSING:
                    return True
                ok = result is d or result == d
                chan = "default"
            if not ok:
                state["violations"].append({"name": name, "processor": processor_cls.__name__, "expected_channel": chan,
                                            "result": repr(result)})
                run.violation("resolution_precedence",
                              f"resolve_runtime_value returned {result!r} for '{name}' of {processor_cls.__name__}; "
                              f"precedence prescribes the {chan} value",
                              {"name": name, "processor": processor_cls.__name__, "config": repr(processor_config),
                               "context_keys": list(context.keys())})
        except Exception:
            pass
        return True

    wrapped = icontract.ensure(precedence_holds, error=PostBroken)(orig)
    for mod in (pr, nodes_mod):
        if getattr(mod, "resolve_runtime_value", None) is orig:
            setattr(mod, "resolve_runtime_value", wrapped)
            state["patched"].append(mod)
    return state


def uninstall(state: dict) -> None:
    for mod in state.get("patched", []):
        setattr(mod, "resolve_runtime_value", state["orig"])
