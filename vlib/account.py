"""Independent account of a real run: drivers for the public API, plain-value conversion, prefix replay,
and a same-run sys.monitoring probe on node entry/exit."""
from __future__ import annotations

import os
import sys
import tempfile
from dataclasses import dataclass, field
from typing import Any, Optional

from . import refmodel as rm


def to_real_data(d: Any):
    from semantiva.data_types import NoDataType
    from semantiva.examples.test_utils import FloatDataCollection, FloatDataType

    if isinstance(d, str) and d == rm.NODATA:
        return NoDataType()
    if isinstance(d, list):
        return FloatDataCollection.from_list([FloatDataType(float(x)) for x in d])
    return FloatDataType(d if isinstance(d, float) else float(d))  # keeps float subclasses (hostile values)


import re as _re

_NUM = _re.compile(r"-?\d+\.\d+(?:[eE][-+]?\d+)?")
_NP_REPR = _re.compile(r"np\.float64\(([^()]*)\)")


def plain(v: Any) -> Any:
    """Plain-Python image of real data / context values."""
    from semantiva.data_types import NoDataType
    from semantiva.examples.test_utils import FloatDataCollection, FloatDataType

    try:
        import numpy as np
    except Exception:  # pragma: no cover
        np = None
    if isinstance(v, NoDataType):
        return rm.NODATA
    if isinstance(v, FloatDataCollection):
        return [plain(x) for x in v]
    if isinstance(v, FloatDataType):
        return plain(v.data)
    if np is not None and isinstance(v, np.generic):
        return v.item()
    if np is not None and isinstance(v, np.ndarray):
        return [plain(x) for x in v.tolist()]
    if isinstance(v, (list, tuple)):
        return [plain(x) for x in v]
    if isinstance(v, dict):
        return {k: plain(x) for k, x in v.items()}
    if isinstance(v, str) and "np.float64(" in v:
        # str() of a list of numpy scalars (template over a <var>_values key): representation detail
        return _NP_REPR.sub(r"\1", v)
    return v


def content_key(data: Any):
    """Content identity of a data object including the Python type of the wrapped value (np.float64 vs float)."""
    from semantiva.data_types import NoDataType
    from semantiva.examples.test_utils import FloatDataCollection, FloatDataType

    if isinstance(data, NoDataType):
        return ("N",)
    if isinstance(data, FloatDataCollection):
        return ("C",) + tuple(content_key(x) for x in data)
    if isinstance(data, FloatDataType):
        return ("F", type(data.data).__name__, repr(data.data))
    return ("O", type(data).__name__, repr(data))


def close(a: Any, b: Any, rel: float = 1e-9) -> bool:
    if isinstance(a, bool) or isinstance(b, bool):
        return a == b
    if isinstance(a, (int, float)) and isinstance(b, (int, float)):
        if a == b:
            return True
        if a != a and b != b:
            return True
        return abs(a - b) <= rel * max(abs(a), abs(b)) + 1e-12  # abs term: cancellation noise in sums near 0
    if isinstance(a, (list, tuple)) and isinstance(b, (list, tuple)):
        return len(a) == len(b) and all(close(x, y, rel) for x, y in zip(a, b))
    if isinstance(a, dict) and isinstance(b, dict):
        return set(a) == set(b) and all(close(a[k], b[k], rel) for k in a)
    if isinstance(a, str) and isinstance(b, str) and a != b:
        # strings rendered from floats (templates): compare embedded numbers with the same tolerance
        pa, pb = _NUM.split(a), _NUM.split(b)
        na, nb = _NUM.findall(a), _NUM.findall(b)
        if pa == pb and len(na) == len(nb) and na:
            try:
                return all(close(float(x), float(y), rel) for x, y in zip(na, nb))
            except ValueError:
                return False
        return False
    return a == b


@dataclass
class RealResult:
    ok: bool
    data: Any = None
    ctx: Optional[dict] = None
    exc: Optional[BaseException] = None
    exc_name: Optional[str] = None
    exc_mro: list = field(default_factory=list)
    leaves: list = field(default_factory=list)
    stage: str = "run"   # "build" when Pipeline(...) itself raised
    fail_index: Optional[int] = None
    pipeline: Any = None


def build_pipeline(nodes: list, via_yaml: bool = False, trace=None, scratch: Optional[str] = None):
    from semantiva.pipeline.pipeline import Pipeline

    if via_yaml:
        from semantiva.configurations.load_pipeline_from_yaml import load_pipeline_from_yaml
        from .gen import to_yaml

        fd, path = tempfile.mkstemp(suffix=".yaml", dir=scratch)
        with os.fdopen(fd, "w", encoding="utf-8") as fh:
            fh.write(to_yaml(nodes))
        try:
            cfg = load_pipeline_from_yaml(path)
        finally:
            os.unlink(path)
        return Pipeline(cfg, trace=trace)
    import copy

    return Pipeline(copy.deepcopy(nodes), trace=trace)


def real_run(nodes: list, data: Any, ctx: dict, *, via_yaml: bool = False, trace=None,
             scratch: Optional[str] = None, pipeline=None, catch_base: bool = True) -> RealResult:
    """Run through the public API.  The harness owns the ContextType, so the context after a failed run is visible."""
    from semantiva.context_processors.context_types import ContextType
    from semantiva.pipeline.payload import Payload
    from .components import REC

    import copy

    REC.clear()
    rr = RealResult(ok=True)
    try:
        pipe = pipeline if pipeline is not None else build_pipeline(nodes, via_yaml, trace, scratch)
    except Exception as exc:
        rr.ok, rr.exc, rr.exc_name, rr.stage = False, exc, type(exc).__name__, "build"
        rr.exc_mro = [c.__name__ for c in type(exc).__mro__]
        return rr
    rr.pipeline = pipe
    context = ContextType(copy.deepcopy(ctx))
    payload = Payload(to_real_data(data), context)
    try:
        out = pipe.process(payload)
        rr.data = plain(out.data)
        rr.ctx = plain(out.context.to_dict())
    except BaseException as exc:  # noqa: BLE001 - KeyboardInterrupt-class aborts are part of the workload
        if not catch_base and not isinstance(exc, Exception):
            raise
        if isinstance(exc, (SystemExit, MemoryError)) or type(exc) is KeyboardInterrupt:
            raise
        rr.ok, rr.exc, rr.exc_name = False, exc, type(exc).__name__
        rr.exc_mro = [c.__name__ for c in type(exc).__mro__]
        rr.ctx = plain(context.to_dict())
    rr.leaves = [(c, d, k) for (c, d, k, _t) in REC.snapshot()]
    return rr


def failing_index_by_prefix(nodes: list, data: Any, ctx: dict, *, via_yaml: bool = False,
                            scratch: Optional[str] = None) -> Optional[int]:
    """Black-box: index of the first node whose prefix pipeline raises (None if no prefix raises)."""
    for k in range(1, len(nodes) + 1):
        r = real_run(nodes[:k], data, ctx, via_yaml=False, scratch=scratch)
        if not r.ok:
            return k - 1
    return None


def prefix_states(nodes: list, data: Any, ctx: dict, scratch: Optional[str] = None) -> list:
    """[(ok, data, ctx)] after each prefix nodes[0..k], k = 1..n (stops after the first failing prefix)."""
    out = []
    for k in range(1, len(nodes) + 1):
        r = real_run(nodes[:k], data, ctx, scratch=scratch)
        out.append(r)
        if not r.ok:
            break
    return out


# --------------------------------------------------------------------------- same-run probe
class NodeProbe:
    """PY_START / PY_RETURN / RAISE probes on _PayloadProcessor.process: snapshots the context at node
    entry and exit in the very run being observed (binding-independent: hangs on the code object)."""

    TOOL = 3

    def __init__(self) -> None:
        self.events: list = []
        self.hits = 0
        self._code = None
        self._active = False

    def __enter__(self):
        from semantiva.pipeline.payload_processors import _PayloadProcessor
        from semantiva.pipeline.pipeline import Pipeline

        mon = sys.monitoring
        self._code = _PayloadProcessor.process.__code__
        self._pipeline_cls = Pipeline
        try:
            mon.use_tool_id(self.TOOL, "verif-nodeprobe")
        except ValueError:
            pass
        E = mon.events
        mon.register_callback(self.TOOL, E.PY_START, self._start)
        mon.register_callback(self.TOOL, E.PY_RETURN, self._ret)
        mon.register_callback(self.TOOL, E.PY_UNWIND, self._unwind)
        mon.set_local_events(self.TOOL, self._code, E.PY_START | E.PY_RETURN)
        mon.set_events(self.TOOL, E.PY_UNWIND)
        self._active = True
        return self

    def _frame_self(self):
        f = sys._getframe(2)
        return f.f_locals.get("self"), f.f_locals.get("payload")

    def _snap(self, payload):
        try:
            ctx = payload.context
            d = ctx.to_dict() if hasattr(ctx, "to_dict") else dict(ctx)
            self._last_key = content_key(payload.data)
            return plain(d), plain(payload.data)
        except Exception:
            self._last_key = None
            return None, None

    def _ident(self, slf):
        p = getattr(slf, "processor", None)
        cls = type(p) if p is not None else None
        if cls is None:
            return None
        return {"module": cls.__module__, "qualname": cls.__qualname__, "name": cls.__name__}

    def _start(self, code, offset):
        if code is not self._code:
            return
        slf, payload = self._frame_self()
        if slf is None or isinstance(slf, self._pipeline_cls):
            return
        self.hits += 1
        c, d = self._snap(payload) if payload is not None else (None, None)
        self.events.append(("enter", type(slf).__name__, type(getattr(slf, "processor", None)).__name__, c, d, id(slf),
                            self._ident(slf), getattr(self, "_last_key", None)))

    def _ret(self, code, offset, retval):
        if code is not self._code:
            return
        slf, _ = self._frame_self()
        if slf is None or isinstance(slf, self._pipeline_cls):
            return
        c, d = self._snap(retval) if retval is not None else (None, None)
        self.events.append(("exit", type(slf).__name__, type(getattr(slf, "processor", None)).__name__, c, d, id(slf),
                            None, getattr(self, "_last_key", None)))

    def _unwind(self, code, offset, exc):
        if code is not self._code:
            return
        slf, payload = self._frame_self()
        if slf is None or isinstance(slf, self._pipeline_cls):
            return
        c, d = self._snap(payload) if payload is not None else (None, None)
        self.events.append(("raise", type(slf).__name__, type(getattr(slf, "processor", None)).__name__, c, d, id(slf),
                            None, getattr(self, "_last_key", None)))

    def __exit__(self, *a):
        mon = sys.monitoring
        E = mon.events
        try:
            mon.set_local_events(self.TOOL, self._code, 0)
            mon.set_events(self.TOOL, 0)
            mon.register_callback(self.TOOL, E.PY_START, None)
            mon.register_callback(self.TOOL, E.PY_RETURN, None)
            mon.register_callback(self.TOOL, E.PY_UNWIND, None)
            mon.free_tool_id(self.TOOL)
        except Exception:
            pass
        self._active = False
        return False

    def node_records(self) -> list:
        """[{node, processor, ctx_before, data_in, ctx_after, data_out, outcome}] in execution order."""
        recs, open_ = [], {}
        for ev in self.events:
            kind, node, proc, c, d, ident, cls_ident, dkey = ev
            if kind == "enter":
                open_[ident] = {"node": node, "processor": proc, "ctx_before": c, "data_in": d,
                                "ctx_after": None, "data_out": None, "outcome": "open",
                                "processor_class": cls_ident, "data_in_key": dkey, "data_out_key": None}
                recs.append(open_[ident])
            elif ident in open_:
                r = open_.pop(ident)
                r["ctx_after"], r["data_out"] = c, d
                r["data_out_key"] = dkey
                r["outcome"] = "returned" if kind == "exit" else "raised"
        return recs
