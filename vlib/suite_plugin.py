"""pytest plugin: run the repository's own test suite with the harness's contracts attached, so the existing
tests become extra workload for the oracles (thorough tiers).

Usage (in a scratch copy T of the repository, because the suite writes into its cwd):
    cd T && PYTHONPATH=T:/verif:/verif/.deps VERIF_REPO=T VERIF_SUITE_OUT=<json> \
        /venv/bin/python -m pytest -q -p no:cacheprovider -p vlib.suite_plugin
Contracts record and return True; the JSON lists evaluations and recorded violations per contract.
"""
from __future__ import annotations

import json
import os


class _Collector:
    """Minimal stand-in for vlib.verdict.Run used by the contract installers."""

    def __init__(self):
        self.violations = []
        self.counters = {}

    def violation(self, key, what, witness):
        self.violations.append({"key": key, "what": what, "witness": repr(witness)[:800]})

    def count(self, name, n=1):
        self.counters[name] = self.counters.get(name, 0) + n


_STATE: dict = {}


def pytest_sessionstart(session):
    from vlib import boot

    boot._paths()
    col = _Collector()
    _STATE["col"] = col
    wanted = os.environ.get("VERIF_SUITE_CONTRACTS", "resolution").split(",")
    if "resolution" in wanted:
        from vlib import contracts

        _STATE["resolution"] = contracts.install_resolution_contract(col)
    if "runspace" in wanted:
        try:
            from vlib import runspace_model

            _STATE["runspace"] = runspace_model.install_contract(col)
        except Exception as exc:  # pragma: no cover
            col.count(f"runspace_contract_install_failed_{type(exc).__name__}")


def pytest_sessionfinish(session, exitstatus):
    col = _STATE.get("col")
    if col is None:
        return
    out = {"violations": col.violations, "counters": col.counters, "exitstatus": int(exitstatus),
           "resolution_evaluations": (_STATE.get("resolution") or {}).get("evaluations", 0)}
    rs = _STATE.get("runspace")
    if isinstance(rs, dict):
        out["runspace_evaluations"] = rs.get("evaluations", 0)
    path = os.environ.get("VERIF_SUITE_OUT")
    if path:
        with open(path, "w", encoding="utf-8") as fh:
            json.dump(out, fh)
