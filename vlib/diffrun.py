"""Differential comparison of one real run with the reference interpreter (shared by C01, C03)."""
from __future__ import annotations

def node_kind(nm) -> str:
    """Mechanism-level description of a node: role + wrapping (never a value or a hash)."""
    if nm.shorthand:
        return f"ctx_{nm.shorthand[0]}"
    k = nm.role
    if nm.sweep is not None:
        k += "_sweep_" + nm.sweep["mode"] + ("_broadcast" if nm.sweep["broadcast"] else "")
        if nm.sweep["from_ctx"]:
            k += "_fromctx"
    if nm.slicer:
        k += "_slicer"
    if nm.comp is not None and nm.comp.fault:
        k += "_" + nm.comp.fault
    return k


def locus(case, scratch) -> str:
    """Kind of the first node at which the real prefix run and the reference prefix disagree."""
    from vlib import account, refmodel as rm

    nodes, ctx, data = case["nodes"], case["ctx"], case["data"]
    try:
        models = rm.describe(nodes)
    except Exception:
        return "undescribable"
    for k in range(1, len(nodes) + 1):
        try:
            m = rm.run_pipeline(nodes[:k], data, ctx)
        except rm.ConfigRejected:
            return "model_rejects"
        r = account.real_run(nodes[:k], data, ctx, scratch=scratch)
        same = (m.ok == r.ok) and (not m.ok or (account.close(m.data, r.data) and account.close(m.ctx, r.ctx)))
        if same and m.ok:
            exp = [[c, None if d == "NoData" else d, kw] for c, d, kw in m.leaves]
            same = account.close(exp, [[c, d, kw] for c, d, kw in r.leaves])
        if not same:
            return node_kind(models[k - 1])
        if not m.ok:
            break
    return "whole_pipeline_only"


def compare(run, case, via_yaml, scratch, contracts=None):
    from vlib import account, refmodel as rm

    nodes, ctx, data = case["nodes"], case["ctx"], case["data"]
    try:
        model = rm.run_pipeline(nodes, data, ctx)
    except rm.ConfigRejected:
        run.count("model_rejected_config")
        return None
    real = account.real_run(nodes, data, ctx, via_yaml=via_yaml, scratch=scratch)
    run.count("pipelines_run")
    run.count("leaf_calls_recorded", len(real.leaves))
    witness = {"case": case, "via_yaml": via_yaml}

    def viol(key, what, **extra):
        w = dict(witness)
        w.update(extra)
        try:
            where = locus(case, scratch)
        except Exception as exc:  # pragma: no cover
            where = f"locus_error_{type(exc).__name__}"
        w["first_divergent_node_kind"] = where
        run.violation(f"{key}@{where}", what, w)

    if real.stage == "build":
        viol("build_rejected", f"Pipeline(...) rejected a configuration the reference accepts: {real.exc_name}: {real.exc}",
             model_ok=model.ok)
        return model
    alt = None
    if any(k == "data_object_as_parameter" for k, _ in model.dontcare):
        # a data object stored in the context by CopyDataProbe reached a parameter (via rename / a parameter-named
        # context key): what float(obj) / str(obj) / obj * 2 do belongs to the data-type classes, not to the
        # documented node semantics -> not compared (counted)
        run.count("data_object_as_parameter_not_compared")
        return model
    if model.dontcare:
        alt = rm.run_pipeline(nodes, data, ctx, absent_delete="noop")
        run.count("dontcare_cases")
    candidates = [model] + ([alt] if alt is not None else [])

    def agrees(m):
        if m.ok != real.ok:
            return "outcome"
        if m.ok:
            if not account.close(m.data, real.data):
                return "data"
            if not account.close(m.ctx, real.ctx):
                return "context"
            if not m.unrecorded_leaf or True:
                exp = [(c, d, k) for c, d, k in m.leaves]
                got = [(c, d if d != "NoData" else None, k) for c, d, k in real.leaves]
                exp = [(c, None if d == "NoData" else d, k) for c, d, k in exp]
                if not account.close([list(x) for x in exp], [list(x) for x in got]):
                    return "leaf_sequence"
            return None
        return None

    verdicts = [agrees(m) for m in candidates]
    if all(v is not None for v in verdicts):
        m = model
        v = verdicts[0]
        if v == "outcome" and not m.ok and m.incidental and m.fail_kind == "processor_error" and m.nodes:
            odd = [x for x in m.nodes[-1].params.values() if isinstance(x, (list, dict, str, tuple))]
            if odd:
                # arithmetic of a leaf on a non-scalar parameter value: plain Python raises where numpy scalars
                # broadcast — a representation detail of the harness components, not pipeline semantics
                run.count("odd_value_arithmetic_not_compared")
                return model
        if v == "outcome":
            viol(f"outcome_{'model_ok_real_fail' if m.ok else 'model_fail_real_ok'}",
                 f"reference {'succeeds' if m.ok else 'fails at node %s (%s)' % (m.fail_index, m.fail_kind)} but the run "
                 f"{'returned' if real.ok else 'raised %s: %s' % (real.exc_name, real.exc)}",
                 model={"ok": m.ok, "fail_index": m.fail_index, "fail_kind": m.fail_kind, "data": m.data, "ctx": m.ctx},
                 real={"ok": real.ok, "data": real.data, "ctx": real.ctx, "exc": real.exc_name})
        else:
            viol(f"result_{v}", f"run returned a different {v} than the documented semantics",
                 model={"data": m.data, "ctx": m.ctx, "leaves": m.leaves},
                 real={"data": real.data, "ctx": real.ctx, "leaves": real.leaves})
        return model
    m = candidates[[i for i, v in enumerate(verdicts) if v is None][0]]
    if m.ok:
        run.count("succeeding_runs")
        run.count("node_executions", len(m.nodes))
        return m
    # both fail: same node, right exception class, no later leaf
    run.count("failing_runs")
    run.count(f"failkind_{m.fail_kind}")
    if m.fail_kind == "construction":
        # every node is constructed before any node runs: the failing node is the first prefix that raises
        # the same exception class without any leaf having run
        idx = None
        for k in range(1, len(nodes) + 1):
            r = account.real_run(nodes[:k], data, ctx, scratch=scratch)
            if not r.ok and not r.leaves and r.exc_name == real.exc_name:
                idx = k - 1
                break
    else:
        idx = account.failing_index_by_prefix(nodes, data, ctx, scratch=scratch)
    run.count("prefix_replays")
    if idx != m.fail_index:
        viol("fail_index", f"run raised at node {idx} but the documented semantics fail at node {m.fail_index} ({m.fail_kind})",
             model={"fail_index": m.fail_index, "fail_kind": m.fail_kind}, real={"fail_index": idx, "exc": real.exc_name, "msg": str(real.exc)})
        return m
    exp_names = None
    if m.fail_kind in rm.EXPECTED_EXC:
        exp_names = rm.EXPECTED_EXC[m.fail_kind]
    elif m.fail_kind == "processor_error" and not m.incidental:
        exp_names = (m.fail_detail,)
    elif m.fail_kind == "construction":
        exp_names = {"unknown_param": ("InvalidNodeParameterError",), "probe_without_key": ("PipelineConfigurationError",),
                     "context_key_on_op": ("ValueError",), "unknown_processor": ("UnknownProcessorError", "LookupError")}[m.fail_detail]
    if exp_names and not any(n in real.exc_mro for n in exp_names):
        viol("exception_class", f"failure kind {m.fail_kind} must raise {exp_names}, run raised {real.exc_name}",
             real={"exc": real.exc_name, "msg": str(real.exc)})
    # no later node ran: the recorded leaf sequence must equal the reference's (which stops at the failing node)
    exp = [[c, None if d == "NoData" else d, k] for c, d, k in m.leaves]
    got = [[c, d, k] for c, d, k in real.leaves]
    if not account.close(exp, got):
        # leaf of the failing node itself may or may not have been recorded before it raised; allow exactly that
        if not (len(got) in (len(exp), len(exp) + 1) and account.close(exp[:len(got)], got[:len(exp)])) or len(got) > len(exp) + 1:
            viol("leaf_after_failure", "leaf calls recorded differ from the reference (a later node ran, or an earlier one did not)",
                 model={"leaves": m.leaves}, real={"leaves": real.leaves})
    if m.fail_kind == "construction" and real.leaves:
        viol("leaf_before_construction_failure", "a node ran although construction of the pipeline failed", real={"leaves": real.leaves})
    odd_arith = m.incidental and m.fail_kind == "processor_error" and m.nodes and any(
        isinstance(x, (list, dict, str, tuple)) for x in m.nodes[-1].params.values())
    if odd_arith:
        run.count("odd_value_arithmetic_not_compared")   # numpy scalars broadcast where plain Python raises earlier
    elif m.ctx is not None and m.fail_kind != "construction" and not account.close(m.ctx, real.ctx):
        # context at the moment of failure: keys written by earlier nodes must match
        viol("context_at_failure", "context after the failed run differs from the reference", model={"ctx": m.ctx}, real={"ctx": real.ctx})
    return m


