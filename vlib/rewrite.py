"""Cosmetic (meaning-preserving) rewriters of configuration YAML and single-point semantic mutation operators.

Part 1 (C04): every rewriter takes the configuration *document* (the Python value the base YAML text loads to) and
returns a ``Variant`` (label, YAML text, the document the text must load to).  ``self_check`` re-loads the text with
``yaml.safe_load`` and compares it *strictly* (bool/int/float/str are different types, mapping key order ignored) with
the expected document, so a rewriter that is not meaning-preserving (``1e0`` is a string in YAML 1.1) is rejected before
it is ever used as evidence.  Expression rewrites (operand permutation / re-association of + and *) are checked with an
own normal form (flatten chains, sort operands) and by evaluation on a few assignments.

Part 2 (C05): mutation operators over a node list; each yields ``Mutation`` objects (operator label, position, mutated
node list, pairs of node indices whose UUID-or-node-semantic-ID must differ).  Non-equivalence of mutated sweep
expressions is established by evaluating both on a few assignments.

No code is shared with semantiva.
"""
from __future__ import annotations

import ast
import copy
import json
import math
import re
from dataclasses import dataclass, field
from typing import Any, Callable, Iterator, Optional

import yaml

from . import refmodel as rm

EXTENSIONS = ["semantiva-examples", "vlib.components"]


# =========================================================================== strict comparison
def strict_eq(a: Any, b: Any) -> bool:
    """Equality that keeps bool / int / float / str / None apart and ignores mapping key order."""
    if isinstance(a, dict) or isinstance(b, dict):
        if not (isinstance(a, dict) and isinstance(b, dict)) or set(a) != set(b):
            return False
        if any(type(k) is not str for k in a) or any(type(k) is not str for k in b):
            return False
        return all(strict_eq(a[k], b[k]) for k in a)
    if isinstance(a, list) or isinstance(b, list):
        return isinstance(a, list) and isinstance(b, list) and len(a) == len(b) and all(strict_eq(x, y) for x, y in zip(a, b))
    if type(a) is not type(b):
        return False
    if isinstance(a, float):
        return a == b or (a != a and b != b)
    return a == b


def canon_json(obj: Any) -> str:
    return json.dumps(obj, sort_keys=True, separators=(",", ":"), default=repr)


# =========================================================================== YAML emission
class _NoAlias(yaml.SafeDumper):
    def ignore_aliases(self, data):
        return True


def dump_block(doc: Any) -> str:
    return yaml.dump(doc, Dumper=_NoAlias, sort_keys=False, default_flow_style=False)


def make_doc(nodes: list, run_space: Optional[dict] = None) -> dict:
    doc: dict = {"extensions": list(EXTENSIONS), "pipeline": {"nodes": copy.deepcopy(nodes)}}
    if run_space is not None:
        doc["run_space"] = copy.deepcopy(run_space)
    return doc


def iter_sweeps(doc: dict) -> Iterator[tuple]:
    for i, n in enumerate(doc.get("pipeline", {}).get("nodes", [])):
        d = n.get("derive") if isinstance(n, dict) else None
        if isinstance(d, dict) and isinstance(d.get("parameter_sweep"), dict):
            yield i, d["parameter_sweep"]


def fc_sequences(doc: dict) -> list:
    """Per sweep node: the from_context keys in declaration order of ``variables``."""
    out = []
    for _i, blk in iter_sweeps(doc):
        out.append([s["from_context"] for s in (blk.get("variables") or {}).values()
                    if isinstance(s, dict) and "from_context" in s])
    return out


@dataclass
class Variant:
    label: str
    text: str
    expected: Any                    # document the text must load to (modulo mapping key order)
    detail: dict = field(default_factory=dict)
    expr_pairs: list = field(default_factory=list)   # [(original expression, rewritten expression)]


def self_check(v: Variant, original: dict, base_text: Optional[str] = None) -> Optional[str]:
    """None if the variant is a sound cosmetic rewrite of ``original``; otherwise the reason it is rejected."""
    try:
        loaded = yaml.safe_load(v.text)
    except Exception as exc:
        return f"variant does not load: {type(exc).__name__}: {exc}"
    if not strict_eq(loaded, v.expected):
        return "variant loads to a different document than intended"
    if v.expr_pairs:
        for a, b in v.expr_pairs:
            why = expr_equiv_ac(a, b)
            if why:
                return f"expression rewrite not an operand permutation: {why}"
        back = copy.deepcopy(v.expected)
        fwd = {b: a for a, b in v.expr_pairs}
        for _i, blk in iter_sweeps(back):
            for p, e in list((blk.get("parameters") or {}).items()):
                if e in fwd:
                    blk["parameters"][p] = fwd[e]
        if not strict_eq(back, original):
            return "expression variant differs from the original outside the rewritten expressions"
    elif not strict_eq(v.expected, original):
        return "variant document differs from the original (modulo key order)"
    if fc_sequences(loaded) != fc_sequences(original) and not v.label.endswith("_from_context"):
        return "rewrite changed the declaration order of from_context variables without saying so"
    if base_text is not None and v.text == base_text:
        return "identical text"
    return None


# --------------------------------------------------------------------------- 1. mapping key order
def _shuffled(obj: Any, rng, path: tuple = ()) -> Any:
    if isinstance(obj, dict):
        items = list(obj.items())
        rng.shuffle(items)
        if len(path) >= 2 and path[-1] == "variables" and path[-2] == "parameter_sweep":
            # keep the relative order of from_context variables (that order has its own rewriter)
            is_fc = lambda kv: isinstance(kv[1], dict) and "from_context" in kv[1]  # noqa: E731
            orig_fc = [kv for kv in obj.items() if is_fc(kv)]
            it = iter(orig_fc)
            items = [next(it) if is_fc(kv) else kv for kv in items]
        return {k: _shuffled(v, rng, path + (k,)) for k, v in items}
    if isinstance(obj, list):
        return [_shuffled(x, rng, path + ("[]",)) for x in obj]
    return obj


def rw_key_order(doc: dict, rng) -> Optional[Variant]:
    new = _shuffled(doc, rng)
    return Variant("key_order_shuffled", dump_block(new), doc, {"order": _key_orders(new)})


def _key_orders(obj: Any, depth: int = 0) -> Any:
    if isinstance(obj, dict):
        return {"keys": list(obj), "sub": {k: _key_orders(v, depth + 1) for k, v in obj.items() if isinstance(v, (dict, list))}} if depth < 8 else "…"
    if isinstance(obj, list):
        return [_key_orders(x, depth + 1) for x in obj if isinstance(x, (dict, list))]
    return None


# --------------------------------------------------------------------------- 2. sweep ``variables`` order
def rw_variables_reordered(doc: dict, rng, want_fc: bool) -> Optional[Variant]:
    new = copy.deepcopy(doc)
    done = []
    for i, blk in iter_sweeps(new):
        vs = blk.get("variables")
        if not isinstance(vs, dict) or len(vs) < 2:
            continue
        items = list(vs.items())
        fc = lambda its: [s["from_context"] for _k, s in its if isinstance(s, dict) and "from_context" in s]  # noqa: E731
        for _try in range(30):
            perm = items[:]
            rng.shuffle(perm)
            if [k for k, _ in perm] == [k for k, _ in items]:
                continue
            if (fc(perm) != fc(items)) == want_fc:
                blk["variables"] = dict(perm)
                done.append({"node": i, "order": [k for k, _ in perm]})
                break
    if not done:
        return None
    label = "sweep_variables_reordered" + ("_from_context" if want_fc else "")
    return Variant(label, dump_block(new), doc, {"reordered": done})


# --------------------------------------------------------------------------- 3./4. layout
def rw_flow_style(doc: dict, rng) -> Optional[Variant]:
    return Variant("yaml_flow_style", yaml.dump(doc, Dumper=_NoAlias, sort_keys=False, default_flow_style=True, width=100), doc)


def rw_block_layout(doc: dict, rng) -> Optional[Variant]:
    body = yaml.dump(doc, Dumper=_NoAlias, sort_keys=False, default_flow_style=False, indent=rng.choice([3, 4, 6]),
                     width=rng.choice([24, 40, 200]), explicit_start=True)
    lines = []
    for ln in body.splitlines():
        lines.append(ln + ("   # c" if rng.random() < 0.15 and ln.rstrip().endswith(":") else ""))
        if rng.random() < 0.1:
            lines.append("")
    text = "# rewritten layout\n%YAML 1.1\n" + "\n".join(lines) + "\n...\n"
    return Variant("yaml_block_layout", text, doc)


def _quoting_dumper(style: str):
    class D(_NoAlias):
        pass

    def rep_str(dumper, value):
        return dumper.represent_scalar("tag:yaml.org,2002:str", value, style=style)

    D.add_representer(str, rep_str)
    return D


def rw_single_quoted(doc: dict, rng) -> Optional[Variant]:
    return Variant("yaml_single_quoted", yaml.dump(doc, Dumper=_quoting_dumper("'"), sort_keys=False, default_flow_style=False), doc)


def rw_double_quoted(doc: dict, rng) -> Optional[Variant]:
    flow = rng.random() < 0.3
    return Variant("yaml_double_quoted", yaml.dump(doc, Dumper=_quoting_dumper('"'), sort_keys=False, default_flow_style=flow), doc)


# --------------------------------------------------------------------------- 5. anchors + aliases
def share_repeats(doc: Any) -> tuple:
    """Replace strictly-equal repeated non-empty containers by one shared object -> (new doc, number of aliases)."""
    seen: dict = {}
    count = 0

    def rec(o):
        nonlocal count
        if isinstance(o, dict):
            new = {k: rec(v) for k, v in o.items()}
        elif isinstance(o, list):
            new = [rec(v) for v in o]
        else:
            return o
        if not new:
            return new
        key = ("D" if isinstance(new, dict) else "L") + canon_json(new)
        if key in seen:
            count += 1
            return seen[key]
        seen[key] = new
        return new

    out = rec(doc)
    return out, count


def rw_anchors(doc: dict, rng) -> Optional[Variant]:
    shared, n = share_repeats(copy.deepcopy(doc))
    if n == 0:
        return None
    text = yaml.dump(shared, Dumper=yaml.SafeDumper, sort_keys=False, default_flow_style=False)
    if "&id" not in text or "*id" not in text:
        return None
    return Variant("yaml_anchors_aliases", text, doc, {"aliases": n})


# --------------------------------------------------------------------------- 6. scalar spellings
_SIMPLE_FLOAT = re.compile(r"^-?\d+\.\d+$")
FLOAT_STYLES = ("trailing_zero", "plus_sign", "exponent", "leading_dot", "underscore", "exponent_nodot")
BOOL_STYLES = ("yes_no", "on_off", "capital", "upper")
INT_STYLES = ("plus_sign", "hex", "octal")


def spell_float(v: float, style: str) -> Optional[str]:
    r = repr(v)
    if not _SIMPLE_FLOAT.match(r):
        return None
    if style == "trailing_zero":
        return r + "00"
    if style == "plus_sign":
        return None if v < 0 or r.startswith("-") else "+" + r
    if style == "exponent":
        return r + "e+0"
    if style == "leading_dot":
        return r[1:] if r.startswith("0.") else ("-" + r[2:] if r.startswith("-0.") else None)
    if style == "underscore":
        ip, fp = r.split(".")
        return f"{ip}.{fp}_0"
    if style == "exponent_nodot":       # NOT a float in YAML 1.1 (PyYAML loads a string): the self-check must reject it
        return (r[:-2] + "e0") if r.endswith(".0") else None
    return None


def spell_bool(v: bool, style: str) -> str:
    return {"yes_no": ("yes", "no"), "on_off": ("on", "off"), "capital": ("True", "False"), "upper": ("TRUE", "FALSE")}[style][0 if v else 1]


def spell_int(v: int, style: str) -> Optional[str]:
    if style == "plus_sign":
        return None if v < 0 else f"+{v}"
    if style == "hex":
        return None if v < 0 else hex(v)
    if style == "octal":
        return None if v <= 0 else "0" + oct(v)[2:]
    return None


def rw_scalar_spelling(doc: dict, rng, style: str) -> Optional[Variant]:
    """style = 'float:<s>' | 'bool:<s>' | 'int:<s>' | 'mixed'."""
    tokens: dict = {}

    def pick(kind):
        if style == "mixed":
            return rng.choice({"float": FLOAT_STYLES[:5], "bool": BOOL_STYLES, "int": INT_STYLES}[kind])
        k, s = style.split(":")
        return s if k == kind else None

    class D(_NoAlias):
        pass

    def tok(dumper, text):
        t = f"__VTOK{len(tokens)}__"
        tokens[t] = text
        return dumper.represent_scalar("tag:yaml.org,2002:str", t)

    def rep_float(dumper, v):
        s = pick("float")
        text = spell_float(v, s) if s else None
        return tok(dumper, text) if text else yaml.SafeDumper.represent_float(dumper, v)

    def rep_bool(dumper, v):
        s = pick("bool")
        return tok(dumper, spell_bool(v, s)) if s else yaml.SafeDumper.represent_bool(dumper, v)

    def rep_int(dumper, v):
        s = pick("int")
        text = spell_int(v, s) if s else None
        return tok(dumper, text) if text else yaml.SafeDumper.represent_int(dumper, v)

    D.add_representer(float, rep_float)
    D.add_representer(bool, rep_bool)
    D.add_representer(int, rep_int)
    text = yaml.dump(doc, Dumper=D, sort_keys=False, default_flow_style=False)
    if not tokens:
        return None
    for t, s in tokens.items():
        text = text.replace(t, s)
    return Variant("scalar_spelling_" + style.replace(":", "_"), text, doc, {"respelled": len(tokens)})


# --------------------------------------------------------------------------- 7. + / * operand order and association
_AC = (ast.Add, ast.Mult)


def _flatten(n: ast.AST, op_type) -> list:
    if isinstance(n, ast.BinOp) and isinstance(n.op, op_type):
        return _flatten(n.left, op_type) + _flatten(n.right, op_type)
    return [n]


def _assoc(terms: list, op_type, rng) -> ast.AST:
    if len(terms) == 1:
        return terms[0]
    k = rng.randint(1, len(terms) - 1)
    return ast.BinOp(left=_assoc(terms[:k], op_type, rng), op=op_type(), right=_assoc(terms[k:], op_type, rng))


def permute_expr(src: str, rng) -> Optional[str]:
    """A random operand permutation + re-association of every maximal + chain and * chain; None if there is none."""
    tree = ast.parse(src, mode="eval")
    chains = 0

    def rec(n: ast.AST) -> ast.AST:
        nonlocal chains
        if isinstance(n, ast.BinOp) and isinstance(n.op, _AC):
            op_type = type(n.op)
            terms = [rec(t) for t in _flatten(n, op_type)]
            chains += 1
            rng.shuffle(terms)
            return _assoc(terms, op_type, rng)
        for f, v in ast.iter_fields(n):
            if isinstance(v, ast.AST):
                setattr(n, f, rec(v))
            elif isinstance(v, list):
                setattr(n, f, [rec(x) if isinstance(x, ast.AST) else x for x in v])
        return n

    new = rec(tree.body)
    if not chains:
        return None
    out = ast.unparse(ast.fix_missing_locations(ast.Expression(body=new)))
    return out


def _nf(n: ast.AST):
    """Own normal form: maximal + / * chains become sorted operand multisets."""
    if isinstance(n, ast.BinOp) and isinstance(n.op, _AC):
        terms = sorted((_nf(t) for t in _flatten(n, type(n.op))), key=repr)
        return ("AC", type(n.op).__name__, tuple(terms))
    if isinstance(n, ast.Constant):
        return ("K", type(n.value).__name__, repr(n.value))
    if isinstance(n, ast.Name):
        return ("N", n.id)
    parts = []
    for f, v in ast.iter_fields(n):
        if f == "ctx":
            continue
        if isinstance(v, ast.AST):
            parts.append((f, _nf(v)))
        elif isinstance(v, list):
            parts.append((f, tuple(_nf(x) if isinstance(x, ast.AST) else repr(x) for x in v)))
        else:
            parts.append((f, repr(v)))
    return (type(n).__name__, tuple(parts))


_SAFE_FUNCS = {"abs": abs, "min": min, "max": max, "float": float, "int": int, "round": round, "bool": bool, "str": str}
_ASSIGN_VALUES = [(2.0, 3.0, 5.0, 0.5), (0.75, -1.5, 4.0, 7.0), (3.25, 1.125, -2.0, 0.25), (1.0, 2.0, 3.0, 4.0)]


def expr_names(src: str) -> list:
    out = []
    for n in ast.walk(ast.parse(src, mode="eval")):
        if isinstance(n, ast.Name) and n.id not in _SAFE_FUNCS and n.id not in out:
            out.append(n.id)
    return out


def expr_values(src: str, names: list) -> list:
    code = compile(ast.parse(src, mode="eval"), "<expr>", "eval")
    vals = []
    for row in _ASSIGN_VALUES:
        env = {n: row[i % len(row)] + 0.125 * (i // len(row)) for i, n in enumerate(sorted(names))}
        try:
            vals.append(eval(code, {"__builtins__": {}}, dict(_SAFE_FUNCS, **env)))  # noqa: S307 - own generated expressions only
        except Exception as exc:
            vals.append(f"raises {type(exc).__name__}")
    return vals


def _same_value(x, y) -> bool:
    if isinstance(x, (int, float)) and isinstance(y, (int, float)) and not isinstance(x, bool) and not isinstance(y, bool):
        if x != x and y != y:
            return True
        return math.isclose(x, y, rel_tol=1e-9, abs_tol=1e-12)
    return type(x) is type(y) and x == y


def exprs_differ(a: str, b: str, names: list) -> bool:
    """True when the two expressions give a different value on at least one of the fixed assignments."""
    names = sorted(set(names) | set(expr_names(a)) | set(expr_names(b)))
    return any(not _same_value(x, y) for x, y in zip(expr_values(a, names), expr_values(b, names)))


def expr_equiv_ac(a: str, b: str) -> Optional[str]:
    """None when ``b`` is ``a`` up to operand order / association of + and * (own normal form + evaluation)."""
    try:
        na, nb = _nf(ast.parse(a, mode="eval").body), _nf(ast.parse(b, mode="eval").body)
    except SyntaxError as exc:
        return f"syntax error {exc}"
    if na != nb:
        return f"normal forms differ: {a!r} vs {b!r}"
    if exprs_differ(a, b, []):
        return f"values differ: {a!r} vs {b!r}"
    return None


def rw_expr_operands(doc: dict, rng) -> Optional[Variant]:
    new = copy.deepcopy(doc)
    pairs = []
    for _i, blk in iter_sweeps(new):
        for p, e in list((blk.get("parameters") or {}).items()):
            if not isinstance(e, str):
                continue
            base = ast.unparse(ast.parse(e, mode="eval"))
            out = None
            for _try in range(6):
                cand = permute_expr(e, rng)
                if cand is None:
                    break
                out = cand
                if cand != base:
                    break
            if out is not None and out != e:
                blk["parameters"][p] = out
                pairs.append((e, out))
    if not pairs:
        return None
    return Variant("sweep_expression_operands_permuted", dump_block(new), new, {"expressions": pairs}, expr_pairs=pairs)


# --------------------------------------------------------------------------- registry of rewriters
def all_rewriters() -> list:
    """[(name, fn(doc, rng) -> Variant|None)] — one cosmetic aspect each."""
    out: list = [
        ("key_order_shuffled", rw_key_order),
        ("sweep_variables_reordered", lambda d, r: rw_variables_reordered(d, r, False)),
        ("sweep_variables_reordered_from_context", lambda d, r: rw_variables_reordered(d, r, True)),
        ("yaml_flow_style", rw_flow_style),
        ("yaml_block_layout", rw_block_layout),
        ("yaml_single_quoted", rw_single_quoted),
        ("yaml_double_quoted", rw_double_quoted),
        ("yaml_anchors_aliases", rw_anchors),
        ("sweep_expression_operands_permuted", rw_expr_operands),
    ]
    for s in FLOAT_STYLES:
        out.append((f"scalar_spelling_float_{s}", (lambda st: lambda d, r: rw_scalar_spelling(d, r, "float:" + st))(s)))
    for s in BOOL_STYLES:
        out.append((f"scalar_spelling_bool_{s}", (lambda st: lambda d, r: rw_scalar_spelling(d, r, "bool:" + st))(s)))
    for s in INT_STYLES:
        out.append((f"scalar_spelling_int_{s}", (lambda st: lambda d, r: rw_scalar_spelling(d, r, "int:" + st))(s)))
    out.append(("scalar_spelling_mixed", lambda d, r: rw_scalar_spelling(d, r, "mixed")))
    out.append(("composite_cosmetic", rw_composite))
    return out


def rw_composite(doc: dict, rng) -> Optional[Variant]:
    """Key order at every depth + variables order (from_context order kept) + expression operands + spellings + flow/quotes."""
    cur = _shuffled(doc, rng)
    v = rw_variables_reordered(cur, rng, False)
    if v is not None:
        cur = yaml.safe_load(v.text)
    e = rw_expr_operands(cur, rng)
    pairs = []
    if e is not None:
        cur, pairs = e.expected, e.expr_pairs
    s = rw_scalar_spelling(cur, rng, "mixed")
    text = s.text if s is not None else dump_block(cur)
    return Variant("composite_cosmetic", text, cur, {"parts": ["key_order", "variables_order", "expr_operands", "spellings"]}, expr_pairs=pairs)


# =========================================================================== Part 2: semantic mutation operators
@dataclass
class Mutation:
    op: str
    pos: int
    nodes: list
    affected: list            # [(index in original, index in mutated)]: uuid or node semantic id must differ
    detail: dict = field(default_factory=dict)
    sweep_only: bool = False


_SHORT = (rm._RE_RENAME, rm._RE_DELETE, rm._RE_TEMPLATE)


def _comp_of(proc: str):
    m = rm._RE_SLICE.match(proc)
    name = m.group(1) if m else proc
    return rm.COMPONENTS.get(name), bool(m), name


def _alternatives(name: str, needed: set) -> list:
    """Library components of the same kind / data types that accept every parameter name in ``needed``."""
    c = rm.COMPONENTS.get(name)
    if c is None or c.fault:
        return []
    out = []
    for o in rm.COMPONENTS.values():
        if o.name == name or o.fault or o.kind != c.kind or o.in_type != c.in_type or o.out_type != c.out_type:
            continue
        if needed <= {n for n, _ in o.params}:
            out.append(o.name)
    return sorted(out)


def _bump(v: Any) -> Any:
    if isinstance(v, bool):
        return None
    if isinstance(v, float) and v in (float("inf"), float("-inf")):
        return -v                      # inf + 1.25 is inf: the other infinity is the neighbouring value
    if isinstance(v, int):
        return v + 1
    if isinstance(v, float):
        return v + 1.25
    if isinstance(v, str):
        return v + "_m"
    return None


def _nudges(v: Any) -> list:
    """The smallest changes of a float that are still another number: the next representable value, and a relative
    step of a few 1e-14 (an identity built on rounded / ``%g``-formatted / tolerance-compared numbers merges them)."""
    if isinstance(v, bool) or not isinstance(v, float) or v != v or v in (float("inf"), float("-inf")):
        return []
    out = [math.nextafter(v, math.inf)]
    rel = v * (1.0 + 3e-14) if v != 0.0 else 3e-14
    if rel not in out and rel != v:
        out.append(rel)
    return out


def _seq_indices(n: int):
    """Positions of a sequence that get an element mutation: all of a short one; of a long one the edges, the middle and
    a few positions deep inside (a digest over a prefix or over head/tail samples misses exactly those)."""
    if n <= 12:
        return range(n)
    picks = {0, 1, 2, n // 3, n // 2, (2 * n) // 3, (5 * n) // 6, n - 5, n - 4, n - 3, n - 1}
    return sorted(k for k in picks if 0 <= k < n)


def _retype(v: Any) -> Any:
    """A value that compares (and hashes) EQUAL to ``v`` in Python but is a different YAML/JSON scalar: 2.0 -> 2, 2 -> 2.0,
    1 -> True, 0.0 -> -0.0 ...  None when there is none.  A type-sensitive expression (``str(n)``) or processor tells
    them apart, so it is a change of the value; caches keyed on hash-equality cannot."""
    if isinstance(v, bool):
        return int(v)
    if isinstance(v, int):
        return float(v)
    if isinstance(v, float):
        if v == 0.0:
            return -0.0 if str(v) == "0.0" else 0.0
        if v.is_integer() and abs(v) < 2 ** 53:
            return int(v)
    return None


def _leaf_paths(value: Any, path: tuple = ()) -> Iterator[tuple]:
    if isinstance(value, dict):
        for k, v in value.items():
            yield from _leaf_paths(v, path + (k,))
    elif isinstance(value, list):
        for i, v in enumerate(value):
            yield from _leaf_paths(v, path + (i,))
    else:
        yield path, value


def _set_path(root: Any, path: tuple, new: Any) -> None:
    for p in path[:-1]:
        root = root[p]
    root[path[-1]] = new


def _var_len(spec: Any) -> Optional[int]:
    if isinstance(spec, list):
        return 10 if (len(spec) == 2 and all(isinstance(x, (int, float)) for x in spec)) else len(spec)
    if isinstance(spec, dict):
        if "from_context" in spec:
            return None
        if {"lo", "hi", "steps"} <= set(spec):
            return int(spec["steps"])
        if "values" in spec:
            return len(spec["values"])
    return None


def _by_position_ok(variables: dict, broadcast: bool) -> bool:
    if broadcast:
        return True
    lens = {_var_len(s) for s in variables.values()}
    return len(lens) == 1 and None not in lens


def _expr_mutants(src: str, var_names: list) -> Iterator[tuple]:
    """(operator label, new source) single-point changes of one expression; equivalence is filtered by the caller."""
    tree = ast.parse(src, mode="eval")
    binops = [n for n in ast.walk(tree) if isinstance(n, ast.BinOp)]
    swap = {ast.Add: ast.Sub, ast.Sub: ast.Add, ast.Mult: ast.Div, ast.Div: ast.Mult, ast.Pow: ast.Mult,
            ast.FloorDiv: ast.Mult, ast.Mod: ast.Add}
    for k in range(len(binops)):
        t = ast.parse(src, mode="eval")
        b = [n for n in ast.walk(t) if isinstance(n, ast.BinOp)][k]
        if type(b.op) in swap:
            b.op = swap[type(b.op)]()
            yield "sweep_expression_operator_swapped", ast.unparse(t)
    consts = [n for n in ast.walk(tree) if isinstance(n, ast.Constant) and isinstance(n.value, (int, float)) and not isinstance(n.value, bool)]
    for k in range(len(consts)):
        t = ast.parse(src, mode="eval")
        c = [n for n in ast.walk(t) if isinstance(n, ast.Constant) and isinstance(n.value, (int, float)) and not isinstance(n.value, bool)][k]
        c.value = c.value + 1
        yield "sweep_expression_constant_changed", ast.unparse(t)
    used = [n for n in expr_names(src) if n in var_names]
    if len(used) >= 2:
        a, b = used[0], used[1]
        t = ast.parse(src, mode="eval")
        for n in ast.walk(t):
            if isinstance(n, ast.Name) and n.id in (a, b):
                n.id = b if n.id == a else a
        yield "sweep_expression_variables_swapped", ast.unparse(t)
    others = [v for v in var_names if v not in used]
    if used and others:
        t = ast.parse(src, mode="eval")
        for n in ast.walk(t):
            if isinstance(n, ast.Name) and n.id == used[0]:
                n.id = others[0]
        yield "sweep_expression_variable_replaced", ast.unparse(t)


def _identity_part(node: dict) -> dict:
    """The respects the property lists as identity-bearing: processor, parameters, sweep definition (not context_key)."""
    part = {k: copy.deepcopy(node.get(k)) for k in ("processor", "parameters", "derive") if node.get(k) not in (None, {})}
    # sweep expressions count up to operand order / association of + and * (documented as identity-preserving, C04):
    # two nodes whose expressions are commuted forms of each other are the SAME node as far as identity goes
    sweep = (part.get("derive") or {}).get("parameter_sweep") if isinstance(part.get("derive"), dict) else None
    if isinstance(sweep, dict) and isinstance(sweep.get("parameters"), dict):
        for k, src in list(sweep["parameters"].items()):
            if isinstance(src, str):
                try:
                    sweep["parameters"][k] = repr(_nf(ast.parse(src, mode="eval").body))
                except SyntaxError:
                    pass
        if isinstance(sweep.get("variables"), dict):
            sweep["variables"] = dict(sorted(sweep["variables"].items()))   # order of the variables mapping carries no meaning
    return part


def mutations(nodes: list, counters: Optional[Callable] = None) -> Iterator[Mutation]:
    """Every applicable operator at every applicable position (deterministic order)."""
    note = counters or (lambda name: None)
    n = len(nodes)

    def clone():
        return copy.deepcopy(nodes)

    for i, node in enumerate(nodes):
        proc = node.get("processor")
        if not isinstance(proc, str):
            continue
        sweep = (node.get("derive") or {}).get("parameter_sweep") if isinstance(node.get("derive"), dict) else None
        params = node.get("parameters") or {}
        # ---------------------------------------------------------------- processor of the node
        if any(r.match(proc) for r in _SHORT):
            m = rm._RE_RENAME.match(proc)
            if m:
                new = f"rename:{m.group(1)}:{m.group(2)}_m"
            else:
                m = rm._RE_DELETE.match(proc)
                if m:
                    new = f"delete:{m.group(1)}_m"
                else:
                    m = rm._RE_TEMPLATE.match(proc)
                    new = f"template:{m.group(1)}{m.group(2)}{m.group(1)}:{m.group(3)}_m"
            mu = clone()
            mu[i]["processor"] = new
            yield Mutation("processor_changed_shorthand", i, mu, [(i, i)], {"before": proc, "after": new})
        else:
            comp, slicer, name = _comp_of(proc)
            if comp is not None:
                needed = set(params) | (set((sweep or {}).get("parameters") or {}))
                alts = _alternatives(name, needed)
                if sweep is not None:
                    alts = [a for a in alts if rm.COMPONENTS[a].kind in ("source", "op", "probe") and not rm.COMPONENTS[a].in_type == "Coll"]
                for alt in alts[:2]:
                    mu = clone()
                    mu[i]["processor"] = f"slice:{alt}:FloatDataCollection" if slicer else alt
                    op = "sweep_wrapped_processor_changed" if sweep is not None else ("processor_changed_slicer" if slicer else "processor_changed")
                    yield Mutation(op, i, mu, [(i, i)], {"before": proc, "after": mu[i]["processor"]}, sweep_only=sweep is not None)
                if not alts:
                    note("no_alternative_processor")
        # ---------------------------------------------------------------- parameter values at depth 0 / 1 / 2+
        for pname, pval in params.items():
            for path, leaf in _leaf_paths(pval):
                if path and path[-1] == "class":
                    continue
                new = _bump(leaf)
                if new is None:
                    continue
                mu = clone()
                if path:
                    _set_path(mu[i]["parameters"][pname], path, new)
                else:
                    mu[i]["parameters"][pname] = new
                depth = min(len(path), 2)
                yield Mutation(f"param_value_depth{depth}", i, mu, [(i, i)],
                               {"parameter": pname, "path": list(path), "before": leaf, "after": new})
                for nd in _nudges(leaf)[: 2 if not path else 1]:
                    mu = clone()
                    if path:
                        _set_path(mu[i]["parameters"][pname], path, nd)
                    else:
                        mu[i]["parameters"][pname] = nd
                    yield Mutation("param_value_nudged", i, mu, [(i, i)],
                                   {"parameter": pname, "path": list(path), "before": repr(leaf), "after": repr(nd)})
                # the smallest possible changes of a value: another scalar type that compares equal (2.0 -> 2), and for
                # strings an edge blank / another line ending ('out.txt' -> 'out.txt ' names another file)
                variants = []
                if _retype(leaf) is not None:
                    variants.append(("param_value_retyped", _retype(leaf)))
                if isinstance(leaf, str) and not (isinstance(pval, str) and pval.startswith("model:")):
                    variants.append(("param_string_edge_whitespace", leaf + " "))
                    variants.append(("param_string_edge_whitespace", " " + leaf))
                    variants.append(("param_string_line_ending", leaf + "\n" if "\n" not in leaf else leaf.replace("\n", "\r\n")))
                for op2, nv in variants:
                    mu = clone()
                    if path:
                        _set_path(mu[i]["parameters"][pname], path, nv)
                    else:
                        mu[i]["parameters"][pname] = nv
                    yield Mutation(op2, i, mu, [(i, i)], {"parameter": pname, "path": list(path), "before": leaf, "after": nv})
        # ---------------------------------------------------------------- inside the sweep definition
        if sweep is not None:
            variables = sweep.get("variables") or {}
            vnames = list(variables)
            for pname, src in (sweep.get("parameters") or {}).items():
                if not isinstance(src, str):
                    continue
                for op, new_src in _expr_mutants(src, vnames):
                    if not exprs_differ(src, new_src, vnames):
                        note("equivalent_expression_mutant_skipped")
                        continue
                    mu = clone()
                    mu[i]["derive"]["parameter_sweep"]["parameters"][pname] = new_src
                    yield Mutation(op, i, mu, [(i, i)], {"parameter": pname, "before": src, "after": new_src}, sweep_only=True)
            used_keys = {s["from_context"] for s in variables.values() if isinstance(s, dict) and "from_context" in s}
            fcv = sorted(v for v, s_ in variables.items() if isinstance(s_, dict) and "from_context" in s_)
            for a_i in range(len(fcv)):
                for b_i in range(a_i + 1, len(fcv)):
                    va, vb = fcv[a_i], fcv[b_i]
                    if variables[va]["from_context"] != variables[vb]["from_context"]:
                        # which variable reads which key is part of the sweep definition even when the SET of keys stays
                        mu = clone()
                        mv = mu[i]["derive"]["parameter_sweep"]["variables"]
                        mv[va], mv[vb] = dict(mv[va], from_context=variables[vb]["from_context"]), dict(mv[vb], from_context=variables[va]["from_context"])
                        yield Mutation("sweep_from_context_keys_exchanged", i, mu, [(i, i)], {"variables": [va, vb]}, sweep_only=True)
            for v, spec in variables.items():
                def put(new_spec, op, **d):
                    mu = clone()
                    mu[i]["derive"]["parameter_sweep"]["variables"][v] = new_spec
                    return Mutation(op, i, mu, [(i, i)], dict(d, variable=v, before=spec, after=new_spec), sweep_only=True)

                if isinstance(spec, list):
                    for k in _seq_indices(len(spec)):
                        nv = _bump(spec[k])
                        if nv is not None:
                            yield put(spec[:k] + [nv] + spec[k + 1:], "sweep_var_sequence_element", index=k)
                        for nd in _nudges(spec[k])[:1]:
                            if len(spec) != 2 or (k == 0 and nd < spec[1]) or (k == 1 and nd > spec[0]):
                                yield put(spec[:k] + [nd] + spec[k + 1:], "sweep_var_sequence_element_nudged", index=k, after_repr=repr(nd))
                        nv = _retype(spec[k])
                        if nv is not None and len(spec) != 2:
                            yield put(spec[:k] + [nv] + spec[k + 1:], "sweep_var_sequence_element_retyped", index=k)
                elif isinstance(spec, dict) and "from_context" in spec:
                    nk = spec["from_context"] + "_m"
                    if nk not in used_keys:
                        yield put({"from_context": nk}, "sweep_var_from_context_key")
                elif isinstance(spec, dict) and {"lo", "hi", "steps"} <= set(spec):
                    yield put(dict(spec, lo=spec["lo"] + 0.25), "sweep_var_bound", bound="lo")
                    yield put(dict(spec, hi=spec["hi"] + 0.25), "sweep_var_bound", bound="hi")
                    for b in ("lo", "hi"):
                        for nd in _nudges(float(spec[b])):
                            if (b == "lo" and nd < spec["hi"]) or (b == "hi" and nd > spec["lo"]):
                                yield put(dict(spec, **{b: nd}), "sweep_var_bound_nudged", bound=b, after_repr=repr(nd))
                    yield put(dict(spec, steps=spec["steps"] + 1), "sweep_var_steps")
                    if spec["steps"] > 1:   # with one step endpoint on/off is the same one-element domain
                        yield put(dict(spec, endpoint=not spec.get("endpoint", True)), "sweep_var_endpoint")
                    else:
                        note("equivalent_endpoint_mutant_skipped")
                    if spec.get("scale", "linear") == "log":
                        yield put(dict(spec, scale="linear"), "sweep_var_scale")
                    elif spec["lo"] > 0 and spec["hi"] > 0:
                        yield put(dict(spec, scale="log"), "sweep_var_scale")
                elif isinstance(spec, dict) and "values" in spec:
                    vals = spec["values"]
                    for k in _seq_indices(len(vals)):
                        nv = _bump(vals[k])
                        if nv is not None:
                            yield put(dict(spec, values=vals[:k] + [nv] + vals[k + 1:]), "sweep_var_sequence_element", index=k)
                        nv = _retype(vals[k])
                        if nv is not None:
                            yield put(dict(spec, values=vals[:k] + [nv] + vals[k + 1:]), "sweep_var_sequence_element_retyped", index=k)
            mode = sweep.get("mode", "combinatorial")
            broadcast = bool(sweep.get("broadcast", False))
            new_mode = "by_position" if mode == "combinatorial" else "combinatorial"
            if new_mode == "combinatorial" or _by_position_ok(variables, broadcast):
                mu = clone()
                mu[i]["derive"]["parameter_sweep"]["mode"] = new_mode
                yield Mutation("sweep_mode", i, mu, [(i, i)], {"before": mode, "after": new_mode}, sweep_only=True)
            else:
                note("mode_mutant_would_be_invalid_skipped")
            if broadcast is False or mode == "combinatorial" or _by_position_ok(variables, False):
                mu = clone()
                mu[i]["derive"]["parameter_sweep"]["broadcast"] = not broadcast
                yield Mutation("sweep_broadcast", i, mu, [(i, i)], {"before": broadcast, "after": not broadcast}, sweep_only=True)
            else:
                note("broadcast_mutant_would_be_invalid_skipped")
        # ---------------------------------------------------------------- structure
        if n >= 2:
            yield Mutation("node_deleted", i, [copy.deepcopy(x) for k, x in enumerate(nodes) if k != i], [], {"deleted": i})
        mu = clone()
        mu.insert(i + 1, copy.deepcopy(nodes[i]))
        yield Mutation("node_duplicated", i, mu, [(i, i + 1)], {"duplicated": i})
        if i + 1 < n and not strict_eq(_identity_part(nodes[i]), _identity_part(nodes[i + 1])):
            mu = clone()
            mu[i], mu[i + 1] = mu[i + 1], mu[i]
            both_sweeps = all(isinstance((x.get("derive") or {}).get("parameter_sweep"), dict) if isinstance(x.get("derive"), dict) else False
                              for x in (nodes[i], nodes[i + 1]))
            yield Mutation("sweep_nodes_swapped" if both_sweeps else "nodes_swapped", i, mu, [(i, i + 1), (i + 1, i)],
                           {"swapped": [i, i + 1]}, sweep_only=both_sweeps)


# =========================================================================== Part 3: configurations for C04 / C05
FITTING_NODE = {"processor": "ModelFittingContextProcessor",
                "parameters": {"x_values": [0.0, 1.0, 2.0, 3.0], "y_values": [1.0, 3.0, 5.0, 7.5],
                               "fitting_model": {"class": "semantiva.workflows.fitting_model.PolynomialFittingModel",
                                                 "kwargs": {"degree": 1}}}}


def fitting_node(g) -> dict:
    """A library processor with nested parameters (lists at depth 1, a class descriptor mapping with kwargs at depth 2)."""
    n = copy.deepcopy(FITTING_NODE)
    k = g.rng.randint(3, 5)
    n["parameters"]["x_values"] = [float(i) for i in range(k)]
    n["parameters"]["y_values"] = [g.val() for _ in range(k)]
    n["parameters"]["fitting_model"]["kwargs"]["degree"] = g.rng.choice([1, 2])
    if g.chance(0.3):
        n["parameters"]["fitting_model"] = f"model:PolynomialFittingModel:degree={g.rng.choice([1, 2])}"
    r = g.rng.random()
    if r < 0.25:
        # the routing form: where the independent / dependent samples are read from and where the fit is stored
        n["parameters"].pop("x_values"), n["parameters"].pop("y_values")
        n["parameters"].update(independent_var_key=g.rng.choice(["t_values", "grid", "x"]),
                               dependent_var_key=g.rng.choice(["res", "info.value", "y"]))
        if g.chance(0.5):
            n["parameters"]["context_key"] = g.rng.choice(["fit.coeffs", "k", "fit_out"])
    elif r < 0.4:
        n["parameters"]["context_key"] = g.rng.choice(["fit.coeffs", "k", "fit_out"])
    elif r < 0.5:
        n["parameters"]["y_values"] = list(n["parameters"]["x_values"])      # the same list twice (anchor / alias material)
    return n


_STRUCT_KEYS = ["gain", "offset", "b", "a", "z10", "z9", "Key", "key", "n"]


def struct_value(rng, depth: int = 0):
    """Arbitrarily nested parameter value: mappings inside lists inside mappings ..., keys whose insertion order differs
    from their sorted order, scalars of every JSON type."""
    r = rng.random()
    if depth >= 3 or r < 0.25:
        # strings beyond ASCII, and with surrogate code points (what a JSON-emitted "\\uD83D\\uDE00" or os.fsdecode of an
        # undecodable file name yields): not UTF-8 encodable, so a canonical form must not depend on encoding them
        return rng.choice([1.0, 2.5, -1.5, 0.0, 3, 0, True, False, None, "x", "out.txt", "", "a b",
                           "caf\udce9.dat", "\ud83d\ude00", "\u03c0 caf\u00e9"])
    if r < 0.65:
        keys = rng.sample(_STRUCT_KEYS, rng.randint(2, 4))
        return {k: struct_value(rng, depth + 1) for k in keys}
    return [struct_value(rng, depth + 1) for _ in range(rng.randint(1, 3))]


def struct_node(g) -> dict:
    """A no-op node holding a structured parameter with at least one mapping inside a list."""
    rng = g.rng
    shape = rng.randrange(4)
    inner = {k: rng.choice([1.0, 2.0, 0.5, "s", True]) for k in rng.sample(_STRUCT_KEYS, rng.randint(2, 3))}
    if shape == 3:
        # the SAME list / mapping value spelled twice inside one node's parameters (what a YAML anchor + alias shares)
        ramp = [rng.choice([0.0, 0.5, 1.0, 2.0]) + k for k in range(rng.randint(2, 4))]
        v = {"x_values": list(ramp), "y_values": list(ramp), "a": dict(inner), "b": [dict(inner), struct_value(rng, 2)]}
    elif shape == 0:
        v = [inner, struct_value(rng, 1)]
    elif shape == 1:
        v = {"stages": [[inner], struct_value(rng, 2)], "opt": struct_value(rng, 1)}
    else:
        v = struct_value(rng, 0)
    return {"processor": "VCtxMeta", "parameters": {"vmeta": v}}


def multi_external_sweep_case(g) -> dict:
    """A sweep over an element with several required call parameters that no expression binds (they come from the node
    configuration / the context): their names enter the sweep metadata as a *list* whose order must not depend on anything
    but the configuration."""
    rng = g.rng
    bound = rng.choice(["r", "s", "q"])
    params = {k: g.val() for k in ("p", "q", "r") if k != bound}
    ctx = {}
    for k in list(params):
        if rng.random() < 0.3:
            ctx[k] = params.pop(k)
    sweep = {"processor": "VPoly", "parameters": params,
             "derive": {"parameter_sweep": {"parameters": {bound: rng.choice(["t", "t * 2.0", "t + 1.0"])},
                                            "variables": {"t": [g.val() for _ in range(rng.randint(2, 3))]},
                                            "collection": "FloatDataCollection"}}}
    if not params:
        sweep.pop("parameters")
    nodes = [{"processor": "VSrc", "parameters": {"value": g.val()}}, sweep]
    if rng.random() < 0.5:
        nodes.append({"processor": "VCollSum"})
    return {"nodes": nodes, "ctx": ctx, "data": "NoData"}


def fc_case(g) -> dict:
    """A pipeline around one sweep with 2..3 from_context variables reading different keys (plus optional others)."""
    rng = g.rng
    kind = rng.choice(["op", "op", "probe", "source"])
    nfc = rng.choice([2, 2, 3])
    keys = rng.sample(["seq", "seq2", "t_list", "a_list"], nfc)
    n = rng.randint(1, 3)
    ctx = {k: [g.val() for _ in range(n)] for k in keys}
    names = rng.sample(["p", "q", "r", "s"], nfc)
    variables: dict = {v: {"from_context": k} for v, k in zip(names, keys)}
    if g.chance(0.5):
        variables[rng.choice(["m", "z"])] = g.var_spec(None)
    items = list(variables.items())
    rng.shuffle(items)
    variables = dict(items)
    vs = list(variables)
    x, y = rng.sample(vs, 2)
    exprs2 = ["{x} + {y}", "{x} * {y} + 1.0", "{x} - {y}", "({x} + {y}) * 2.0", "{x} * 2.0 + {y} * 3.0 + 1.0"]
    blk: dict = {"variables": variables}
    nodes: list = []
    if kind == "source":
        blk["parameters"] = {"value": rng.choice(exprs2).format(x=x, y=y)}
        blk["collection"] = "FloatDataCollection"
        node = {"processor": rng.choice(["VSrc", "VSrcDefault"]), "derive": {"parameter_sweep": blk}}
    else:
        nodes.append({"processor": "VSrc", "parameters": {"value": g.val()}})
        if g.chance(0.3):
            nodes.append({"processor": "VAddDefault"})
        if kind == "op":
            blk["parameters"] = {"a": rng.choice(exprs2).format(x=x, y=y)}
            if g.chance(0.6):
                blk["parameters"]["b"] = rng.choice(["{x}", "{x} * {x} + {y}", "2.0 * {x}"]).format(x=rng.choice(vs), y=rng.choice(vs))
            blk["collection"] = "FloatDataCollection"
            node = {"processor": "VAffine", "derive": {"parameter_sweep": blk}}
        else:
            blk["parameters"] = {"scale": rng.choice(exprs2).format(x=x, y=y)}
            node = {"processor": "VScaledProbe", "context_key": "plist", "derive": {"parameter_sweep": blk}}
    mode = rng.choice(["by_position", "combinatorial", None])
    if mode:
        blk["mode"] = mode
    if mode == "by_position":
        blk["broadcast"] = True
    nodes.append(node)
    if kind != "probe" and g.chance(0.6):
        nodes.append({"processor": rng.choice(["VCollSum", "slice:VAddDefault:FloatDataCollection"])})
    return {"nodes": nodes, "ctx": ctx, "data": rm.NODATA}


def _dup_safe(node: dict) -> bool:
    proc = node.get("processor")
    if not isinstance(proc, str) or any(r.match(proc) for r in _SHORT):
        return False
    comp, slicer, _ = _comp_of(proc)
    if comp is None or comp.fault:
        return False
    if comp.kind in ("probe", "sink", "ctx"):
        return True
    return comp.kind == "op" and (slicer or comp.in_type == comp.out_type) and "derive" not in node


def run_space_for(g, ctx: dict) -> dict:
    rng = g.rng
    keys = list(ctx) or ["rs_dummy"]
    vals = {k: ctx.get(k, 1.0) for k in keys}
    rng.shuffle(keys)
    nblocks = 2 if len(keys) >= 2 and g.chance(0.4) else 1
    cut = rng.randint(1, len(keys) - 1) if nblocks == 2 else len(keys)
    blocks = []
    for part in (keys[:cut], keys[cut:]):
        if not part:
            continue
        mode = rng.choice(["by_position", "combinatorial"])
        reps = 2 if mode == "by_position" else 1
        blocks.append({"mode": mode, "context": {k: [copy.deepcopy(vals[k]) for _ in range(reps)] for k in part}})
    rs: dict = {"blocks": blocks}
    if g.chance(0.3):
        # a block fed from a file named by a path relative to the configuration file (checks/c04 writes rs_src_<n>.csv)
        blocks.append({"mode": "by_position", "source": {"format": "csv", "path": f"rs_src_{rng.choice([1, 2])}.csv"}})
        rs["combine"] = "combinatorial"
        if g.chance(0.6):
            rs["max_runs"] = rng.choice([8, 20, 100])
        return rs
    if g.chance(0.7):
        rs["combine"] = rng.choice(["combinatorial", "by_position"]) if all(len(next(iter(b["context"].values()))) == len(next(iter(blocks[0]["context"].values()))) for b in blocks) else "combinatorial"
    if g.chance(0.6):
        rs["max_runs"] = rng.choice([8, 20, 100])
    if g.chance(0.3):
        rs["dry_run"] = False
    return rs


def config_case(g, i: int, fc_share: float = 0.25, very_long: bool = False) -> dict:
    """{"nodes", "ctx", "data", "run_space"|None, "tags"}: generated configuration for the identity checks."""
    from . import gen

    r = g.rng.random()
    tags = []
    if r < 0.08:
        case = multi_external_sweep_case(g)
        tags.append("multi_external_sweep")
    elif r < fc_share:
        case = fc_case(g)
        tags.append("fc_sweep")
    elif r < fc_share + 0.35:
        case = gen.sweep_case(g)
        tags.append("sweep_case")
    else:
        case = g.pipeline(max_len=6, fault_bias=0.0)
        tags.append("pipeline")
    nodes = copy.deepcopy(case["nodes"])
    if g.chance(0.3):
        nodes.insert(g.rng.randint(0, len(nodes)), fitting_node(g))
        tags.append("nested_params")
    if g.chance(0.3):
        nodes.insert(g.rng.randint(0, len(nodes)), struct_node(g))
        tags.append("structured_param")
    if g.chance(0.3):
        cands = [k for k, n in enumerate(nodes) if _dup_safe(n)]
        if cands:
            k = g.rng.choice(cands)
            nodes.insert(k + 1 if g.chance(0.7) else len(nodes), copy.deepcopy(nodes[k]))
            tags.append("duplicate_node")
    # long explicit sequences: elements in the middle are covered by the domain digest only (head/tail samples miss them)
    for n in nodes:
        blk = (n.get("derive") or {}).get("parameter_sweep") if isinstance(n.get("derive"), dict) else None
        if not isinstance(blk, dict) or not (blk.get("mode", "combinatorial") == "combinatorial" or blk.get("broadcast") is True):
            continue
        for v, spec in list(blk.get("variables", {}).items()):
            if g.chance(0.3) and (isinstance(spec, list) or (isinstance(spec, dict) and "values" in spec)):
                long = [g.val() + 0.5 * k for k in range(g.rng.randint(7, 9))]
                blk["variables"][v] = long if isinstance(spec, list) else {"values": long}
                if "long_sequence" not in tags:
                    tags.append("long_sequence")
    if g.chance(0.12):
        # required context keys that differ only by letter case / sort differently with and without case: the list inspection
        # reports is documented as sorted, and must be the same list in every process
        nodes.insert(g.rng.randint(0, len(nodes)), {"processor": "template:\"{Zeta}_{alpha}_{Scan}_{scan}_{SCAN}\":mixlabel"})
        case["ctx"] = dict(case["ctx"], Zeta="z", alpha="a", Scan="s1", scan="s2", SCAN="s3")
        tags.append("mixed_case_required_keys")
    if g.chance(0.1):
        # a node whose `parameters:` key is present but empty (YAML null): every path must agree on what that means
        bare = [k for k, n in enumerate(nodes) if "parameters" not in n and isinstance(n.get("processor"), str)]
        if bare:
            nodes[g.rng.choice(bare)]["parameters"] = None
            tags.append("null_parameters_block")
    if very_long and g.chance(0.08):
        # non-finite parameter values (.inf / -.inf in YAML): values like any other
        nodes.insert(g.rng.randint(0, len(nodes)), {"processor": "VCtxMeta", "parameters": {"vmeta": {"limit": float("inf"), "floor": [float("-inf"), 1.0], "gain": 2.0}}})
        tags.append("non_finite_parameter")
    if very_long and g.chance(0.06):
        # an explicit sequence of a few thousand values (a measured grid): every element is identity-bearing
        for n in nodes:
            blk = (n.get("derive") or {}).get("parameter_sweep") if isinstance(n.get("derive"), dict) else None
            if isinstance(blk, dict) and len(blk.get("variables", {})) == 1:
                v = next(iter(blk["variables"]))
                spec = blk["variables"][v]
                if isinstance(spec, list) or (isinstance(spec, dict) and "values" in spec):
                    long = [0.5 + 0.25 * k for k in range(g.rng.choice([2100, 2600, 4100]))]
                    blk["variables"][v] = {"values": long}
                    tags.append("very_long_sequence")
                    break
    rs = run_space_for(g, case["ctx"]) if g.chance(0.35) else None
    if rs is not None:
        tags.append("run_space")
    return {"nodes": nodes, "ctx": case["ctx"], "data": case["data"], "run_space": rs, "tags": tags}


# =========================================================================== Part 4: memory-bounded shards
def run_in_chunks(run, module: str, nchunks: int, timeout: int = 1500) -> None:
    """Run ``checks.<module>.run_chunk(run, k)`` for k < nchunks, each in a fresh interpreter, and merge the partial results.

    semantiva keeps one generated class per node per build alive in its component registry, so a long shard grows
    without bound (5.8 GB after 20 000 inspections) and slows down quadratically; a chunk is small and starts clean.
    A chunk that dies or hits the watchdog makes the run inconclusive, never violated."""
    import os
    import subprocess
    import sys
    import tempfile

    from . import boot
    from .verdict import jdefault  # noqa: F401

    code = ("import sys, json; sys.path.insert(0, {v!r}); from vlib import boot; boot._paths(); from vlib.verdict import Run, jdefault; "
            "import importlib; m = importlib.import_module('checks.{m}'); "
            "r = Run({pid!r}, {tier!r}, {seed}, m.LEVEL, m.RULE, shard=({si}, {sn})); m.run_chunk(r, int(sys.argv[1])); "
            "json.dump(r.to_partial(), open(sys.argv[2], 'w'), default=jdefault)")
    tmpd = tempfile.mkdtemp(prefix=f"verif-{run.pid}-chunks-")
    try:
        for k in range(nchunks):
            part = os.path.join(tmpd, f"chunk{k}.json")
            cmd = [sys.executable, "-c", code.format(v=boot.VERIF_DIR, m=module, pid=run.pid, tier=run.tier, seed=run.seed,
                                                     si=run.shard[0], sn=run.shard[1]), str(k), part]
            env = dict(os.environ, VERIF_REPO=boot.REPO)
            env.setdefault("PYTHONHASHSEED", "0")
            try:
                p = subprocess.run(cmd, env=env, cwd=boot.VERIF_DIR, stdout=subprocess.PIPE, stderr=subprocess.STDOUT, timeout=timeout)
            except subprocess.TimeoutExpired:
                run.note_inconclusive(f"chunk {k} of shard {run.shard[0]} hit the {timeout}s watchdog")
                continue
            if os.path.exists(part):
                with open(part, encoding="utf-8") as fh:
                    run.merge_partial(json.load(fh))
                run.count("chunks_completed")
            else:
                run.note_inconclusive(f"chunk {k} of shard {run.shard[0]} produced no result (rc={p.returncode}): "
                                      f"{(p.stdout or b'').decode('utf-8', 'replace')[-400:]!r}")
    finally:
        import shutil

        shutil.rmtree(tmpd, ignore_errors=True)
