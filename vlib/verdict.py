"""Three-valued verdicts, evidence files, known-finding classification, replay files.

A check module builds one ``Run`` and reports to it:

    run.case(canon, nontrivial=True, sample=...)     one execution/case explored
    run.count("node_executions", 3)                  monitor counters (what the monitors saw)
    run.violation(key, what, witness)                a refuted property instance; ``key`` is a *mechanism*
                                                     key (never a case hash) matched against known_findings.json
    run.floor("ser_records", 10)                     deciding counter below floor  => inconclusive
    rc = run.finish()                                writes evidence, prints VIOLATION / KNOWN-FINDING lines
"""
from __future__ import annotations

import hashlib
import json
import os
import sys
import time
from collections import Counter
from typing import Any

VERIF_DIR = os.path.dirname(os.path.dirname(os.path.abspath(__file__)))
KNOWN_PATH = os.path.join(VERIF_DIR, "known_findings.json")
EVID_DIR = os.path.join(VERIF_DIR, "evidence")
REPLAY_DIR = os.path.join(VERIF_DIR, "replays")

EXIT_HELD, EXIT_VIOLATED, EXIT_INCONCLUSIVE = 0, 1, 2


def jdefault(o: Any) -> Any:
    if isinstance(o, (set, frozenset)):
        return sorted(o, key=repr)
    if isinstance(o, tuple):
        return list(o)
    if isinstance(o, type):
        return f"{o.__module__}.{o.__qualname__}"
    if isinstance(o, bytes):
        return o.decode("latin1")
    try:
        import numpy as np

        if isinstance(o, np.generic):
            return o.item()
    except Exception:
        pass
    return repr(o)


def jsonable(o: Any) -> Any:
    """Recursively make a witness JSON-able (non-string dict keys, sets, tuples, exotic objects)."""
    if isinstance(o, dict):
        return {(k if isinstance(k, str) else repr(k)): jsonable(v) for k, v in o.items()}
    if isinstance(o, (list, tuple)):
        return [jsonable(v) for v in o]
    if isinstance(o, (set, frozenset)):
        return sorted((jsonable(v) for v in o), key=repr)
    if isinstance(o, float) and (o != o or o in (float("inf"), float("-inf"))):
        return repr(o)
    if isinstance(o, (str, int, float, bool)) or o is None:
        return o
    return jdefault(o)


def canon_hash(obj: Any) -> str:
    s = json.dumps(jsonable(obj), sort_keys=True, default=jdefault, separators=(",", ":"))
    return hashlib.sha256(s.encode()).hexdigest()[:16]


def load_known(pid: str) -> dict:
    try:
        with open(KNOWN_PATH, encoding="utf-8") as fh:
            data = json.load(fh)
    except FileNotFoundError:
        return {}
    out = {}
    for e in data.get("findings", []):
        if e.get("property") == pid and e.get("status") == "open":
            out[e["key"]] = e
    return out


class Run:
    def __init__(self, pid: str, tier: str, seed: int, level: str, rule: str, shard=(0, 1)):
        self.pid, self.tier, self.seed, self.level, self.rule = pid, tier, seed, level, rule
        self.shard = shard
        self.t0 = time.time()
        self.evaluations = 0
        self.distinct: set[str] = set()
        self.samples: list = []
        self.max_samples = 6
        self.counters: Counter = Counter()
        self.info: dict = {}
        self.violations: list[dict] = []       # unlisted => VIOLATION
        self.known_hits: dict[str, dict] = {}  # key -> {count, what}
        self.inconclusive: list[str] = []
        self.floors: list[tuple[str, int]] = []
        self.assumptions: list[str] = []
        self.exhaustive: bool | None = None
        self.known = load_known(pid)
        self.max_violation_reports = 25
        self.viol_keys: Counter = Counter()

    # ------------------------------------------------------------------ reporting API
    def case(self, canon: Any, nontrivial: bool = True, sample: Any = None) -> None:
        self.evaluations += 1
        if nontrivial:
            self.distinct.add(canon if isinstance(canon, str) and len(canon) == 16 else canon_hash(canon))
        if sample is not None and len(self.samples) < self.max_samples:
            self.samples.append(jsonable(sample))

    def count(self, name: str, n: int = 1) -> None:
        self.counters[name] += n

    def floor(self, counter: str, minimum: int) -> None:
        self.floors.append((counter, minimum))

    def note_inconclusive(self, why: str) -> None:
        if why not in self.inconclusive:
            self.inconclusive.append(why)

    def violation(self, key: str, what: str, witness: Any) -> None:
        """Report a refuted instance. ``key`` = mechanism key from the check's classifier."""
        self.counters["violations_total"] += 1
        self.viol_keys[key] += 1
        if key in self.known:
            hit = self.known_hits.setdefault(key, {"count": 0, "what": what})
            hit["count"] += 1
            return
        self.counters["violations_unlisted"] += 1
        if len(self.violations) >= self.max_violation_reports or self.viol_keys[key] > 3:
            return
        os.makedirs(REPLAY_DIR, exist_ok=True)
        body = {
            "property": self.pid,
            "key": key,
            "what": what,
            "tier": self.tier,
            "seed": self.seed,
            "witness": jsonable(witness),
        }
        h = canon_hash(body)
        path = os.path.join(REPLAY_DIR, f"{self.pid}-{h}.json")
        try:
            with open(path, "w", encoding="utf-8") as fh:
                json.dump(body, fh, indent=1, default=jdefault, sort_keys=True)
        except Exception as exc:  # pragma: no cover
            path = f"(unwritable: {exc})"
        self.violations.append({"key": key, "what": what, "replay": path})

    # ------------------------------------------------------------------ partials (sharding)
    def to_partial(self) -> dict:
        return {
            "evaluations": self.evaluations,
            "distinct": sorted(self.distinct),
            "samples": self.samples,
            "counters": dict(self.counters),
            "info": self.info,
            "violations": self.violations,
            "viol_keys": dict(self.viol_keys),
            "known_hits": self.known_hits,
            "inconclusive": self.inconclusive,
            "floors": self.floors,
            "assumptions": self.assumptions,
            "exhaustive": self.exhaustive,
        }

    def merge_partial(self, p: dict) -> None:
        self.evaluations += p["evaluations"]
        self.distinct.update(p["distinct"])
        for s in p["samples"]:
            if len(self.samples) < self.max_samples:
                self.samples.append(s)
        self.counters.update(p["counters"])
        for k, v in p.get("info", {}).items():
            if k not in self.info:
                self.info[k] = v
            elif isinstance(v, (int, float)) and isinstance(self.info[k], (int, float)):
                self.info[k] += v
            elif isinstance(v, dict) and isinstance(self.info[k], dict):
                for kk, vv in v.items():
                    if isinstance(vv, (int, float)) and isinstance(self.info[k].get(kk), (int, float)):
                        self.info[k][kk] += vv
                    else:
                        self.info[k].setdefault(kk, vv)
        self.violations.extend(p["violations"])
        self.viol_keys.update(p.get("viol_keys", {}))
        for k, h in p["known_hits"].items():
            cur = self.known_hits.setdefault(k, {"count": 0, "what": h["what"]})
            cur["count"] += h["count"]
        for w in p["inconclusive"]:
            self.note_inconclusive(w)
        for f in p["floors"]:
            if tuple(f) not in [tuple(x) for x in self.floors]:
                self.floors.append(tuple(f))
        for a in p["assumptions"]:
            if a not in self.assumptions:
                self.assumptions.append(a)
        if p.get("exhaustive") is not None:
            self.exhaustive = p["exhaustive"] if self.exhaustive is None else (self.exhaustive and p["exhaustive"])

    # ------------------------------------------------------------------ end
    def finish(self, write_evidence: bool = True) -> int:
        for counter, minimum in self.floors:
            if self.counters.get(counter, 0) < minimum:
                self.note_inconclusive(
                    f"deciding counter {counter}={self.counters.get(counter, 0)} below floor {minimum}"
                )
        if self.evaluations < 1 or len(self.distinct) < 2:
            self.note_inconclusive(
                f"too few cases: evaluations={self.evaluations} distinct_nontrivial={len(self.distinct)}"
            )
        wall = time.time() - self.t0
        if self.violations:
            verdict, rc = "violated", EXIT_VIOLATED
        elif self.inconclusive:
            verdict, rc = "inconclusive", EXIT_INCONCLUSIVE
        else:
            verdict, rc = "held_on_observed", EXIT_HELD
        coverage = {
            "evaluations": self.evaluations,
            "distinct_nontrivial": len(self.distinct),
            "rule": self.rule,
            "samples": self.samples or ["(no sample recorded)"],
            "monitor_counters": dict(sorted(self.counters.items())),
            "verdict": verdict,
            "known_findings_observed": {k: v for k, v in sorted(self.known_hits.items())},
            "violation_keys_observed": dict(sorted(self.viol_keys.items())),
            "inconclusive_reasons": self.inconclusive,
        }
        coverage.update(self.info)
        if self.exhaustive is not None:
            coverage["exhaustive"] = bool(self.exhaustive)
        ev = {
            "property_id": self.pid,
            "tier": self.tier,
            "seed": int(self.seed),
            "level": self.level,
            "coverage": coverage,
            "assumptions": self.assumptions,
            "wall_s": round(wall, 3),
            "violations": len(self.violations),
        }
        if write_evidence and not os.environ.get("VERIF_NO_EVIDENCE"):
            os.makedirs(EVID_DIR, exist_ok=True)
            tmp = os.path.join(EVID_DIR, f".{self.pid}.json.tmp")
            with open(tmp, "w", encoding="utf-8") as fh:
                json.dump(ev, fh, indent=1, default=jdefault)
            os.replace(tmp, os.path.join(EVID_DIR, f"{self.pid}.json"))
        for key, hit in sorted(self.known_hits.items()):
            desc = self.known[key].get("short", hit["what"])
            print(f"KNOWN-FINDING: property={self.pid} {desc} [key={key} observed={hit['count']}x]")
        for v in self.violations:
            print(f"VIOLATION property={self.pid} replay={v['replay']}")
            print(f"  key={v['key']} :: {v['what']}")
        for w in self.inconclusive:
            print(f"INCONCLUSIVE property={self.pid} {w}")
        print(
            f"[{self.pid}] {verdict}: tier={self.tier} seed={self.seed} evaluations={self.evaluations} "
            f"distinct_nontrivial={len(self.distinct)} violations={len(self.violations)} "
            f"known={sum(h['count'] for h in self.known_hits.values())} wall={wall:.1f}s"
        )
        sys.stdout.flush()
        return rc
