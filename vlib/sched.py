"""Deterministic token-passing scheduler for REAL Python threads running REAL code (DESIGN §2.6).

Pieces
------
* ``code_objects(module)``  every code object of a module: functions, class methods and everything nested in
  ``co_consts`` (lambdas such as a ``defaultdict`` factory, inner functions, generators).
* ``Instrumentation``       installs ``sys.monitoring`` LINE or INSTRUCTION *local* events on those code objects.
  Each event is a **yield point**: the running application thread reports its position and takes a scheduling
  decision (the decision procedure runs in the yielding thread itself, so "continue" costs no context switch);
  if another thread is chosen it is handed the token and the yielding thread blocks on its private lock until it
  gets the token back.  Exactly one application thread runs between two yield points.
* ``ThreadingShim``         object to install as ``<module>.threading``.  ``Lock``/``RLock``/``Event``/``Condition``
  created through it are scheduler-aware: a thread that would block reports "blocked on L" and the scheduler runs
  somebody else (no scheduler-induced deadlock, no wall-clock guessing).  ``Thread`` started from a managed thread
  becomes a managed thread.  Timed waits use a virtual clock that only advances when nothing else can run;
  with ``Scheduler.early_budget`` > 0 (default 0) up to that many timed waits may also expire EARLY, i.e. while other
  threads are runnable (a real OS may deschedule them for longer than the time-out): the timed-blocked threads are then
  offered to the chooser as extra alternatives after the READY ones.
  Everything else falls through to the real ``threading`` module.
* ``Scheduler``             one execution.  A *schedule* is the list of thread names chosen at every decision
  (start, yield, block, finish); ``ReplayChooser`` re-executes one.
* choosers                  ``DFS`` (bounded-preemption, stateless re-execution, shardable), ``PCTChooser``,
  ``RandomChooser``, ``ReplayChooser``.

A wall-clock watchdog exists only as a fallback for blocking the shim cannot see.  If it fires the execution is
flagged ``watchdog_fired`` (non-deterministic); callers must not count it towards an exhaustive claim and must not
turn it into a violation.
"""
from __future__ import annotations

import _thread
import hashlib
import sys
import threading as _real_threading
import types
from array import array

_get_ident = _thread.get_ident
_alloc = _thread.allocate_lock

READY, BLOCKED, DONE = 0, 1, 2
K_YIELD, K_FREE = 0, 1          # decision kinds: at a yield point (switching away = preemption) / start, block, finish

TOOL_NAME = "verif-sched"
_ACTIVE = None                   # the Scheduler currently executing (at most one per process)


class SchedulerAbort(BaseException):
    """Raised inside application threads to unwind them when an execution is abandoned."""


class Divergence(Exception):
    """A prescribed schedule named a thread that is not enabled (replay/DFS prefix no longer reproducible)."""


# ------------------------------------------------------------------------------------------ code discovery
def code_objects(module, filename: str | None = None) -> list[types.CodeType]:
    """All function-level code objects defined in ``module``'s file, deterministic order."""
    fn = filename or module.__file__
    seen: dict[int, types.CodeType] = {}

    def walk_code(co):
        if not isinstance(co, types.CodeType) or co.co_filename != fn or id(co) in seen:
            return
        seen[id(co)] = co
        for c in co.co_consts:
            walk_code(c)

    def walk_obj(o, depth=0):
        if isinstance(o, (staticmethod, classmethod)):
            o = o.__func__
        if isinstance(o, property):
            for f in (o.fget, o.fset, o.fdel):
                if f is not None:
                    walk_obj(f, depth)
            return
        co = getattr(o, "__code__", None)
        if isinstance(co, types.CodeType):
            walk_code(co)
            return
        if isinstance(o, type) and getattr(o, "__module__", None) == module.__name__ and depth < 4:
            for v in list(vars(o).values()):
                walk_obj(v, depth + 1)

    for v in list(vars(module).values()):
        walk_obj(v)
    return sorted(seen.values(), key=lambda c: (c.co_firstlineno, c.co_qualname))


class Instrumentation:
    """LINE / INSTRUCTION yield points on a fixed set of code objects.

    ``instruction_for(code) -> bool`` selects the code objects that get INSTRUCTION granularity (others: LINE).
    Positions are encoded as ``code_index << 14 | (line or byte offset)`` so that hashes agree between processes.
    """

    def __init__(self, codes, instruction_for=None):
        self.codes = list(codes)
        self.base = {c: (i << 14) for i, c in enumerate(self.codes)}
        self.instr = {c for c in self.codes if instruction_for and instruction_for(c)}
        self.tool = None
        self.events_seen = 0

    # position decoding for witnesses
    def describe(self, pos: int) -> str:
        co = self.codes[pos >> 14]
        off = pos & 0x3FFF
        if co in self.instr:
            line = None
            for start, end, ln in co.co_lines():
                if start <= off < end:
                    line = ln
                    break
            return f"{co.co_qualname}@{off}(L{line})"
        return f"{co.co_qualname}:{off}"

    def install(self):
        mon = sys.monitoring
        for tid in (4, 3, 5, 2, 1, 0):
            if mon.get_tool(tid) is None:
                mon.use_tool_id(tid, TOOL_NAME)
                self.tool = tid
                break
        else:  # pragma: no cover
            raise RuntimeError("no free sys.monitoring tool id")
        base = self.base

        def on_event(code, where):
            s = _ACTIVE
            if s is None:
                return None
            t = s.by_ident.get(_get_ident())
            if t is None:
                return None
            s.yield_point(t, base[code] | where)
            return None

        E = mon.events
        mon.register_callback(self.tool, E.LINE, on_event)
        mon.register_callback(self.tool, E.INSTRUCTION, on_event)
        for c in self.codes:
            mon.set_local_events(self.tool, c, E.INSTRUCTION if c in self.instr else E.LINE)
        return self

    def uninstall(self):
        if self.tool is None:
            return
        mon = sys.monitoring
        for c in self.codes:
            mon.set_local_events(self.tool, c, 0)
        mon.register_callback(self.tool, mon.events.LINE, None)
        mon.register_callback(self.tool, mon.events.INSTRUCTION, None)
        mon.free_tool_id(self.tool)
        self.tool = None

    __enter__ = install

    def __exit__(self, *a):
        self.uninstall()


# ------------------------------------------------------------------------------------------ scheduler
class _Worker:
    """Pooled OS thread.  It sleeps on ``go``; a job is assigned before ``go`` is released for the first time."""
    __slots__ = ("go", "job")

    def __init__(self):
        self.go = _alloc()
        self.go.acquire()
        self.job = None
        _thread.start_new_thread(self._main, ())

    def _main(self):
        while True:
            self.go.acquire()
            job, self.job = self.job, None
            if job is None:
                continue
            s, t = job
            if not s._body(t, self):
                return                     # the execution was abandoned: never reuse this OS thread


_IDLE: list[_Worker] = []


class _T:
    __slots__ = ("name", "idx", "fn", "state", "go", "exc", "timed_out", "deadline", "nspawn", "waiters")

    def __init__(self, name, idx, fn, go):
        self.name, self.idx, self.fn = name, idx, fn
        self.state = READY
        self.go = go
        self.exc = None
        self.timed_out = False
        self.deadline = None      # virtual deadline while in a timed wait
        self.nspawn = 0
        self.waiters = []         # threads join()ing this one


class Scheduler:
    """One deterministic execution of a set of managed threads under ``chooser``.

    ``chooser(sched, cur, kind, enabled) -> _T`` is called at every decision; ``cur`` is the deciding thread (None at
    start), ``kind`` is K_YIELD when ``cur`` could continue (choosing another thread is a preemption) else K_FREE.
    """

    def __init__(self, chooser, watchdog_s: float = 60.0):
        self.chooser = chooser
        self.watchdog_s = watchdog_s
        self.threads: list[_T] = []
        self.by_ident: dict[int, _T] = {}
        self.trace = array("I")            # executed positions: thread_idx << 24 | position
        self.schedule: list[int] = []      # thread idx chosen at every decision
        self.preemptions = 0
        self.blocks = 0
        self.vclock = 0.0                  # virtual time (advances only when nobody can run)
        # nondeterministic EARLY expiry of timed waits: a real OS may deschedule the runnable threads for longer
        # than somebody's timeout, so a timed wait can also expire while others are runnable.  While
        # early_used < early_budget, _decide offers the timed-blocked threads (other than the deciding one) to the
        # chooser as extra alternatives after the READY ones.  0 = a timed wait expires only when nobody can run.
        self.early_budget = 0
        self.early_used = 0
        self.aborting = False
        self.deadlock: list | None = None  # [(thread, blocked)] if every live thread was blocked
        self.watchdog_fired = False
        self.diverged: str | None = None
        self._live = 0
        self._live_lock = _alloc()
        self._done = _alloc()
        self._done.acquire()

    # ---- construction
    def spawn(self, name, fn) -> _T:
        w = _IDLE.pop() if _IDLE else _Worker()
        t = _T(name, len(self.threads), fn, w.go)
        self.threads.append(t)
        with self._live_lock:
            self._live += 1
        w.job = (self, t)
        return t

    def me(self):
        return self.by_ident.get(_get_ident())

    # ---- execution
    def run(self):
        """Run to completion (called from the unmanaged controlling thread). Returns self."""
        global _ACTIVE
        if _ACTIVE is not None:
            raise RuntimeError("a Scheduler is already active in this process")
        if not self.threads:
            return self
        _ACTIVE = self
        try:
            try:
                first = self._decide(None, K_FREE)
                first.go.release()
            except Divergence:
                self._abort_all(None)
            if not self._done.acquire(True, self.watchdog_s):
                # fallback only: something blocked where the shim cannot see it
                self.watchdog_fired = True
                self._abort_all(None)
                self._done.acquire(True, 5.0)
        finally:
            _ACTIVE = None
        return self

    def _body(self, t: _T, w) -> bool:
        """Runs in the worker once it holds the token. Returns True if the worker may be reused."""
        self.by_ident[_get_ident()] = t
        try:
            if not self.aborting:
                t.fn()
        except SchedulerAbort:
            pass
        except BaseException as e:  # noqa: BLE001 - reported by the caller's oracle
            t.exc = e
        self.by_ident.pop(_get_ident(), None)
        t.state = DONE
        reusable = not self.aborting
        if reusable:
            _IDLE.append(w)               # before the token is handed on: from here on this thread touches nothing
        try:
            self._finish(t)
        except BaseException:  # pragma: no cover - never let a harness error leave the controller waiting
            self._abort_all(t)
            self._retire()
        return reusable

    def _retire(self):
        with self._live_lock:
            self._live -= 1
            last = self._live == 0
        if last:
            try:
                self._done.release()
            except RuntimeError:
                pass

    def _finish(self, t: _T):
        if self.aborting:
            self._retire()
            return
        for w in t.waiters:
            if w.state == BLOCKED:
                w.state = READY
        t.waiters = []
        try:
            nxt = self._decide(t, K_FREE)
        except Divergence:
            self._abort_all(t)
            self._retire()
            return
        if nxt is None:
            blocked = [x for x in self.threads if x.state == BLOCKED]
            if blocked:
                self.deadlock = [x.name for x in blocked]
                self._abort_all(t)
            self._retire()
            return
        self._retire()
        nxt.go.release()

    def _abort_all(self, caller):
        self.aborting = True
        for x in self.threads:
            if x is not caller and x.state != DONE:
                try:
                    x.go.release()
                except RuntimeError:
                    pass

    def _decide(self, cur, kind):
        enabled = [t for t in self.threads if t.state == READY]
        if not enabled:
            # virtual clock: expire the earliest timed wait, if any
            timed = [t for t in self.threads if t.state == BLOCKED and t.deadline is not None]
            if not timed:
                return None
            t = min(timed, key=lambda x: (x.deadline, x.idx))
            self.vclock = max(self.vclock, t.deadline)
            t.timed_out = True
            t.state = READY
            enabled = [t]
        if self.early_used < self.early_budget:
            extra = [t for t in self.threads if t.state == BLOCKED and t.deadline is not None and t is not cur]
            if extra:
                enabled = enabled + extra          # READY ones first: choosers' defaults never expire anything early
        nxt = self.chooser(self, cur, kind, enabled)
        if nxt.state == BLOCKED:                   # an offered timed wait expires early
            nxt.timed_out = True
            nxt.state = READY
            self.early_used += 1
        self.schedule.append(nxt.idx)
        if kind == K_YIELD and nxt is not cur:
            self.preemptions += 1
        return nxt

    def yield_point(self, t: _T, pos: int):
        """Called (in thread ``t``) just before the instrumented line/instruction at ``pos`` executes."""
        if self.aborting:
            raise SchedulerAbort
        try:
            nxt = self._decide(t, K_YIELD)
        except Divergence:
            self._abort_all(t)
            raise SchedulerAbort from None
        if nxt is not t:
            nxt.go.release()
            t.go.acquire()
            if self.aborting:
                raise SchedulerAbort
        self.trace.append((t.idx << 24) | pos)

    def block(self, t: _T, timeout=None) -> bool:
        """Thread ``t`` cannot continue until somebody marks it READY. Returns False if a timed wait expired."""
        if self.aborting:
            raise SchedulerAbort
        t.state = BLOCKED
        t.timed_out = False
        t.deadline = None if timeout is None or timeout < 0 else self.vclock + timeout
        self.blocks += 1
        try:
            nxt = self._decide(t, K_FREE)
        except Divergence:
            self._abort_all(t)
            raise SchedulerAbort from None
        if nxt is None:
            self.deadlock = [x.name for x in self.threads if x.state == BLOCKED]
            self._abort_all(t)
            raise SchedulerAbort
        if nxt is not t:
            nxt.go.release()
            t.go.acquire()
            if self.aborting:
                raise SchedulerAbort
        t.deadline = None
        return not t.timed_out

    # ---- results
    def names(self, idxs=None):
        return [self.threads[i].name for i in (self.schedule if idxs is None else idxs)]

    def interleaving_hash(self, salt: str = "") -> str:
        h = hashlib.blake2b(self.trace.tobytes(), digest_size=8, person=b"verif-sched")
        h.update(salt.encode())
        return h.hexdigest()

    def segments(self) -> int:
        """Number of maximal runs of one thread in the executed trace."""
        n, last = 0, -1
        for v in self.trace:
            i = v >> 24
            if i != last:
                n += 1
                last = i
        return n

    def interleaved(self) -> bool:
        """True if some thread ran, another ran, and the first ran again."""
        seen, last = set(), -1
        for v in self.trace:
            i = v >> 24
            if i != last:
                if i in seen:
                    return True
                seen.add(i)
                last = i
        return False

    @property
    def deterministic(self) -> bool:
        return not self.watchdog_fired and self.diverged is None


# ------------------------------------------------------------------------------------------ choosers
class ReplayChooser:
    """Follow a list of thread names; afterwards continue the current thread if possible, else the first enabled."""

    def __init__(self, names):
        self.names = list(names)
        self.k = 0

    def __call__(self, s, cur, kind, enabled):
        k = self.k
        self.k += 1
        if k < len(self.names):
            for t in enabled:
                if t.name == self.names[k]:
                    return t
            s.diverged = f"decision {k}: thread {self.names[k]!r} not enabled (enabled={[t.name for t in enabled]})"
            raise Divergence(s.diverged)
        if kind == K_YIELD:
            return cur
        return enabled[0]


class RandomChooser:
    """Uniform choice among enabled threads at every decision."""

    def __init__(self, rng):
        self.rng = rng

    def __call__(self, s, cur, kind, enabled):
        if len(enabled) == 1:
            return enabled[0]
        return enabled[int(self.rng.random() * len(enabled))]


class PCTChooser:
    """PCT (Burckhardt et al.): random distinct priorities, ``depth-1`` priority-change points at random steps."""

    def __init__(self, rng, depth: int, steps_estimate: int):
        self.rng = rng
        self.depth = depth
        self.prio: dict[int, float] = {}
        k = max(2, steps_estimate)
        self.change = {}
        for i in range(max(0, depth - 1)):
            self.change.setdefault(rng.randrange(1, k + 1), i)
        self.step = 0

    def __call__(self, s, cur, kind, enabled):
        prio = self.prio
        for t in enabled:
            if t.idx not in prio:
                prio[t.idx] = self.depth + self.rng.random()      # initial priorities all above the change values
        if kind == K_YIELD:
            self.step += 1
            i = self.change.get(self.step)
            if i is not None:
                prio[cur.idx] = self.depth - 1 - i - 0.5           # lower than every initial priority
        best = enabled[0]
        bp = prio[best.idx]
        for t in enabled:
            if prio[t.idx] > bp:
                best, bp = t, prio[t.idx]
        return best


class _DFSChooser:
    def __init__(self, stack, bound):
        self.stack = stack
        self.bound = bound
        self.depth = 0

    def __call__(self, s, cur, kind, enabled):
        d = self.depth
        self.depth = d + 1
        st = self.stack
        if d < len(st):
            e = st[d]
            t = s.threads[e[0][e[1]]] if e[0][e[1]] < len(s.threads) else None
            if t is None or t not in enabled:      # (membership, not state: an offered timed wait is still BLOCKED)
                s.diverged = f"DFS prefix not reproducible at decision {d}"
                raise Divergence(s.diverged)
            return t
        if kind == K_YIELD:
            if s.preemptions < self.bound and len(enabled) > 1:
                alts = [cur.idx] + [t.idx for t in enabled if t is not cur]
            else:
                alts = (cur.idx,)
        else:
            alts = [t.idx for t in enabled]
        st.append([alts, 0, kind == K_YIELD])      # third field: a non-default choice here is a preemption
        return s.threads[alts[0]]


class DFS:
    """Bounded-preemption depth-first enumeration by stateless re-execution.

    ``for chooser in dfs: execute(chooser)`` — each iteration must run one complete execution with the yielded
    chooser.  Sharding (``shard=(i, n)``): let ``R = max(1, bound - 1)``.  Schedules with fewer than ``R``
    preemptions form the *spine*; every shard executes them (they are needed to discover the alternatives below
    them) and ``dfs.is_spine`` tells the caller so that only shard 0 counts them.  Every other schedule lies in
    exactly one subtree rooted at its ``R``-th preemption (below the root: at most one more preemption plus the free
    choices at thread start / block / finish, so subtrees have comparable sizes); subtrees are numbered in
    enumeration order and shard ``i`` explores those with ``hash(number) * n >> 32 == i`` (fixed multiplicative
    hash, ``salt`` rotates the assignment between rows).  The union over all shards is the whole tree, each
    non-spine schedule exactly once.
    """

    def __init__(self, bound: int, shard=(0, 1), max_schedules: int | None = None, salt: int = 0):
        self.bound = bound
        self.shard = shard
        self.salt = salt
        self.max_schedules = max_schedules
        self.stack: list = []
        self.executed = 0
        self.spine_executed = 0
        self.subtrees = 0
        self.exhausted = False
        self.is_spine = True
        self.aborted = False          # caller sets this after a non-deterministic execution

    def __iter__(self):
        first = True
        while True:
            if not first:
                if self.aborted or not self._advance():
                    self.exhausted = not self.aborted
                    return
            if self.max_schedules is not None and self.executed >= self.max_schedules:
                return
            first = False
            self.executed += 1
            if self.is_spine:
                self.spine_executed += 1
            yield _DFSChooser(self.stack, self.bound)

    def _advance(self) -> bool:
        st = self.stack
        i, n = self.shard
        R = max(1, self.bound - 1)
        while st:
            e = st[-1]
            if e[1] + 1 < len(e[0]):
                e[1] += 1
                if n > 1:
                    p = 0
                    for x in st:
                        if x[1] and x[2]:
                            p += 1
                    self.is_spine = p < R
                    if p == R and e[2]:
                        # the choice just made is the R-th preemption: root of a new subtree.
                        # multiplicative hash instead of k % n: neighbouring subtrees have smoothly varying
                        # sizes, plain modulo would hand the same shard the largest one of every group of n
                        k = self.subtrees
                        self.subtrees += 1
                        if ((((k * 0x9E3779B1) & 0xFFFFFFFF) * n >> 32) + self.salt) % n != i:
                            continue
                else:
                    self.is_spine = False
                return True
            st.pop()
        return False


# ------------------------------------------------------------------------------------------ threading shim
class _Waitable:
    __slots__ = ("_waiters",)

    def _wake_all(self):
        for w in self._waiters:
            if w.state == BLOCKED:
                w.state = READY
        self._waiters = []

    def _wait(self, s, t, timeout=None) -> bool:
        self._waiters.append(t)
        ok = s.block(t, timeout)
        if not ok and t in self._waiters:
            self._waiters.remove(t)
        return ok


def _ctx():
    s = _ACTIVE
    if s is None:
        return None, None
    return s, s.by_ident.get(_get_ident())


class ShimLock(_Waitable):
    """Non-reentrant lock whose contention is visible to the scheduler."""

    __slots__ = ("_owner", "tag")

    def __init__(self, tag=None):
        self._owner = None
        self._waiters = []
        self.tag = tag

    def acquire(self, blocking=True, timeout=-1):
        s, t = _ctx()
        while self._owner is not None:
            if not blocking or timeout == 0:
                return False
            if t is None:
                raise RuntimeError("unmanaged thread would block on a scheduler-visible lock")
            if not self._wait(s, t, None if timeout is None or timeout < 0 else timeout):
                return False
        self._owner = t if t is not None else "unmanaged"
        return True

    def release(self):
        if self._owner is None:
            raise RuntimeError("release unlocked lock")
        self._owner = None
        if self._waiters:
            self._wake_all()

    def locked(self):
        return self._owner is not None

    def __enter__(self):
        self.acquire()
        return True

    def __exit__(self, *a):
        self.release()


class ShimRLock(_Waitable):
    __slots__ = ("_owner", "_count", "tag")

    def __init__(self, tag=None):
        self._owner, self._count = None, 0
        self._waiters = []
        self.tag = tag

    def acquire(self, blocking=True, timeout=-1):
        s, t = _ctx()
        me = t if t is not None else "unmanaged"
        if self._owner is me:
            self._count += 1
            return True
        while self._owner is not None:
            if not blocking or timeout == 0:
                return False
            if t is None:
                raise RuntimeError("unmanaged thread would block on a scheduler-visible lock")
            if not self._wait(s, t, None if timeout is None or timeout < 0 else timeout):
                return False
        self._owner, self._count = me, 1
        return True

    def release(self):
        s, t = _ctx()
        me = t if t is not None else "unmanaged"
        if self._owner is not me:
            raise RuntimeError("cannot release un-acquired lock")
        self._count -= 1
        if self._count == 0:
            self._owner = None
            if self._waiters:
                self._wake_all()

    def __enter__(self):
        self.acquire()
        return True

    def __exit__(self, *a):
        self.release()

    # Condition support
    def _release_save(self):
        c = self._count
        self._count = 0
        self._owner = None
        if self._waiters:
            self._wake_all()
        return c

    def _acquire_restore(self, c):
        self.acquire()
        self._count = c


class ShimEvent(_Waitable):
    __slots__ = ("_flag",)

    def __init__(self):
        self._flag = False
        self._waiters = []

    def is_set(self):
        return self._flag

    def set(self):
        self._flag = True
        if self._waiters:
            self._wake_all()

    def clear(self):
        self._flag = False

    def wait(self, timeout=None):
        s, t = _ctx()
        while not self._flag:
            if t is None:
                raise RuntimeError("unmanaged thread would block on a scheduler-visible event")
            if not self._wait(s, t, timeout):
                return self._flag
        return True


class ShimCondition(_Waitable):
    def __init__(self, lock=None):
        self._lock = lock if lock is not None else ShimRLock()
        self._waiters = []
        self.acquire = self._lock.acquire
        self.release = self._lock.release

    def __enter__(self):
        return self._lock.__enter__()

    def __exit__(self, *a):
        return self._lock.__exit__(*a)

    def wait(self, timeout=None):
        s, t = _ctx()
        if t is None:
            raise RuntimeError("unmanaged thread would block on a scheduler-visible condition")
        if isinstance(self._lock, ShimRLock):
            saved = self._lock._release_save()
        else:
            saved = None
            self._lock.release()
        try:
            return self._wait(s, t, timeout)
        finally:
            if saved is None:
                self._lock.acquire()
            else:
                self._lock._acquire_restore(saved)

    def wait_for(self, predicate, timeout=None):
        r = predicate()
        while not r:
            if not self.wait(timeout):
                return predicate()
            r = predicate()
        return r

    def notify(self, n=1):
        woken = 0
        rest = []
        for w in self._waiters:
            if woken < n and w.state == BLOCKED:
                w.state = READY
                woken += 1
            else:
                rest.append(w)
        self._waiters = rest

    def notify_all(self):
        self._wake_all()


class ShimThread:
    """``threading.Thread`` replacement: started from a managed thread it becomes a managed thread."""

    def __init__(self, group=None, target=None, name=None, args=(), kwargs=None, *, daemon=None):
        self._target, self._args, self._kwargs = target, args, kwargs or {}
        self.name = name
        self.daemon = daemon
        self._t = None
        self._real = None

    def run(self):
        if self._target is not None:
            self._target(*self._args, **self._kwargs)

    def start(self):
        s, t = _ctx()
        if t is None:
            self._real = _real_threading.Thread(target=self.run, name=self.name, daemon=self.daemon)
            self._real.start()
            return
        t.nspawn += 1
        self._t = s.spawn(f"{t.name}/t{t.nspawn}", self.run)

    def is_alive(self):
        if self._real is not None:
            return self._real.is_alive()
        return self._t is not None and self._t.state != DONE

    def join(self, timeout=None):
        if self._real is not None:
            return self._real.join(timeout)
        if self._t is None:
            raise RuntimeError("cannot join thread before it is started")
        s, t = _ctx()
        while self._t.state != DONE:
            if t is None:
                raise RuntimeError("unmanaged thread would block joining a managed thread")
            self._t.waiters.append(t)
            if not s.block(t, timeout):
                return


class ThreadingShim:
    """Install as ``module.threading``.  ``on_lock_created(lock)`` lets a check attribute lock creations."""

    def __init__(self, on_lock_created=None):
        self._on_lock_created = on_lock_created
        self.locks_created = 0
        self.Event = ShimEvent
        self.Condition = ShimCondition
        self.Thread = ShimThread

    def Lock(self):
        self.locks_created += 1
        lk = ShimLock()
        if self._on_lock_created:
            self._on_lock_created(lk)
        return lk

    def RLock(self):
        self.locks_created += 1
        lk = ShimRLock()
        if self._on_lock_created:
            self._on_lock_created(lk)
        return lk

    def __getattr__(self, name):
        return getattr(_real_threading, name)


class CountingThreading:
    """For free-running (really preemptive) executions: real primitives, lock creations reported."""

    def __init__(self, on_lock_created=None):
        self._on_lock_created = on_lock_created
        self.locks_created = 0

    def Lock(self):
        self.locks_created += 1
        lk = _real_threading.Lock()
        if self._on_lock_created:
            self._on_lock_created(lk)
        return lk

    def __getattr__(self, name):
        return getattr(_real_threading, name)
